#!/bin/bash
# setup_cmd: build the runner offline from files on disk only (engines are rebuilt by every check).
set -eu
cd "$(cd "$(dirname "$0")" && pwd)"
export GOFLAGS=-mod=mod GOPROXY=off GOSUMDB=off GOTOOLCHAIN=local CGO_ENABLED=1
GO=/opt/veriftools/go1.26.8/bin/go
[ -x "$GO" ] || GO=go1.26.8
mkdir -p bin evidence replays
[ -f sim/go.sum ] || cp /repo/go.sum sim/go.sum
( cd sim && $GO build -o ../bin/check ./cmd/check )
# warm the build cache for every engine (so the first quick check does not pay for the std + goloop build)
for e in sim/engines/*/; do
  n=$(basename "$e")
  # best effort: every check rebuilds its own engine anyway; an engine that is still under construction must not break setup
  ( cd sim && $GO test -c -tags verif -vet=off -o ../bin/$n.test ./engines/$n ) || echo "warning: engine $n did not build (its checks will report it)" 
done
echo setup ok
