#!/bin/bash
# usage: check.sh <property> <tier> [extra flags for bin/check]
# Rebuilds the runner if needed (incremental) and runs one property check
# against /repo's current working tree.
set -u
ROOT=$(cd "$(dirname "$0")" && pwd)
cd "$ROOT"
export VERIF_ROOT="$ROOT"
export GOFLAGS=-mod=mod GOPROXY=off GOSUMDB=off GOTOOLCHAIN=local CGO_ENABLED=1
export PATH=/opt/veriftools/go1.26.8/bin:$PATH
GO=/opt/veriftools/go1.26.8/bin/go
[ -x "$GO" ] || GO=go1.26.8
mkdir -p bin evidence replays
[ -f sim/go.sum ] || cp /repo/go.sum sim/go.sum
( cd sim && $GO build -o ../bin/check ./cmd/check ) || { echo "HARNESS-ERROR: cannot build runner"; exit 2; }
if [ "$1" = "--replay" ]; then
  exec ./bin/check -replay "$2"
fi
prop=$1; tier=${2:-quick}; shift; shift || true
exec ./bin/check -property "$prop" -tier "$tier" "$@"
