#!/usr/bin/env python3
"""Regenerates /verif/mutants/SUMMARY.md and /verif/seeded/SUMMARY.md (+ meta.json per seeded change)
from the result files the mutant runners and tools/seed.sh leave behind."""
import glob, json, os, re

def verdict_of(text):
    t = text.upper()
    if 'CAUGHT' in t.split('\n')[0] or 'EXIT=1' in t.split('\n')[0] or re.search(r'\bexit(=|\s)1\b', text.split('\n')[0]): return 'caught'
    if 'MISSED' in t.split('\n')[0] or re.search(r'\bexit(=|\s)0\b', text.split('\n')[0]): return 'missed'
    if 'VIOLATION' in t: return 'caught'
    if re.search(r'^OK property', text, re.M): return 'missed'
    return 'see file'

NOTES = {
 ('C02','c02-m2-own-wal-votes-not-restored'): 'missed, judged benign for C02: the restored step keeps the validator from voting again, so no second signature follows (liveness only)',
 ('C02','c02-m4-round-wal-not-repaired'): 'missed in the quick tier: needs two crashes with a torn round WAL each; the WAL-level consequence is covered by C03',
 ('C03','c02-m4-round-wal-not-repaired'): 'not applicable to C03 (the mutated code is in consensus.go, walsim does not run it)',
 ('C03','c03-m1-no-crc-check'): 'equivalent under the property crash model: a crash persists a prefix, so a torn record is always a short read; the CRC only matters for bit rot',
 ('C07','c07-m2-equal-parent-timestamp-accepted'): 'equivalent in reach: a block whose timestamp equals its parent cannot also equal the median of correct validators vote timestamps, so the median check rejects it first',
 ('C07','c07-m4-version-not-checked'): 'equivalent in reach: a block of another version is refused by the decoder (no handler) before import',
 ('C08','c08-m3-btp-digest-hash-not-compared'): 'equivalent in reach: the digest hash is checked again during import (all correct validators still prevote nil); the seeded change that defeats both layers is caught (seeded/C08-digest-not-bound)',
 ('C04','c04-m5-stale-maxindex'): 'crashes the validator (index out of range in the tally): reported as process-crash, a violation for C04 since CrashIsViolation was enabled',
}
rows = []
for d in sorted(glob.glob('/verif/mutants/C*')):
    prop = os.path.basename(d)
    names = sorted({re.sub(r'\.(diff|patch|result\.txt|result)$', '', os.path.basename(f)) for f in glob.glob(d + '/*') if re.search(r'\.(diff|patch)$', f)})
    for n in names:
        if n.lower().startswith(('baseline', 'proposed')): continue
        res = None
        for ext in ('.result.txt', '.result'):
            if os.path.exists(f'{d}/{n}{ext}'): res = open(f'{d}/{n}{ext}').read()
        if res is None:
            for agg in ('RESULTS.txt',):
                if os.path.exists(f'{d}/{agg}'):
                    for line in open(f'{d}/{agg}'):
                        if n.split('-')[0] + '-' in line or n in line:
                            res = line
        if res is None:
            # execsim mutants keep their verdict in the header of the patch file
            for ext in ('.patch', '.diff'):
                fp = f'{d}/{n}{ext}'
                if os.path.exists(fp):
                    head = open(fp).read().split('\n')
                    m = re.match(r'# mutant .*: (CAUGHT|MISSED|HARNESS-TROUBLE[^ ]*)', head[0]) if head else None
                    if m:
                        res = m.group(1)
                        note = ' '.join(l[2:].strip() for l in head[1:6] if l.startswith('# NOTE') or (res == 'MISSED' and l.startswith('#') and 'applied on top' not in l and not l.startswith('#   ')))
                        if note and res == 'MISSED':
                            res = 'MISSED\n'; extra_note = note
                            NOTES.setdefault((prop, n), note.replace('NOTE: ', ''))
        v = verdict_of(res) if res else 'no result file (see engine report in DESIGN.md 12)'
        if (prop, n) in NOTES: v += ' — ' + NOTES[(prop, n)]
        rows.append((prop, n, v))
with open('/verif/mutants/SUMMARY.md', 'w') as f:
    f.write('# Hand-written mutants (applied through VERIF_OVERLAY, never to /repo)\n\n| property | mutant | quick check verdict |\n|---|---|---|\n')
    for r in rows: f.write('| %s | %s | %s |\n' % r)
    c = sum(1 for r in rows if r[2].startswith('caught')); m = sum(1 for r in rows if r[2].startswith('missed'))
    f.write('\n%d mutants, %d caught, %d missed, %d without a machine-readable result.\n' % (len(rows), c, m, len(rows) - c - m))

sNOTES = {
 ('C02','c02-m2-own-wal-votes-not-restored'): 'missed, judged benign for C02: the restored step keeps the validator from voting again, so no second signature follows (liveness only)',
 ('C02','c02-m4-round-wal-not-repaired'): 'missed in the quick tier: needs two crashes with a torn round WAL each; the WAL-level consequence is covered by C03',
 ('C03','c02-m4-round-wal-not-repaired'): 'not applicable to C03 (the mutated code is in consensus.go, walsim does not run it)',
 ('C03','c03-m1-no-crc-check'): 'equivalent under the property crash model: a crash persists a prefix, so a torn record is always a short read; the CRC only matters for bit rot',
 ('C07','c07-m2-equal-parent-timestamp-accepted'): 'equivalent in reach: a block whose timestamp equals its parent cannot also equal the median of correct validators vote timestamps, so the median check rejects it first',
 ('C07','c07-m4-version-not-checked'): 'equivalent in reach: a block of another version is refused by the decoder (no handler) before import',
 ('C08','c08-m3-btp-digest-hash-not-compared'): 'equivalent in reach: the digest hash is checked again during import (all correct validators still prevote nil); the seeded change that defeats both layers is caught (seeded/C08-digest-not-bound)',
 ('C04','c04-m5-stale-maxindex'): 'crashes the validator (index out of range in the tally): reported as process-crash, a violation for C04 since CrashIsViolation was enabled',
}
rows = []
srows = []
for d in sorted(glob.glob('/verif/seeded/*/')):
    sid = os.path.basename(d.rstrip('/'))
    log = open(d + 'confirm.log').read() if os.path.exists(d + 'confirm.log') else ''
    am = {}
    if os.path.exists(d + 'agent-meta.json'):
        try: am = json.load(open(d + 'agent-meta.json'))
        except Exception: am = {}
    checks = re.findall(r'== check (C\d+) quick against the seeded change\nexit=(\d+)', log)
    demo_with = re.search(r'demo WITH change \(must fail\)\nexit=(\d+)', log)
    demo_without = re.search(r'demo WITHOUT change \(must pass\)\nexit=(\d+)', log)
    extra = {}
    if os.path.exists(d + 'extra.json'):
        extra = json.load(open(d + 'extra.json'))
    meta = {
        'id': sid, 'property': sid.split('-')[0],
        'breaks': am.get('summary', ''), 'needs_to_manifest': am.get('needs_to_manifest', ''),
        'files_touched': am.get('files_touched', []),
        'confirmed': {'compiles': 'BUILD-OK' in log, 'existing_tests_pass_with_change': 'FAIL' not in log.split('== demo WITH')[0],
                      'demo_fails_with_change': bool(demo_with and demo_with.group(1) != '0'), 'demo_passes_without_change': bool(demo_without and demo_without.group(1) == '0')},
        'what_was_run': 'tools/seed.sh (build, existing tests of touched packages with the change, demo with/without, our quick checks through a compile-time overlay of the patched files)',
        'our_checks': [{'property': p, 'quick_exit': int(e), 'verdict': 'caught' if e == '1' else ('missed' if e == '0' else 'harness-error')} for p, e in checks],
    }
    meta.update(extra)
    json.dump(meta, open(d + 'meta.json', 'w'), indent=1)
    srows.append((sid, '; '.join('%s:%s' % (c['property'], c['verdict']) for c in meta['our_checks']) or '-', meta.get('note', ''), (meta['breaks'] or '')[:160].replace('|', '/')))
with open('/verif/seeded/SUMMARY.md', 'w') as f:
    f.write('# Independently seeded changes (written by fresh sub-agents that saw only the property text)\n\n| id | our quick checks | note | what it breaks |\n|---|---|---|---|\n')
    for r in srows: f.write('| %s | %s | %s | %s |\n' % r)
print(len(srows), 'seeded')
