#!/bin/bash
# usage: tools/seed.sh <seed-dir-name e.g. seed-C05> <seeded-id e.g. C05-a> "<demo go test args, e.g. -run TestSeedC05 ./consensus/>" "<pkgs to test>" <prop> [<prop>...]
# Confirms a seeded change (compiles, existing tests pass, demo fails with / passes without) and runs our checks against it
# through a compile-time overlay (equivalent to `git -C /repo apply` but safe while other checks build from /repo).
set -u
export GOFLAGS=-mod=mod GOPROXY=off GOSUMDB=off
W=/tmp/$1; ID=$2; DEMO=$3; PKGS=$4; shift 4
OUT=/verif/seeded/$ID; mkdir -p $OUT
cd $W || exit 2
FILES=$(git diff --name-only | grep -v '^SEED/')
echo "touched: $FILES"
cp SEED/patch.diff $OUT/patch.diff 2>/dev/null || git diff -- $FILES > $OUT/patch.diff
cp SEED/README.md $OUT/demo-README.md 2>/dev/null
for f in SEED/*_test.go SEED/*.go; do [ -f "$f" ] && cp $f $OUT/; done
cp SEED/meta.json $OUT/agent-meta.json 2>/dev/null
{
echo "== build"; go build ./... && echo BUILD-OK
echo "== existing tests with the change (demo skipped)"; go test -count=1 -skip 'TestSeed' $PKGS 2>&1 | grep -E '^(ok|FAIL|---|panic)' | head -20
echo "== demo WITH change (must fail)"; go test -count=1 $DEMO > /tmp/$ID.with.log 2>&1; echo "exit=$?"; grep -E '^(--- FAIL|FAIL|ok)' /tmp/$ID.with.log | head -5
echo "== demo WITHOUT change (must pass)"; git diff -- $FILES > /tmp/$ID.src.patch; git apply -R /tmp/$ID.src.patch; go test -count=1 $DEMO > /tmp/$ID.without.log 2>&1; echo "exit=$?"; grep -E '^(--- FAIL|FAIL|ok)' /tmp/$ID.without.log | head -5; git apply /tmp/$ID.src.patch
} 2>&1 | tee $OUT/confirm.log
# overlay: the seeded hunks applied on top of /repo's CURRENT files (the worktree may predate later fix: commits)
OVD=/dev/shm/me/ovfiles/$ID; rm -rf $OVD; mkdir -p $OVD
REPL=""
for f in $FILES; do
  mkdir -p $OVD/$(dirname $f)
  git diff -- $f > $OVD/$f.patch
  if ! patch -s -o $OVD/$f /repo/$f < $OVD/$f.patch; then echo "PATCH DOES NOT APPLY to current /repo/$f" | tee -a $OUT/confirm.log; fi
  REPL="$REPL \"/repo/$f\": \"$OVD/$f\","
done
echo "{\"Replace\": {${REPL%,}}}" > /dev/shm/me/ov-$ID.json
cd /verif
for P in "$@"; do
  echo "== check $P quick against the seeded change" | tee -a $OUT/confirm.log
  VERIF_OVERLAY=/dev/shm/me/ov-$ID.json ./check.sh $P quick -no-evidence -selftest 0 > /tmp/$ID.$P.log 2>&1; rc=$?
  echo "exit=$rc" | tee -a $OUT/confirm.log
  grep -E '^(violation|VIOLATION|KNOWN|OK|HARNESS)' /tmp/$ID.$P.log | head -8 | cut -c1-300 | tee -a $OUT/confirm.log
  grep -A1 '^violation' /tmp/$ID.$P.log | head -6 | cut -c1-400 >> $OUT/confirm.log
done
