#!/bin/bash
# usage: tools/reseed.sh <seeded-id> <prop> [<prop>...] [-- extra check flags]
# Re-runs our quick checks against a kept seeded change (seeded/<id>/patch.diff) through a compile-time
# overlay of the patched files (same effect as `git -C /repo apply`, but /repo is never touched).
set -u
ID=$1; shift
PROPS=(); EXTRA=()
while [ $# -gt 0 ]; do if [ "$1" = "--" ]; then shift; EXTRA=("$@"); break; fi; PROPS+=("$1"); shift; done
ROOT=$(cd "$(dirname "$0")/.." && pwd)
P=$ROOT/seeded/$ID/patch.diff
[ -f "$P" ] || { echo "no $P"; exit 2; }
OVD=/dev/shm/verif-ov/$ID; rm -rf $OVD; mkdir -p $OVD/src
FILES=$(grep -E '^\+\+\+ b/' $P | sed 's#^+++ b/##')
REPL=""
for f in $FILES; do
  mkdir -p $OVD/src/$(dirname $f)
  if [ -f /repo/$f ]; then cp /repo/$f $OVD/src/$f; fi
done
( cd $OVD/src && patch -s -p1 < $P ) || { echo "PATCH DOES NOT APPLY to current /repo"; exit 2; }
for f in $FILES; do REPL="$REPL \"/repo/$f\": \"$OVD/src/$f\","; done
echo "{\"Replace\": {${REPL%,}}}" > $OVD/overlay.json
rc_all=0
for p in "${PROPS[@]}"; do
  VERIF_OVERLAY=$OVD/overlay.json $ROOT/check.sh $p quick -no-evidence -selftest 0 "${EXTRA[@]}" > $OVD/$p.log 2>&1; rc=$?
  echo "== $ID vs $p quick: exit=$rc"
  grep -E '^(violation|VIOLATION|KNOWN|OK|HARNESS)' $OVD/$p.log | head -6 | cut -c1-300
done
