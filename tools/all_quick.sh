#!/bin/bash
# runs every claimed check's quick tier sequentially; summary at the end
cd "$(cd "$(dirname "$0")/.." && pwd)"
TAG=${2:-allquick}
ids=$(python3 -c "import json; print(' '.join(c['property_id'] for c in json.load(open('MANIFEST.json'))['checks']))")
: > /dev/shm/$TAG.summary
for p in $ids; do
  t0=$(date +%s)
  ./check.sh $p ${1:-quick} > /dev/shm/$TAG-$p.log 2>&1; rc=$?
  echo "$p exit=$rc wall=$(( $(date +%s) - t0 ))s $(grep -cE '^KNOWN-FINDING' /dev/shm/$TAG-$p.log) known; $(tail -1 /dev/shm/$TAG-$p.log | cut -c1-120)" >> /dev/shm/$TAG.summary
done
echo ALLDONE >> /dev/shm/$TAG.summary
