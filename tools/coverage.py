#!/usr/bin/env python3
"""usage: tools/coverage.py <engine> <coverpkg-patterns,comma> <PROP:profile:runs> [...]
Builds the engine with Go coverage instrumentation for the given goloop packages, runs the given
number of simulated runs per (property, profile) in parallel worker processes, merges the counters
and writes coverage/<engine>.func.txt (per function) and coverage/<engine>.uncovered.txt (functions
of the anchored files that no simulated run executed). A reach measure: it shows which code behind
a property the simulations never enter."""
import json, os, subprocess, sys, glob, shutil

ROOT = os.path.dirname(os.path.dirname(os.path.abspath(__file__)))
GO = '/opt/veriftools/go1.26.8/bin/go'
env = dict(os.environ, GOFLAGS='-mod=mod', GOPROXY='off', GOSUMDB='off', GOTOOLCHAIN='local')

def main():
    eng, pkgs = sys.argv[1], sys.argv[2]
    specs = [a.split(':') for a in sys.argv[3:]]
    d = f'/dev/shm/verif-cov-{eng}'
    shutil.rmtree(d, ignore_errors=True); os.makedirs(d + '/data')
    binp = f'{d}/{eng}.test'
    ov = []
    # engines with lock-site instrumentation are built by the runner; here a plain build is enough
    subprocess.check_call([GO, 'test', '-c', '-tags', 'verif', '-vet=off', '-cover', '-coverpkg=' + pkgs, '-o', binp, f'./engines/{eng}'] + ov, cwd=ROOT + '/sim', env=env)
    procs = []
    W = 14
    for prop, prof, runs in specs:
        runs = int(runs)
        for w in range(W):
            cnt = len(range(w, runs, W))
            if cnt == 0: continue
            job = {'mode': 'batch', 'property': prop, 'tier': 'quick', 'profile': prof, 'base_seed': int(os.environ.get('VERIF_SEED', '20260921')),
                   'start': w, 'count': cnt, 'stride': W, 'repeat': 1, 'out': f'{d}/out-{prop}-{prof}-{w}.jsonl'}
            jp = f'{d}/job-{prop}-{prof}-{w}.json'
            json.dump(job, open(jp, 'w'))
            procs.append(subprocess.Popen([binp, '-test.run', '^TestWorker$', '-test.cpu', '1', '-test.timeout', '0', '-test.gocoverdir=' + d + '/data'],
                                          env=dict(env, VERIF_JOB=jp), stdout=subprocess.DEVNULL, stderr=subprocess.DEVNULL))
            if len(procs) % 16 == 0:
                for p in procs[-16:]: p.wait()
    for p in procs: p.wait()
    out = subprocess.run([GO, 'tool', 'covdata', 'func', '-i=' + d + '/data'], capture_output=True, text=True, env=env).stdout
    os.makedirs(ROOT + '/coverage', exist_ok=True)
    open(f'{ROOT}/coverage/{eng}.func.txt', 'w').write(out)
    anchors = set()
    served = {a[0] for a in specs}
    for l in open(ROOT + '/properties.jsonl'):
        o = json.loads(l)
        if o['id'] in served:
            for f in o['anchors']['files']: anchors.add(f)
    unc = []
    tot = cov = 0
    for line in out.splitlines():
        parts = line.split()
        if len(parts) < 3 or not parts[0].startswith('github.com/icon-project/goloop/'): continue
        path = parts[0].split('github.com/icon-project/goloop/')[1].split(':')[0]
        if path not in anchors: continue
        tot += 1
        if parts[-1] == '0.0%': unc.append(f'{path}:{parts[0].split(":")[1]} {parts[1]}')
        else: cov += 1
    with open(f'{ROOT}/coverage/{eng}.uncovered.txt', 'w') as f:
        f.write(f'# engine {eng}: runs {" ".join(sys.argv[3:])}; functions of anchored files executed by at least one simulated run: {cov} of {tot}\n')
        for u in unc: f.write(u + '\n')
    print(f'{eng}: {cov}/{tot} functions of anchored files covered; report in coverage/{eng}.uncovered.txt')
    shutil.rmtree(d, ignore_errors=True)

main()
