#!/bin/bash
# usage: tools/sweep.sh <tier> <tag> [VERIF_SEED ...]   (run from /verif or from a `vp run` snapshot)
# (SWEEP_IDS="C05 C09" restricts the properties.) Runs every claimed check at <tier> once per seed, sequentially, without touching evidence/;
# logs and a summary go to runlogs/<tag>/ next to this script's parent directory.
cd "$(cd "$(dirname "$0")/.." && pwd)"
tier=${1:-quick}; tag=${2:-sweep}; shift; shift
seeds=("$@"); [ ${#seeds[@]} -eq 0 ] && seeds=(20260921)
out=runlogs/$tag; mkdir -p $out
ids=${SWEEP_IDS:-$(python3 -c "import json; print(' '.join(c['property_id'] for c in json.load(open('MANIFEST.json'))['checks']))")}
for seed in "${seeds[@]}"; do
  for p in $ids; do
    t0=$(date +%s)
    VERIF_SEED=$seed ./check.sh $p $tier -no-evidence ${SWEEP_FLAGS:-} > $out/$p-$seed.log 2>&1; rc=$?
    echo "$p seed=$seed exit=$rc wall=$(( $(date +%s) - t0 ))s known=$(grep -cE '^KNOWN-FINDING' $out/$p-$seed.log) viol=$(grep -cE '^VIOLATION' $out/$p-$seed.log); $(grep -E '^C[0-9]+ (quick|thorough):' $out/$p-$seed.log | cut -c1-90 | head -1)" | tee -a $out/summary.txt
  done
done
echo ALLDONE | tee -a $out/summary.txt
