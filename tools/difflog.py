#!/usr/bin/env python3
"""usage: tools/difflog.py <engine> <property> <profile> <run_index>[,<run_index>...] [repeats=3] [tier=quick]
Runs the given run indexes of a profile `repeats` times each, concurrently (load is what exposes
scheduling-dependent divergence), with full event logs, and prints the first differing event per index.
The engine binary must exist in bin/ (./check.sh builds it)."""
import json, os, subprocess, sys, tempfile, hashlib

ROOT = os.path.dirname(os.path.dirname(os.path.abspath(__file__)))
MASK = (1 << 64) - 1

def splitmix(x):
    x = (x + 0x9e3779b97f4a7c15) & MASK
    z = x
    z = ((z ^ (z >> 30)) * 0xbf58476d1ce4e5b9) & MASK
    z = ((z ^ (z >> 27)) * 0x94d049bb133111eb) & MASK
    return z ^ (z >> 31)

def main():
    eng, prop, profile, idxs = sys.argv[1:5]
    reps = int(sys.argv[5]) if len(sys.argv) > 5 else 3
    tier = sys.argv[6] if len(sys.argv) > 6 else 'quick'
    base = int(os.environ.get('VERIF_SEED', '20260921'))
    d = tempfile.mkdtemp(prefix='difflog-', dir='/dev/shm')
    procs = []
    for idx in [int(x) for x in idxs.split(',')]:
        # seed is recomputed by the worker from (base, salt, idx) only in batch mode; use a batch of one with Repeat
        for r in range(reps):
            job = {'mode': 'batch', 'property': prop, 'tier': tier, 'profile': profile, 'base_seed': base,
                   'start': idx, 'count': 1, 'stride': 1, 'repeat': 1, 'out': f'{d}/out-{idx}-{r}.jsonl'}
            jp = f'{d}/job-{idx}-{r}.json'
            json.dump(job, open(jp, 'w'))
            env = dict(os.environ, VERIF_JOB=jp, GOTRACEBACK='all', VERIF_KEEPFULL='1')
            if r == 1: env['GOGC'] = '25'
            p = subprocess.Popen([f'{ROOT}/bin/{eng}.test', '-test.run', '^TestWorker$', '-test.cpu', '1', '-test.timeout', '0', '-test.count', '1'],
                                 env=env, stdout=subprocess.DEVNULL, stderr=open(f'{d}/err-{idx}-{r}.txt', 'w'))
            procs.append((idx, r, p))
    for _, _, p in procs: p.wait()
    for idx in sorted({i for i, _, _ in procs}):
        logs = []
        for r in range(reps):
            res = None
            try:
                for line in open(f'{d}/out-{idx}-{r}.jsonl'):
                    o = json.loads(line)
                    if 'log_hash' in o or 'LogHash' in o or 'head' in o or 'Head' in o: res = o
            except FileNotFoundError:
                pass
            logs.append(res)
        hs = [ (l or {}).get('log_hash') or (l or {}).get('LogHash') for l in logs]
        print(f'idx {idx}: hashes {[ (h or "none")[:12] for h in hs]}')
        if len(set(hs)) > 1:
            heads = [ (l or {}).get('head') or (l or {}).get('Head') or [] for l in logs]
            a = heads[0]
            for r in range(1, reps):
                b = heads[r]
                for k in range(max(len(a), len(b))):
                    x = a[k] if k < len(a) else '<end>'
                    y = b[k] if k < len(b) else '<end>'
                    if x != y:
                        print(f'  first difference run0 vs run{r} at event {k} (of {len(a)}/{len(b)}):')
                        for j in range(max(0, k - 6), k): print('     ', a[j][:300])
                        print('   - ', x[:400]); print('   + ', y[:400])
                        break
    print('scratch:', d)

main()
