// Package stakesim drives the real icon/icsim simulator (real IISS extension,
// icstate, timers, reward calculator) with tape-drawn staking histories, validator
// downtime and double-sign reports, and recounts the books after every block.
package stakesim

import (
	"fmt"
	"math/big"
	"os"
	"sort"
	"strings"
	"testing"
	"time"

	"github.com/icon-project/goloop/common"
	"github.com/icon-project/goloop/common/log"
	"github.com/icon-project/goloop/icon/icmodule"
	"github.com/icon-project/goloop/icon/icsim"
	"github.com/icon-project/goloop/icon/iiss/icstate"
	"github.com/icon-project/goloop/module"
	"github.com/icon-project/goloop/service/state"

	"verif/sim/kit"
)

type engine struct{ t *testing.T }

func (engine) Name() string { return "stakesim" }

func TestWorker(t *testing.T) {
	log.GlobalLogger().SetLevel(log.FatalLevel)
	log.GlobalLogger().SetConsoleLevel(log.FatalLevel)
	if err := kit.WorkerMain(engine{t}); err != nil {
		t.Fatal(err)
	}
}

var (
	icx        = new(big.Int).Exp(big.NewInt(10), big.NewInt(18), nil)
	regFee     = new(big.Int).Mul(big.NewInt(2000), icx) // protocol: P-Rep registration burns 2000 ICX
	treasury   = common.MustNewAddressFromString("hx1000000000000000000000000000000000000000")
	governance = common.MustNewAddressFromString("cx0000000000000000000000000000000000000001")
	sysAddr    = state.SystemAddress
)

func toLoop(n int64) *big.Int { return new(big.Int).Mul(big.NewInt(n), icx) }
func key(a module.Address) string {
	return string(a.Bytes())
}

func mkAddr(prefix byte, i int) module.Address {
	bs := make([]byte, 20)
	bs[0] = prefix
	bs[19] = byte(i)
	return common.NewAccountAddress(bs)
}

// ---------------------------------------------------------------------------
// observation of the whole ledger through the simulator's public query API

type entry struct {
	amt    *big.Int
	expire int64
	to     string // unbonds: the P-Rep
}

type pair struct {
	to  string
	amt *big.Int
}

type accObs struct {
	balance   *big.Int
	stake     *big.Int
	unstakes  []entry
	delegs    []pair
	bonds     []pair
	unbonds   []entry
	sumDeleg  *big.Int // as reported by the account
	sumBond   *big.Int
	sumUnbond *big.Int
}

func (a *accObs) unstaking() *big.Int {
	s := new(big.Int)
	for _, e := range a.unstakes {
		s.Add(s, e.amt)
	}
	return s
}

func (a *accObs) wealth() *big.Int {
	w := new(big.Int).Add(a.balance, a.stake)
	return w.Add(w, a.unstaking())
}

type prepObs struct {
	active    bool
	status    string
	grade     string
	jail      int
	delegated *big.Int
	bonded    *big.Int
	bonders   map[string]bool
}

type obs struct {
	h          int64
	supply     *big.Int
	totalStake *big.Int
	totalDeleg *big.Int
	totalBond  *big.Int
	termSeq    int
	acc        map[string]*accObs
	prep       map[string]*prepObs
	validators []string
}

func bigOf(v interface{}) *big.Int {
	switch x := v.(type) {
	case *big.Int:
		return new(big.Int).Set(x)
	case int64:
		return big.NewInt(x)
	case int:
		return big.NewInt(int64(x))
	}
	return new(big.Int)
}

type sim struct {
	rc  *kit.RunCtx
	t   *kit.Tape
	s   icsim.Simulator
	cfg *icsim.SimConfig

	users  []module.Address // ordinary accounts (some may register as P-Reps later)
	preps  []module.Address // initially registered P-Reps
	known  []module.Address // every account that can hold ICX
	everPR map[string]module.Address
	everPO []module.Address // ordered
	down   map[string]bool  // validators currently not voting
	prev   *obs
	blocks int64

	lockMin, lockMax int64
	nameSeq          int
	failedBlock      bool
	sharedExpiry     map[string]map[int64]bool
	histStart        int64
}

func (m *sim) observe() *obs {
	s := m.s
	o := &obs{h: s.BlockHeight(), acc: map[string]*accObs{}, prep: map[string]*prepObs{}}
	o.supply = new(big.Int).Set(s.TotalSupply())
	o.totalStake = new(big.Int).Set(s.TotalStake())
	o.totalBond = new(big.Int).Set(s.TotalBond())
	o.totalDeleg = new(big.Int)
	if ni := s.GetNetworkInfoInJSON(); ni != nil {
		o.totalDeleg = bigOf(ni["totalDelegated"])
	}
	if ts := s.TermSnapshot(); ts != nil {
		o.termSeq = ts.Sequence()
	}
	for _, a := range m.known {
		ao := &accObs{balance: new(big.Int).Set(s.GetBalance(a)), stake: new(big.Int), sumDeleg: new(big.Int), sumBond: new(big.Int), sumUnbond: new(big.Int)}
		if ia := s.GetAccountSnapshot(a); ia != nil {
			ao.stake = new(big.Int).Set(ia.Stake())
			for _, u := range ia.UnStakes() {
				ao.unstakes = append(ao.unstakes, entry{amt: new(big.Int).Set(u.GetValue()), expire: u.GetExpire()})
			}
			for _, d := range ia.Delegations() {
				ao.delegs = append(ao.delegs, pair{key(d.To()), new(big.Int).Set(d.Amount())})
			}
			for _, b := range ia.Bonds() {
				ao.bonds = append(ao.bonds, pair{key(b.To()), new(big.Int).Set(b.Amount())})
			}
			for _, u := range ia.Unbonds() {
				ao.unbonds = append(ao.unbonds, entry{amt: new(big.Int).Set(u.Value()), expire: u.Expire(), to: key(u.Address())})
			}
			ao.sumDeleg = new(big.Int).Set(ia.Delegating())
			ao.sumBond = new(big.Int).Set(ia.Bond())
			ao.sumUnbond = new(big.Int).Set(ia.Unbond())
		}
		o.acc[key(a)] = ao
	}
	for _, p := range m.everPO {
		pr := s.GetPRepByOwner(p)
		if pr == nil {
			continue
		}
		po := &prepObs{active: pr.IsActive(), status: pr.Status().String(), grade: pr.Grade().String(), jail: pr.JailFlags(),
			delegated: new(big.Int).Set(pr.Delegated()), bonded: new(big.Int).Set(pr.Bonded()), bonders: map[string]bool{}}
		for _, b := range s.GetBonderList(p) {
			po.bonders[key(b)] = true
		}
		o.prep[key(p)] = po
	}
	for _, v := range s.ValidatorList() {
		o.validators = append(o.validators, key(v.Address()))
	}
	return o
}

// ---------------------------------------------------------------------------
// operations

type op struct {
	kind   string
	from   module.Address
	tx     icsim.Transaction
	desc   string
	expect int // 0 unknown, +1 must succeed, -1 must fail (only where the property itself decides)
	// model effects if the operation succeeds
	transferTo  module.Address
	transferAmt *big.Int
	newStake    *big.Int
	newDelegs   []pair
	newBonds    []pair
	overCommit  bool
	follow      *op // a second operation to place right after this one in the same block
}

func (m *sim) name(a module.Address) string {
	s := a.String()
	return s[:4] + ".." + s[len(s)-2:]
}

func (m *sim) drawAmount(label string, max *big.Int) *big.Int {
	t := m.t
	if max.Sign() <= 0 {
		return new(big.Int)
	}
	switch t.Weighted(label+".shape", 4, 3, 2, 1) {
	case 0: // a whole number of ICX, small
		v := toLoop(int64(1 + t.Choose(label+".icx", 50)))
		if v.Cmp(max) > 0 {
			return new(big.Int).Set(max)
		}
		return v
	case 1: // a fraction of max with ragged low digits
		v := new(big.Int).Mul(max, big.NewInt(int64(1+t.Choose(label+".permille", 999))))
		v.Div(v, big.NewInt(1000))
		v.Add(v, big.NewInt(int64(t.Choose(label+".dust", 1000))))
		if v.Cmp(max) > 0 {
			return new(big.Int).Set(max)
		}
		return v
	case 2:
		return new(big.Int).Set(max)
	default: // 1 loop
		return big.NewInt(1)
	}
}

func (m *sim) pickUser(label string) module.Address {
	return m.users[m.t.Choose(label, len(m.users))]
}

func (m *sim) activePReps() []module.Address {
	var out []module.Address
	for _, p := range m.everPO {
		if po := m.prev.prep[key(p)]; po != nil && po.active {
			out = append(out, p)
		}
	}
	return out
}

func (m *sim) inactiveTargets() []module.Address {
	var out []module.Address
	for _, p := range m.everPO {
		if po := m.prev.prep[key(p)]; po != nil && !po.active {
			out = append(out, p)
		}
	}
	// a plain account that never registered
	for _, u := range m.users {
		if m.prev.prep[key(u)] == nil {
			out = append(out, u)
			break
		}
	}
	return out
}

func sumPairs(ps []pair) *big.Int {
	s := new(big.Int)
	for _, p := range ps {
		s.Add(s, p.amt)
	}
	return s
}

func fmtPairs(m *sim, ps []pair) string {
	var sb []string
	for _, p := range ps {
		sb = append(sb, fmt.Sprintf("%s:%v", m.name(common.MustNewAddress([]byte(p.to))), p.amt))
	}
	return "[" + strings.Join(sb, " ") + "]"
}

func (m *sim) prepInfo(i int) *icstate.PRepInfo {
	name := fmt.Sprintf("node%d", i)
	city, country := "Seoul", "KOR"
	email := name + "@email.com"
	web := "https://" + name + ".example.com/"
	det := web + "details/"
	ep := name + ".example.com:9080"
	return &icstate.PRepInfo{City: &city, Country: &country, Name: &name, Email: &email, WebSite: &web, Details: &det, P2PEndpoint: &ep}
}

// genOp draws one operation against the state observed after the previous block.
func (m *sim) genOp() *op {
	t := m.t
	s := m.s
	switch t.Weighted("op", 24, 18, 14, 5, 12, 3, 3, 8, 3, 3, 1, 2) {
	case 0: // setStake
		a := m.pickUser("stake.who")
		ao := m.prev.acc[key(a)]
		using := new(big.Int).Add(ao.sumDeleg, ao.sumBond)
		using.Add(using, ao.sumUnbond)
		total := ao.wealth()
		var v *big.Int
		o := &op{kind: "setStake", from: a}
		switch t.Weighted("stake.variant", 5, 5, 2, 2, 2, 1) {
		case 0: // increase
			v = new(big.Int).Add(ao.stake, m.drawAmount("stake.inc", ao.balance))
		case 1: // decrease, staying above what is in use
			free := new(big.Int).Sub(ao.stake, using)
			v = new(big.Int).Sub(ao.stake, m.drawAmount("stake.dec", free))
			if t.Permille("stake.twice", 250) {
				// a second decrease in the same block: two unstake slots with the same lock period
				free2 := new(big.Int).Sub(v, using)
				if free2.Sign() > 0 {
					v2 := new(big.Int).Sub(v, m.drawAmount("stake.dec2", free2))
					o.follow = &op{kind: "setStake", from: a, newStake: v2, tx: s.SetStake(a, v2),
						desc: fmt.Sprintf("setStake %s %v (second decrease in this block)", m.name(a), v2)}
				}
			}
		case 2: // to zero
			v = new(big.Int)
		case 3: // more than the account owns
			v = new(big.Int).Add(total, m.drawAmount("stake.over", toLoop(100)))
			v.Add(v, big.NewInt(1))
			o.expect = -1
		case 4: // everything the account owns
			v = new(big.Int).Set(total)
		default: // below what is delegated/bonded
			if using.Sign() > 0 {
				v = new(big.Int).Sub(using, big.NewInt(1))
				o.expect = -1
			} else {
				v = new(big.Int).Set(ao.stake)
			}
		}
		o.newStake = v
		o.tx = s.SetStake(a, v)
		o.desc = fmt.Sprintf("setStake %s %v (stake=%v bal=%v using=%v)", m.name(a), v, ao.stake, ao.balance, using)
		return o
	case 1: // setDelegation
		a := m.pickUser("deleg.who")
		ao := m.prev.acc[key(a)]
		avail := new(big.Int).Sub(ao.stake, ao.sumBond)
		avail.Sub(avail, ao.sumUnbond)
		if avail.Sign() < 0 {
			avail.SetInt64(0)
		}
		act := m.activePReps()
		o := &op{kind: "setDelegation", from: a}
		var ps []pair
		variant := t.Weighted("deleg.variant", 8, 3, 2, 1, 1)
		switch variant {
		case 0, 1: // valid split / over-committing split
			n := 1 + t.Choose("deleg.n", 3)
			if n > len(act) {
				n = len(act)
			}
			perm := t.Perm("deleg.targets", len(act))
			rest := new(big.Int).Set(avail)
			for i := 0; i < n; i++ {
				x := m.drawAmount("deleg.amt", rest)
				if x.Sign() == 0 {
					continue
				}
				ps = append(ps, pair{key(act[perm[i]]), x})
				rest.Sub(rest, x)
			}
			if variant == 1 {
				extra := new(big.Int).Add(rest, m.drawAmount("deleg.over", toLoop(10)))
				extra.Add(extra, big.NewInt(1))
				if len(ps) == 0 && len(act) > 0 {
					ps = append(ps, pair{key(act[perm[0]]), extra})
				} else if len(ps) > 0 {
					ps[len(ps)-1].amt = new(big.Int).Add(ps[len(ps)-1].amt, extra)
				}
				o.overCommit = true
				o.expect = -1
			}
		case 2: // to something that is not an active P-Rep
			in := m.inactiveTargets()
			if len(in) > 0 {
				x := m.drawAmount("deleg.amt", avail)
				if x.Sign() > 0 {
					ps = append(ps, pair{key(in[t.Choose("deleg.inactive", len(in))]), x})
				}
			}
		case 3: // clear
		case 4: // duplicate target
			if len(act) > 0 && avail.Cmp(big.NewInt(2)) >= 0 {
				h := new(big.Int).Rsh(avail, 1)
				p := key(act[t.Choose("deleg.dup", len(act))])
				ps = append(ps, pair{p, h}, pair{p, big.NewInt(1)})
			}
		}
		// the list passes through the same parameter validation as the real setDelegation API
		// (icsim hands the list to the extension directly and would skip it)
		var params []interface{}
		for _, p := range ps {
			params = append(params, icstate.NewDelegation(common.MustNewAddress([]byte(p.to)), p.amt))
		}
		ds, err := icstate.NewDelegations(params, int(m.cfg.DelegationSlotMax))
		if err != nil {
			m.rc.Probe("api_rejected_list")
			m.rc.Event("setDelegation %s %s rejected by parameter validation", m.name(a), fmtPairs(m, ps))
			return nil
		}
		o.newDelegs = ps
		o.tx = s.SetDelegation(a, ds)
		o.desc = fmt.Sprintf("setDelegation %s %s (avail=%v)", m.name(a), fmtPairs(m, ps), avail)
		return o
	case 2: // setBond
		a := m.pickUser("bond.who")
		ao := m.prev.acc[key(a)]
		avail := new(big.Int).Sub(ao.stake, ao.sumDeleg)
		avail.Sub(avail, ao.sumUnbond)
		if avail.Sign() < 0 {
			avail.SetInt64(0)
		}
		var allowed, notAllowed []module.Address
		for _, p := range m.activePReps() {
			if m.prev.prep[key(p)].bonders[key(a)] {
				allowed = append(allowed, p)
			} else {
				notAllowed = append(notAllowed, p)
			}
		}
		o := &op{kind: "setBond", from: a}
		var ps []pair
		variant := t.Weighted("bond.variant", 8, 3, 2, 2, 1)
		switch variant {
		case 0, 1:
			n := 1 + t.Choose("bond.n", 2)
			if n > len(allowed) {
				n = len(allowed)
			}
			perm := t.Perm("bond.targets", len(allowed))
			rest := new(big.Int).Set(avail)
			for i := 0; i < n; i++ {
				x := m.drawAmount("bond.amt", rest)
				if x.Sign() == 0 {
					continue
				}
				ps = append(ps, pair{key(allowed[perm[i]]), x})
				rest.Sub(rest, x)
			}
			if variant == 1 && len(allowed) > 0 {
				// bonds alone exceed stake - delegated (pending unbonds are left out on purpose:
				// re-bonding to the same P-Rep may reuse them)
				extra := new(big.Int).Add(rest, ao.sumUnbond)
				extra.Add(extra, m.drawAmount("bond.over", toLoop(10)))
				extra.Add(extra, big.NewInt(1))
				if len(ps) == 0 {
					ps = append(ps, pair{key(allowed[perm[0]]), extra})
				} else {
					ps[len(ps)-1].amt = new(big.Int).Add(ps[len(ps)-1].amt, extra)
				}
				o.overCommit = true
				o.expect = -1
			}
		case 2: // a P-Rep that does not list this account as bonder
			if len(notAllowed) > 0 {
				x := m.drawAmount("bond.amt", avail)
				if x.Sign() > 0 {
					ps = append(ps, pair{key(notAllowed[t.Choose("bond.na", len(notAllowed))]), x})
				}
			}
		case 3: // clear (turns bonds into unbonds)
		case 4: // inactive target
			in := m.inactiveTargets()
			if len(in) > 0 {
				x := m.drawAmount("bond.amt", avail)
				if x.Sign() > 0 {
					ps = append(ps, pair{key(in[t.Choose("bond.inactive", len(in))]), x})
				}
			}
		}
		var params []interface{}
		for _, p := range ps {
			params = append(params, icstate.NewBond(common.MustNewAddress([]byte(p.to)), p.amt))
		}
		bs, err := icstate.NewBonds(params, m.s.Revision().Value())
		if err != nil {
			m.rc.Probe("api_rejected_list")
			m.rc.Event("setBond %s %s rejected by parameter validation", m.name(a), fmtPairs(m, ps))
			return nil
		}
		o.newBonds = ps
		o.tx = s.SetBond(a, bs)
		o.desc = fmt.Sprintf("setBond %s %s (avail=%v)", m.name(a), fmtPairs(m, ps), avail)
		return o
	case 3: // setBonderList
		act := m.activePReps()
		if len(act) == 0 {
			return nil
		}
		p := act[t.Choose("bl.who", len(act))]
		n := t.Choose("bl.n", 4)
		perm := t.Perm("bl.users", len(m.users))
		var bl icstate.BonderList
		var names []string
		for i := 0; i < n && i < len(perm); i++ {
			bl = append(bl, common.AddressToPtr(m.users[perm[i]]))
			names = append(names, m.name(m.users[perm[i]]))
		}
		return &op{kind: "setBonderList", from: p, tx: s.SetBonderList(p, bl), desc: fmt.Sprintf("setBonderList %s %v", m.name(p), names)}
	case 4: // transfer
		a := m.pickUser("tr.from")
		b := m.known[t.Choose("tr.to", len(m.users))] // users and initial P-Reps
		ao := m.prev.acc[key(a)]
		var v *big.Int
		o := &op{kind: "transfer", from: a, transferTo: b}
		if t.Permille("tr.over", 120) {
			v = new(big.Int).Add(ao.balance, big.NewInt(int64(1+t.Choose("tr.overby", 1000))))
			if !a.Equal(b) { // the simulator treats a self-transfer as a no-op
				o.expect = -1
			}
		} else {
			v = m.drawAmount("tr.amt", ao.balance)
		}
		o.transferAmt = v
		o.tx = s.Transfer(a, b, v)
		o.desc = fmt.Sprintf("transfer %s -> %s %v (bal=%v)", m.name(a), m.name(b), v, ao.balance)
		return o
	case 5: // registerPRep
		a := m.pickUser("reg.who")
		m.nameSeq++
		return &op{kind: "registerPRep", from: a, tx: s.RegisterPRep(a, m.prepInfo(100+m.nameSeq)), desc: fmt.Sprintf("registerPRep %s (bal=%v)", m.name(a), m.prev.acc[key(a)].balance)}
	case 6: // unregisterPRep
		var a module.Address
		if len(m.everPO) > 0 && !t.Permille("unreg.nonprep", 150) {
			a = m.everPO[t.Choose("unreg.who", len(m.everPO))]
		} else {
			a = m.pickUser("unreg.user")
		}
		return &op{kind: "unregisterPRep", from: a, tx: s.UnregisterPRep(a), desc: fmt.Sprintf("unregisterPRep %s", m.name(a))}
	case 7: // claimIScore
		a := m.known[t.Choose("claim.who", len(m.users))]
		return &op{kind: "claimIScore", from: a, tx: s.ClaimIScore(a), desc: fmt.Sprintf("claimIScore %s (iscore=%v)", m.name(a), s.QueryIScore(a))}
	case 8: // commission rates
		act := m.activePReps()
		if len(act) == 0 {
			return nil
		}
		p := act[t.Choose("cr.who", len(act))]
		if t.Permille("cr.init", 500) {
			r := icmodule.Rate(t.Choose("cr.rate", 3000))
			return &op{kind: "initCommissionRate", from: p, tx: s.InitCommissionRate(p, r, icmodule.Rate(5000), icmodule.Rate(1000)), desc: fmt.Sprintf("initCommissionRate %s %d", m.name(p), r)}
		}
		r := icmodule.Rate(t.Choose("cr.set", 6000))
		return &op{kind: "setCommissionRate", from: p, tx: s.SetCommissionRate(p, r), desc: fmt.Sprintf("setCommissionRate %s %d", m.name(p), r)}
	case 9: // requestUnjail by a jailed P-Rep (or by anyone)
		var cand []module.Address
		for _, p := range m.everPO {
			if po := m.prev.prep[key(p)]; po != nil && po.jail != 0 {
				cand = append(cand, p)
			}
		}
		if len(cand) == 0 {
			cand = m.everPO
		}
		if len(cand) == 0 {
			return nil
		}
		p := cand[t.Choose("unjail.who", len(cand))]
		return &op{kind: "requestUnjail", from: p, tx: icsim.NewTransaction(icsim.TypeRequestUnjail, p), desc: fmt.Sprintf("requestUnjail %s", m.name(p))}
	case 10: // governance disqualifies a P-Rep
		act := m.activePReps()
		if len(act) <= int(m.cfg.MainPRepCount)+1 {
			return nil
		}
		p := act[t.Choose("disq.who", len(act))]
		return &op{kind: "disqualifyPRep", from: governance, tx: s.DisqualifyPRep(governance, p), desc: fmt.Sprintf("disqualifyPRep %s", m.name(p))}
	case 11: // double-sign report against a validator
		vl := s.ValidatorList()
		if len(vl) == 0 || m.prev.h < 20 {
			return nil
		}
		v := vl[t.Choose("dsr.who", len(vl))].Address()
		typ := []string{module.DSTVote, module.DSTProposal}[t.Choose("dsr.type", 2)]
		bh := m.prev.h - int64(1+t.Choose("dsr.age", 15))
		return &op{kind: "doubleSignReport", from: sysAddr, tx: s.HandleDoubleSignReport(sysAddr, typ, bh, v), desc: fmt.Sprintf("doubleSignReport %s %s@%d", m.name(v), typ, bh)}
	}
	return nil
}

// ---------------------------------------------------------------------------
// one block: execute, observe, recount

type slashEv struct {
	owner, bonder string
	amt           *big.Int
}

func (m *sim) csi() module.ConsensusInfo {
	vl := m.s.ValidatorList()
	if len(vl) == 0 {
		return nil
	}
	voted := make([]bool, len(vl))
	for i, v := range vl {
		voted[i] = !m.down[key(v.Address())]
	}
	return icsim.NewConsensusInfo(m.s.Database(), vl, voted)
}

func (m *sim) step(ops []*op, where string) bool {
	rc := m.rc
	blk := icsim.NewBlock()
	for _, o := range ops {
		blk.AddTransaction(o.tx)
	}
	prev := m.prev
	if debugUnbonds {
		for _, o := range ops {
			rc.Event("   dbg submit h=%d %s", prev.h+1, o.desc)
		}
	}
	rcpts, err := m.s.GoByBlock(m.csi(), blk)
	if err != nil {
		m.blockFailed(prev.h+1, err)
		return false
	}
	m.blocks++
	rc.Steps++
	now := m.observe()
	h := now.h
	if h != prev.h+1 {
		rc.Violate("block-failed", "height", "height %d after block %d", h, prev.h)
		return false
	}

	// --- what the successful operations and the receipts' burn/slash/claim events say
	flow := map[string]*big.Int{} // expected change of balance+stake+unstaking per account
	add := func(k string, v *big.Int) {
		if flow[k] == nil {
			flow[k] = new(big.Int)
		}
		flow[k].Add(flow[k], v)
	}
	burned := new(big.Int)
	stateTouched := map[string]bool{} // accounts whose staking record may legitimately differ
	stakeSet := map[string]*big.Int{}
	stakeRun := map[string]*big.Int{}
	stakeDecs := map[string]int{}
	stakeChangeAfterTwoDecs := map[string]bool{}
	delegSet := map[string][]pair{}
	bondSet := map[string][]pair{}
	slashed := map[string]bool{}
	var slashes []slashEv
	scan := func(r icsim.Receipt, claimFrom module.Address) {
		for _, e := range r.Events() {
			sig, idx, data, err := e.DecodeParams()
			if err != nil {
				continue
			}
			switch sig {
			case "Slashed(Address,Address,int)":
				owner := idx[0].(module.Address)
				bonder := data[0].(module.Address)
				amt := data[1].(*big.Int)
				slashes = append(slashes, slashEv{key(owner), key(bonder), new(big.Int).Set(amt)})
				add(key(bonder), new(big.Int).Neg(amt))
				burned.Add(burned, amt)
				stateTouched[key(bonder)] = true
				slashed[key(bonder)] = true
				if amt.Sign() > 0 {
					rc.Probe("slash_applied")
					rc.Fault("slash")
				}
			case "IScoreClaimedV2(Address,int,int)":
				if claimFrom != nil {
					x := data[1].(*big.Int)
					add(key(claimFrom), x)
					add(key(treasury), new(big.Int).Neg(x))
					if x.Sign() > 0 {
						rc.Probe("iscore_claimed")
					}
				}
			case "PenaltyImposed(Address,int,int)":
				rc.Probe("penalty_imposed")
			}
		}
	}
	// slashing anywhere in this block changes what later operations of the slashed account see
	for _, r := range rcpts {
		for _, e := range r.Events() {
			if sig, _, data, err := e.DecodeParams(); err == nil && sig == "Slashed(Address,Address,int)" {
				slashed[key(data[0].(module.Address))] = true
			}
		}
	}
	scan(rcpts[0], nil)
	for i, o := range ops {
		if slashed[key(o.from)] {
			o.expect = 0
		}
		r := rcpts[i+1]
		okk := r.Status() == icsim.Success
		res := "ok"
		if !okk {
			res = "FAIL"
		}
		rc.Event("h=%d %s -> %s", h, o.desc, res)
		rc.Metric("op:"+o.kind, 1)
		if !okk {
			rc.Metric("op_failed:"+o.kind, 1)
			if o.overCommit {
				rc.Probe("over_delegation_rejected")
			}
			if o.expect > 0 {
				rc.Violate("valid-operation-rejected", o.kind, "%s failed: %v", o.desc, r.Error())
				return false
			}
			continue
		}
		if o.expect < 0 {
			rc.Violate("invalid-operation-accepted", o.kind, "%s succeeded", o.desc)
			return false
		}
		fk := key(o.from)
		switch o.kind {
		case "transfer":
			if !o.from.Equal(o.transferTo) {
				add(fk, new(big.Int).Neg(o.transferAmt))
				add(key(o.transferTo), o.transferAmt)
			}
		case "setStake":
			stateTouched[fk] = true
			// successful stake changes of one account within this block, in order (for the overdue signature)
			cur := stakeRun[fk]
			if cur == nil {
				cur = new(big.Int).Set(m.prev.acc[fk].stake)
			}
			if o.newStake.Cmp(cur) < 0 {
				stakeDecs[fk]++
			} else if stakeDecs[fk] >= 2 {
				stakeChangeAfterTwoDecs[fk] = true
			}
			if stakeDecs[fk] >= 3 {
				stakeChangeAfterTwoDecs[fk] = true
			}
			stakeRun[fk] = o.newStake
			stakeSet[fk] = o.newStake
		case "setDelegation":
			stateTouched[fk] = true
			delegSet[fk] = o.newDelegs
		case "setBond":
			stateTouched[fk] = true
			bondSet[fk] = o.newBonds
		case "registerPRep":
			add(fk, new(big.Int).Neg(regFee))
			burned.Add(burned, regFee)
			if m.everPR[fk] == nil {
				m.everPR[fk] = o.from
				m.everPO = append(m.everPO, o.from)
			}
			rc.Probe("prep_registered")
		case "unregisterPRep":
			rc.Probe("prep_unregistered")
		case "claimIScore":
			scan(r, o.from)
		case "disqualifyPRep":
			rc.Probe("prep_disqualified")
			rc.Fault("disqualify")
		case "doubleSignReport":
			rc.Fault("double_sign_report")
		}
		if o.kind != "claimIScore" {
			scan(r, nil)
		}
	}
	if len(m.everPO) != len(now.prep) {
		// a registration in this block: observe again so that the new P-Rep is included
		now = m.observe()
	}
	if now.termSeq != prev.termSeq {
		rc.Probe("term_changed")
		rc.Metric("terms", 1)
	}
	rc.Event("h=%d supply=%v stake=%v deleg=%v bond=%v term=%d validators=%d", h, now.supply, now.totalStake, now.totalDeleg, now.totalBond, now.termSeq, len(now.validators))

	// --- (A) conservation: total supply == sum of balances + stakes + unstaking, and moved only by burns
	sum := new(big.Int)
	sumStake := new(big.Int)
	for _, a := range m.known {
		ao := now.acc[key(a)]
		if ao.balance.Sign() < 0 || ao.stake.Sign() < 0 {
			rc.Violate("negative-amount", "account", "account %s: balance %v stake %v", m.name(a), ao.balance, ao.stake)
			return false
		}
		sum.Add(sum, ao.wealth())
		sumStake.Add(sumStake, ao.stake)
	}
	if sum.Cmp(now.supply) != 0 {
		rc.Violate("supply-mismatch", where, "h=%d TotalSupply=%v but balances+stakes+unstaking of all accounts=%v (diff %v)", h, now.supply, sum, new(big.Int).Sub(now.supply, sum))
		return false
	}
	if want := new(big.Int).Sub(prev.supply, burned); want.Cmp(now.supply) != 0 {
		rc.Violate("supply-mismatch", "burn", "h=%d TotalSupply %v -> %v but burns in this block sum to %v", h, prev.supply, now.supply, burned)
		return false
	}
	// --- (B) TotalStake == sum of stakes
	if sumStake.Cmp(now.totalStake) != 0 {
		rc.Violate("total-stake-mismatch", where, "h=%d TotalStake=%v, sum of account stakes=%v", h, now.totalStake, sumStake)
		return false
	}
	// --- (C) per account: delegated + bonded + unbonding <= stake, and the account's own sums are right
	delegTo := map[string]*big.Int{}
	bondTo := map[string]*big.Int{}
	for _, a := range m.known {
		ao := now.acc[key(a)]
		d, b, u := sumPairs(ao.delegs), sumPairs(ao.bonds), new(big.Int)
		for _, e := range ao.unbonds {
			u.Add(u, e.amt)
		}
		if d.Cmp(ao.sumDeleg) != 0 || b.Cmp(ao.sumBond) != 0 || u.Cmp(ao.sumUnbond) != 0 {
			rc.Violate("account-sums-mismatch", where, "h=%d account %s reports delegated=%v bonded=%v unbonding=%v but its entries sum to %v/%v/%v", h, m.name(a), ao.sumDeleg, ao.sumBond, ao.sumUnbond, d, b, u)
			return false
		}
		used := new(big.Int).Add(d, b)
		used.Add(used, u)
		if used.Cmp(ao.stake) > 0 {
			rc.Violate("over-committed-stake", where, "h=%d account %s: delegated %v + bonded %v + unbonding %v > stake %v", h, m.name(a), d, b, u, ao.stake)
			return false
		}
		for _, p := range ao.delegs {
			if delegTo[p.to] == nil {
				delegTo[p.to] = new(big.Int)
			}
			delegTo[p.to].Add(delegTo[p.to], p.amt)
		}
		for _, p := range ao.bonds {
			if bondTo[p.to] == nil {
				bondTo[p.to] = new(big.Int)
			}
			bondTo[p.to].Add(bondTo[p.to], p.amt)
		}
	}
	// --- (D) per P-Rep and network totals == recount over accounts
	actDeleg, actBond := new(big.Int), new(big.Int)
	z := new(big.Int)
	for _, p := range m.everPO {
		po := now.prep[key(p)]
		if po == nil {
			continue
		}
		d, b := delegTo[key(p)], bondTo[key(p)]
		if d == nil {
			d = z
		}
		if b == nil {
			b = z
		}
		if d.Cmp(po.delegated) != 0 {
			rc.Violate("prep-delegated-mismatch", where, "h=%d P-Rep %s (%s) delegated=%v, accounts delegate %v to it", h, m.name(p), po.status, po.delegated, d)
			return false
		}
		if b.Cmp(po.bonded) != 0 {
			rc.Violate("prep-bonded-mismatch", where, "h=%d P-Rep %s (%s) bonded=%v, accounts bond %v to it", h, m.name(p), po.status, po.bonded, b)
			return false
		}
		if po.active {
			actDeleg.Add(actDeleg, d)
			actBond.Add(actBond, b)
		}
	}
	if actDeleg.Cmp(now.totalDeleg) != 0 {
		rc.Violate("total-delegation-mismatch", where, "h=%d network totalDelegated=%v, accounts delegate %v to active P-Reps", h, now.totalDeleg, actDeleg)
		return false
	}
	if actBond.Cmp(now.totalBond) != 0 {
		rc.Violate("total-bond-mismatch", where, "h=%d network TotalBond=%v, accounts bond %v to active P-Reps", h, now.totalBond, actBond)
		return false
	}
	// --- (D') the network's stored delegation total is only published through the term record
	//          written at every term change: it must equal the same recount (and the supply)
	if now.termSeq != prev.termSeq {
		if tj := m.s.GetPRepTermInJSON(); tj != nil {
			if td := bigOf(tj["totalDelegated"]); td.Cmp(actDeleg) != 0 {
				rc.Violate("total-delegation-mismatch", "term-record", "h=%d new term records totalDelegated=%v, accounts delegate %v to active P-Reps", h, td, actDeleg)
				return false
			}
			if tsup := bigOf(tj["totalSupply"]); tsup.Cmp(now.supply) != 0 {
				rc.Violate("supply-mismatch", "term-record", "h=%d new term records totalSupply=%v, TotalSupply=%v", h, tsup, now.supply)
				return false
			}
		}
	}
	// --- (E) per account: wealth moves only by explained flows; unstakes/unbonds leave the
	//         queue exactly at their promised block; untouched accounts are unchanged
	for _, a := range m.known {
		k := key(a)
		po, no := prev.acc[k], now.acc[k]
		want := new(big.Int).Set(po.wealth())
		if f := flow[k]; f != nil {
			want.Add(want, f)
		}
		if want.Cmp(no.wealth()) != 0 {
			rc.Violate("unexplained-balance-change", where, "h=%d account %s: balance+stake+unstaking %v -> %v, explained flows give %v", h, m.name(a), po.wealth(), no.wealth(), want)
			return false
		}
		expired := new(big.Int)
		var keep []entry
		for _, e := range po.unstakes {
			if e.expire == h {
				expired.Add(expired, e.amt)
				rc.Probe("unstake_expired")
			} else {
				keep = append(keep, e)
			}
		}
		_, stakeChanged := stakeSet[k]
		// shape bookkeeping for the overdue signature: two slots of one account due at the same
		// height, and a later stake change that merged/cancelled one of them while the other stayed
		cntPrev, cntNow := map[int64]int{}, map[int64]int{}
		for _, e := range po.unstakes {
			cntPrev[e.expire]++
		}
		for _, e := range no.unstakes {
			cntNow[e.expire]++
			if cntNow[e.expire] == 2 && cntPrev[e.expire] < 2 {
				rc.Probe("two_unstake_slots_same_expiry")
			}
		}
		if stakeChanged && stakeChangeAfterTwoDecs[k] {
			// the same shape inside ONE block: two decreases (two slots, both due at the same height: the lock
			// period is a function of the block) followed by another stake change that merged or cancelled
			// one of them. Block-granular observation never sees the two slots side by side.
			was := map[string]bool{}
			for _, e := range po.unstakes {
				was[fmt.Sprintf("%v@%d", e.amt, e.expire)] = true
			}
			for _, e := range no.unstakes {
				if !was[fmt.Sprintf("%v@%d", e.amt, e.expire)] {
					if m.sharedExpiry[k] == nil {
						m.sharedExpiry[k] = map[int64]bool{}
					}
					if !m.sharedExpiry[k][e.expire] {
						m.sharedExpiry[k][e.expire] = true
						rc.Probe("shared_expiry_slot_changed_within_block")
					}
				}
			}
		}
		if stakeChanged {
			for _, e := range po.unstakes {
				if cntPrev[e.expire] >= 2 && cntNow[e.expire] >= 1 && cntNow[e.expire] < cntPrev[e.expire] {
					if m.sharedExpiry[k] == nil {
						m.sharedExpiry[k] = map[int64]bool{}
					}
					if !m.sharedExpiry[k][e.expire] {
						m.sharedExpiry[k][e.expire] = true
						rc.Probe("shared_expiry_slot_changed")
					}
				}
			}
		}
		for _, e := range no.unstakes {
			if e.expire <= h {
				sig := "other"
				if m.sharedExpiry[k][e.expire] {
					// known shape: the slot that shared this expiry height was merged into a later one or
					// cancelled by a stake change, and the height's timer entry went with it
					sig = "shared-expiry-slot-timer-removed"
				}
				rc.Violate("unstake-overdue", sig, "h=%d account %s still holds an unstake of %v that was due at %d", h, m.name(a), e.amt, e.expire)
				return false
			}
		}
		if !stakeChanged {
			if !sameEntries(keep, no.unstakes) {
				rc.Violate("unstake-queue-changed", where, "h=%d account %s did not change its stake but its unstakes went %s -> %s", h, m.name(a), fmtEntries(po.unstakes), fmtEntries(no.unstakes))
				return false
			}
			if !slashed[k] && po.stake.Cmp(no.stake) != 0 {
				rc.Violate("stake-changed", where, "h=%d account %s did not change its stake but it went %v -> %v", h, m.name(a), po.stake, no.stake)
				return false
			}
			// exactly once, at this block: balance grows by precisely the expired amount (plus transfers/claims/fees)
			wantBal := new(big.Int).Add(po.balance, expired)
			if f := flow[k]; f != nil && !slashed[k] {
				wantBal.Add(wantBal, f)
			}
			if !slashed[k] && wantBal.Cmp(no.balance) != 0 {
				rc.Violate("unstake-return", where, "h=%d account %s: balance %v -> %v, expected %v (unstakes due now: %v)", h, m.name(a), po.balance, no.balance, wantBal, expired)
				return false
			}
		} else {
			if !slashed[k] && no.stake.Cmp(stakeSet[k]) != 0 {
				rc.Violate("stake-not-set", where, "h=%d account %s set stake %v but holds %v", h, m.name(a), stakeSet[k], no.stake)
				return false
			}
			for _, e := range no.unstakes {
				isOld := false
				for _, o := range po.unstakes {
					if o.expire == e.expire {
						isOld = true
					}
				}
				if !isOld && (e.expire < h+m.lockMin || e.expire > h+m.lockMax) {
					rc.Violate("unstake-lock-period", where, "h=%d account %s: new unstake due at %d, outside [%d,%d] blocks from now", h, m.name(a), e.expire, m.lockMin, m.lockMax)
					return false
				}
			}
		}
		// unbonds: C34 bounds delegated+bonded+unbonding by the stake but does not speak about WHEN an
		// unbond expires, so an unbond outliving its expiry height is counted, not reported
		var keepU, nowU []entry
		for _, e := range po.unbonds {
			if e.expire > h {
				keepU = append(keepU, e)
			} else if e.expire == h {
				rc.Probe("unbond_expired")
			}
		}
		for _, e := range no.unbonds {
			if e.expire > h {
				nowU = append(nowU, e)
			} else {
				rc.Probe("unbond_overdue_observed")
			}
		}
		if !stateTouched[k] {
			if !sameEntries(keepU, nowU) || !samePairs(po.delegs, no.delegs) || !samePairs(po.bonds, no.bonds) {
				rc.Violate("record-changed-without-operation", where, "h=%d account %s had no successful staking operation but its delegations/bonds/unbonds changed: %s %s %s -> %s %s %s", h, m.name(a),
					fmtPairs(m, po.delegs), fmtPairs(m, po.bonds), fmtEntries(po.unbonds), fmtPairs(m, no.delegs), fmtPairs(m, no.bonds), fmtEntries(no.unbonds))
				return false
			}
		} else if !slashed[k] {
			if ds, ok := delegSet[k]; ok && !samePairsSet(ds, no.delegs) {
				rc.Violate("delegation-not-set", where, "h=%d account %s set delegations %s but holds %s", h, m.name(a), fmtPairs(m, ds), fmtPairs(m, no.delegs))
				return false
			}
			if bs, ok := bondSet[k]; ok && !samePairsSet(bs, no.bonds) {
				rc.Violate("bond-not-set", where, "h=%d account %s set bonds %s but holds %s", h, m.name(a), fmtPairs(m, bs), fmtPairs(m, no.bonds))
				return false
			}
		}
	}
	if debugUnbonds {
		for _, a := range m.known {
			po, no := prev.acc[key(a)], now.acc[key(a)]
			if !sameEntries(po.unstakes, no.unstakes) {
				rc.Event("   dbg %s stake %v -> %v unstakes %s -> %s", m.name(a), po.stake, no.stake, fmtEntries(po.unstakes), fmtEntries(no.unstakes))
			}
			if !sameEntries(po.unbonds, no.unbonds) || !samePairs(po.bonds, no.bonds) {
				rc.Event("   dbg %s bonds %s -> %s unbonds %s -> %s", m.name(a), fmtPairs(m, po.bonds), fmtPairs(m, no.bonds), fmtEntries(po.unbonds), fmtEntries(no.unbonds))
			}
		}
	}
	m.prev = now
	return true
}

var debugUnbonds bool

// blockFailed: the simulator could not execute a block. C34 lists conservation and consistency
// invariants and says nothing about a block failing, so this is NOT a violation: the run ends
// here (every block up to the previous one was fully recounted) and the cause is counted.
func (m *sim) blockFailed(h int64, err error) {
	sig := errSignature(err)
	probe := "block_failed_other"
	switch {
	case strings.Contains(sig, "Unbond timer not found"):
		probe = "block_failed_unbond_timer_not_found"
	case strings.Contains(sig, "Non PRep set the commission rate"):
		probe = "block_failed_non_prep_commission_rate"
	}
	m.rc.Probe(probe)
	if os.Getenv("STAKESIM_BLOCK_FAILED_IS_VIOLATION") != "" {
		// developer knob: lets the runner minimise and store a replay for the observation
		m.rc.Violate("block-failed", sig, "block %d could not be executed: %+v", h, err)
		return
	}
	m.rc.Event("h=%d BLOCK FAILED (observation, outside C34): %s", h, sig)
	m.rc.Config["block_failed"] = fmt.Sprintf("h=%d %s", h, sig)
	m.failedBlock = true
}

// errSignature: first line of the error with numbers and addresses blanked (stable across seeds).
func errSignature(err error) string {
	l := strings.SplitN(err.Error(), "\n", 2)[0]
	// goloop errors print their cause chain with %+v as "Wrapping <cause>" lines: add the innermost cause
	for _, ln := range strings.Split(fmt.Sprintf("%+v", err), "\n") {
		if strings.HasPrefix(ln, "Wrapping ") {
			l = strings.SplitN(err.Error(), "\n", 2)[0] + " <- " + strings.TrimPrefix(ln, "Wrapping ")
		}
	}
	var sb strings.Builder
	for _, w := range strings.Fields(l) {
		if strings.HasPrefix(w, "hx") || strings.HasPrefix(w, "cx") {
			w = "ADDR"
		}
		for _, c := range w {
			if c >= '0' && c <= '9' {
				c = '#'
			}
			sb.WriteRune(c)
		}
		sb.WriteByte(' ')
	}
	s := strings.TrimSpace(sb.String())
	for strings.Contains(s, "##") {
		s = strings.ReplaceAll(s, "##", "#")
	}
	if len(s) > 120 {
		s = s[:120]
	}
	return s
}

func sameEntries(a, b []entry) bool {
	if len(a) != len(b) {
		return false
	}
	for i := range a {
		if a[i].expire != b[i].expire || a[i].amt.Cmp(b[i].amt) != 0 || a[i].to != b[i].to {
			return false
		}
	}
	return true
}

func samePairs(a, b []pair) bool {
	if len(a) != len(b) {
		return false
	}
	for i := range a {
		if a[i].to != b[i].to || a[i].amt.Cmp(b[i].amt) != 0 {
			return false
		}
	}
	return true
}

// samePairsSet compares as multisets keyed by target (zero amounts dropped).
func samePairsSet(a, b []pair) bool {
	norm := func(ps []pair) []pair {
		var out []pair
		for _, p := range ps {
			if p.amt.Sign() != 0 {
				out = append(out, p)
			}
		}
		sort.Slice(out, func(i, j int) bool { return out[i].to < out[j].to })
		return out
	}
	return samePairs(norm(a), norm(b))
}

func fmtEntries(es []entry) string {
	var sb []string
	for _, e := range es {
		sb = append(sb, fmt.Sprintf("%v@%d", e.amt, e.expire))
	}
	return "[" + strings.Join(sb, " ") + "]"
}

// ---------------------------------------------------------------------------

func (e engine) Run(rc *kit.RunCtx) {
	t := rc.Tape
	m := &sim{rc: rc, t: t, everPR: map[string]module.Address{}, down: map[string]bool{}, sharedExpiry: map[string]map[int64]bool{}}
	cfg := icsim.NewSimConfig()
	cfg.TermPeriod = int64(10 + t.Choose("cfg.term", 21))
	cfg.MainPRepCount = int64(3 + t.Choose("cfg.main", 2))
	nPreps := 4 + t.Choose("cfg.preps", 5)
	if int64(nPreps) < cfg.MainPRepCount+1 {
		nPreps = int(cfg.MainPRepCount) + 1
	}
	cfg.ExtraMainPRepCount = int64(t.Choose("cfg.extra", 2))
	cfg.SubPRepCount = int64(nPreps) - cfg.MainPRepCount
	cfg.LockMinMultiplier = 1
	cfg.LockMaxMultiplier = int64(2 + t.Choose("cfg.lockmax", 2))
	cfg.UnbondingPeriodMultiplier = int64(1 + t.Choose("cfg.unbond", 2))
	cfg.UnstakeSlotMax = int64(2 + t.Choose("cfg.slots", 3))
	cfg.UnbondingMax = int64(2 + t.Choose("cfg.unbondmax", 4))
	cfg.DelegationSlotMax = int64(3 + t.Choose("cfg.dslots", 3))
	cfg.ValidationPenaltyCondition = int64(2 + t.Choose("cfg.vpc", 3))
	cfg.ConsistentValidationPenaltyCondition = int64(1 + t.Choose("cfg.cvpc", 2))
	m.cfg = cfg
	m.lockMin = cfg.TermPeriod * cfg.LockMinMultiplier
	m.lockMax = cfg.TermPeriod * cfg.LockMaxMultiplier
	nUsers := 6 + t.Choose("cfg.users", 5)
	nTerms := 3 + t.Choose("cfg.terms", 4)
	rc.Config["term_period"] = cfg.TermPeriod
	rc.Config["preps"] = nPreps
	rc.Config["main_preps"] = cfg.MainPRepCount
	rc.Config["users"] = nUsers
	rc.Config["terms"] = nTerms
	rc.Config["unstake_slots"] = cfg.UnstakeSlotMax
	rc.Config["lock_blocks"] = fmt.Sprintf("%d..%d", m.lockMin, m.lockMax)

	balances := map[string]*big.Int{}
	for i := 0; i < nPreps; i++ {
		p := mkAddr(0xa0, i)
		m.preps = append(m.preps, p)
		balances[key(p)] = toLoop(int64(3000 + t.Choose("bal.prep", 5000)))
	}
	for i := 0; i < nUsers; i++ {
		u := mkAddr(0xb0, i)
		m.users = append(m.users, u)
		b := toLoop(int64(2500 + t.Choose("bal.user", 20000)))
		b.Add(b, big.NewInt(int64(t.Choose("bal.dust", 1000000))))
		balances[key(u)] = b
	}
	balances[key(treasury)] = toLoop(1000)
	var vals []module.Validator
	for i := 0; i < int(cfg.MainPRepCount); i++ {
		v, _ := state.ValidatorFromAddress(mkAddr(0xc0, i))
		vals = append(vals, v)
	}
	// known = every account that can hold ICX: users, P-Reps (also act as users), treasury, system, governance, initial validators
	m.known = append(m.known, m.users...)
	m.known = append(m.known, m.preps...)
	m.users = append(m.users, m.preps...) // P-Rep owners stake/delegate/transfer too
	m.known = append(m.known, treasury, sysAddr, governance)
	for _, v := range vals {
		m.known = append(m.known, v.Address())
	}
	target := icmodule.LatestRevision
	s, err := icsim.NewSimulator(icmodule.ValueToRevision(target), vals, balances, cfg)
	if err != nil {
		panic(err)
	}
	m.s = s
	m.prev = m.observe()
	rc.Event("config term=%d preps=%d main=%d extra=%d users=%d slots=%d lock=%d..%d terms=%d", cfg.TermPeriod, nPreps, cfg.MainPRepCount, cfg.ExtraMainPRepCount, nUsers, cfg.UnstakeSlotMax, m.lockMin, m.lockMax, nTerms)

	must := func(ops ...*op) bool {
		for _, o := range ops {
			o.expect = 1
		}
		return m.step(ops, "bootstrap")
	}
	toTermEnd := func(where string) bool {
		ts := m.s.TermSnapshot()
		if ts == nil {
			return true
		}
		end := ts.GetEndHeight()
		// Empty blocks in which nothing can happen (no operation, every validator votes, no unstake
		// or unbond falls due) are executed without a recount in between; the ledger must come out
		// of the gap exactly as it went in. The last block of the term is recounted normally.
		quiet := end - 1
		for _, a := range m.known {
			ao := m.prev.acc[key(a)]
			for _, e := range ao.unstakes {
				if e.expire-1 < quiet {
					quiet = e.expire - 1
				}
			}
			for _, e := range ao.unbonds {
				if e.expire-1 < quiet {
					quiet = e.expire - 1
				}
			}
		}
		if len(m.down) == 0 && quiet > m.s.BlockHeight() {
			for m.s.BlockHeight() < quiet {
				if _, err := m.s.GoByBlock(m.csi(), nil); err != nil {
					m.blockFailed(m.s.BlockHeight()+1, err)
					return false
				}
				m.blocks++
				rc.Steps++
			}
			now := m.observe()
			for _, a := range m.known {
				po, no := m.prev.acc[key(a)], now.acc[key(a)]
				if po.balance.Cmp(no.balance) != 0 || po.stake.Cmp(no.stake) != 0 || !sameEntries(po.unstakes, no.unstakes) ||
					!sameEntries(po.unbonds, no.unbonds) || !samePairs(po.delegs, no.delegs) || !samePairs(po.bonds, no.bonds) {
					rc.Violate("record-changed-without-operation", "quiet-blocks", "account %s changed during empty blocks %d..%d", m.name(a), m.prev.h+1, now.h)
					return false
				}
			}
			if now.supply.Cmp(m.prev.supply) != 0 || now.totalStake.Cmp(m.prev.totalStake) != 0 {
				rc.Violate("supply-mismatch", "quiet-blocks", "supply/stake changed during empty blocks %d..%d", m.prev.h+1, now.h)
				return false
			}
			rc.Event("h=%d..%d quiet", m.prev.h+1, now.h)
			m.prev = now
		}
		for m.s.BlockHeight() < end {
			if !m.step(nil, where) {
				return false
			}
		}
		return true
	}
	// ---- bootstrap: the same walk through the revisions as icsim's own Env, every block recounted
	for rev := icmodule.Revision13; rev <= target; rev++ {
		if !must(&op{kind: "setRevision", from: governance, tx: s.SetRevision(governance, icmodule.ValueToRevision(rev)), desc: fmt.Sprintf("setRevision %d", rev)}) {
			return
		}
		if rev == icmodule.Revision13 {
			var ops []*op
			for i, p := range m.preps {
				ops = append(ops, &op{kind: "registerPRep", from: p, tx: s.RegisterPRep(p, m.prepInfo(i)), desc: "registerPRep " + m.name(p)})
			}
			if !must(ops...) {
				return
			}
			// The simulator's reward calculator skips its very first term (no "global" record yet),
			// so votes cast there are unknown to it and reducing them later fails the calculation
			// ("Negative delegation"; reproduces with icsim.NewEnv alone). Nothing but the P-Rep
			// registrations happens in that term; all staking starts in the second one.
			if !toTermEnd("bootstrap") {
				return
			}
			// second term: users stake, P-Reps open bonder lists, users bond and delegate; the network decentralises at its end
			ops = nil
			for _, u := range m.users[:nUsers] {
				v := toLoop(2000)
				ops = append(ops, &op{kind: "setStake", from: u, tx: s.SetStake(u, v), newStake: v, desc: "setStake " + m.name(u)})
			}
			for i, p := range m.preps {
				bl := icstate.BonderList{common.AddressToPtr(m.users[i%nUsers]), common.AddressToPtr(m.users[(i+1)%nUsers])}
				ops = append(ops, &op{kind: "setBonderList", from: p, tx: s.SetBonderList(p, bl), desc: "setBonderList " + m.name(p)})
			}
			if !must(ops...) {
				return
			}
			ops = nil
			for i := 0; i < nPreps && i < nUsers; i++ {
				ps := []pair{{key(m.preps[i]), toLoop(500)}}
				ops = append(ops, &op{kind: "setBond", from: m.users[i], newBonds: ps, desc: "setBond " + m.name(m.users[i]),
					tx: s.SetBond(m.users[i], icstate.Bonds{icstate.NewBond(common.AddressToPtr(m.preps[i]), toLoop(500))})})
			}
			if !must(ops...) {
				return
			}
			ops = nil
			for i, u := range m.users[:nUsers] {
				ps := []pair{{key(m.preps[i%nPreps]), toLoop(1000)}}
				ops = append(ops, &op{kind: "setDelegation", from: u, newDelegs: ps, desc: "setDelegation " + m.name(u),
					tx: s.SetDelegation(u, icstate.Delegations{icstate.NewDelegation(common.AddressToPtr(m.preps[i%nPreps]), toLoop(1000))})})
			}
			if !must(ops...) || !toTermEnd("bootstrap") {
				return
			}
			if ts := s.TermSnapshot(); ts == nil || !ts.IsDecentralized() {
				panic("bootstrap: network did not decentralise")
			}
		}
		if !toTermEnd("bootstrap") {
			return
		}
	}
	// slashing rates: without them every penalty slashes 0
	rates := map[string]icmodule.Rate{
		icmodule.PenaltyValidationFailure.String():            icmodule.Rate(t.Choose("rate.vf", 4) * 50),
		icmodule.PenaltyAccumulatedValidationFailure.String(): icmodule.Rate(100 + t.Choose("rate.avf", 20)*100),
		icmodule.PenaltyDoubleSign.String():                   icmodule.Rate(100 + t.Choose("rate.ds", 30)*100),
	}
	if !must(&op{kind: "setSlashingRates", from: governance, tx: s.SetSlashingRates(governance, rates), desc: fmt.Sprintf("setSlashingRates %v", rates)}) {
		return
	}
	if rc.Failed() {
		return
	}
	m.histStart = m.s.BlockHeight()
	rc.Event("history starts at h=%d rev=%d", m.histStart, m.s.Revision().Value())

	// ---- the random history
	startTerm := m.prev.termSeq
	maxBlocks := int64(nTerms+1) * cfg.TermPeriod
	for b := int64(0); b < maxBlocks && m.prev.termSeq < startTerm+nTerms; b++ {
		// validator downtime
		if t.Permille("down.toggle", 60) {
			vl := m.prev.validators
			if len(vl) > 0 {
				v := vl[t.Choose("down.who", len(vl))]
				if m.down[v] {
					delete(m.down, v)
					rc.Event("validator %x is back", v[len(v)-2:])
				} else if len(m.down) < 2 {
					m.down[v] = true
					rc.Fault("validator_down")
					rc.Event("validator %x stops voting", v[len(v)-2:])
				}
			}
		}
		n := t.Weighted("nops", 3, 4, 3, 2, 1)
		var ops []*op
		seen := map[string]bool{}
		for i := 0; i < n; i++ {
			o := m.genOp()
			if o == nil {
				continue
			}
			// expectations were computed from the state after the previous block; an earlier
			// operation of this block touching the same account makes them void
			if seen[key(o.from)] {
				o.expect, o.overCommit = 0, false
			}
			seen[key(o.from)] = true
			if o.transferTo != nil {
				seen[key(o.transferTo)] = true
			}
			ops = append(ops, o)
			if o.follow != nil {
				ops = append(ops, o.follow)
			}
		}
		if !m.step(ops, "history") {
			break
		}
	}
	rc.SimTime = time.Duration(m.blocks) * 2 * time.Second
	rc.Metric("blocks", m.blocks)
	rc.Metric("history_blocks", m.s.BlockHeight()-m.histStart)
	rc.Nontrivial = !rc.Failed() && m.prev.termSeq >= startTerm+3
}
