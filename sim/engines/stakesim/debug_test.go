package stakesim

import (
	"fmt"
	"os"
	"strconv"
	"strings"
	"testing"

	"github.com/icon-project/goloop/common/log"
	"verif/sim/kit"
)

// TestDebug runs single seeds in-process and prints the event log (developer aid; not used by the runner).
func TestDebug(t *testing.T) {
	sv := os.Getenv("STAKESIM_DEBUG_SEED")
	if sv == "" {
		t.Skip()
	}
	lv := log.FatalLevel
	if os.Getenv("STAKESIM_DEBUG_LOG") != "" {
		lv = log.WarnLevel
	}
	log.GlobalLogger().SetLevel(lv)
	log.GlobalLogger().SetConsoleLevel(lv)
	if rp := os.Getenv("STAKESIM_DEBUG_REPLAY"); rp != "" {
		rf, err := kit.LoadReplay(rp)
		if err != nil {
			t.Fatal(err)
		}
		debugUnbonds = true
		rc := kit.NewRunCtx("C34", "quick", "", rf.Seed, rf.RunIndex, kit.NewReplayTape(rf.Tape))
		rc.KeepFull = true
		res := kit.RunOnce(engine{t}, rc)
		for _, l := range rc.Full() {
			if !strings.Contains(l, "supply=") {
				fmt.Println(l)
			}
		}
		fmt.Printf("violation=%+v\n", res.Violation)
		return
	}
	seed, _ := strconv.ParseUint(sv, 10, 64)
	n := 1
	if c := os.Getenv("STAKESIM_DEBUG_N"); c != "" {
		n, _ = strconv.Atoi(c)
	}
	for i := 0; i < n; i++ {
		rc := kit.NewRunCtx("C34", "quick", "", seed+uint64(i), i, kit.NewTape(seed+uint64(i)))
		rc.KeepFull = true
		res := kit.RunOnce(engine{t}, rc)
		if os.Getenv("STAKESIM_DEBUG_V") != "" || res.Violation != nil {
			for _, l := range rc.Full() {
				fmt.Println(l)
			}
		}
		fmt.Printf("seed %d: events=%d wall=%dus nontrivial=%v probes=%v faults=%v violation=%+v\n", seed+uint64(i), res.Events, res.WallUs, res.Nontrivial, res.Probes, res.Faults, res.Violation)
		if res.Panic != "" {
			fmt.Println(res.Panic)
		}
	}
}
