// Package execsim simulates block execution: the real service.Transition machinery
// (sequential executor transition_se.go and concurrent executor transition_pe.go)
// over the real world state / virtual world state, with transaction goroutine
// schedules chosen by the tape (DESIGN.md 3.6(c), 4.3). Serves C09 C10 C15 C16.
package execsim

import (
	"bytes"
	"encoding/json"
	"fmt"
	"github.com/icon-project/goloop/common"
	"math/big"
	"testing"

	"github.com/icon-project/goloop/common/crypto"
	"github.com/icon-project/goloop/common/errors"
	"github.com/icon-project/goloop/module"
	"github.com/icon-project/goloop/service"
	"github.com/icon-project/goloop/service/contract"
	"github.com/icon-project/goloop/service/state"
	"github.com/icon-project/goloop/service/transaction"
	"github.com/icon-project/goloop/service/txresult"

	"verif/sim/kit"
)

type engine struct{ t *testing.T }

func (engine) Name() string { return "execsim" }

func TestWorker(t *testing.T) {
	if err := kit.WorkerMain(engine{t}); err != nil {
		t.Fatal(err)
	}
}

// ---- set-up transaction: deploys the harness SCORE -------------------------------

type setupTx struct{ scriptTx }

func newSetupTx() *setupTx {
	t := &setupTx{}
	t.js = scriptJSON{Type: scriptType, Idx: -1}
	t.raw, _ = json.Marshal(&t.js)
	t.id = crypto.SHA3Sum256(t.raw)
	return t
}

func (t *setupTx) GetHandler(contract.ContractManager) (transaction.Handler, error) { return t, nil }
func (t *setupTx) Dispose()                                                         {}
func (t *setupTx) Prepare(ctx contract.Context) (state.WorldContext, error) {
	return ctx.GetFuture([]state.LockRequest{{ID: state.WorldIDStr, Lock: state.AccountWriteLock}}), nil
}
func (t *setupTx) Execute(ctx contract.Context, wcs state.WorldSnapshot, estimate bool) (txresult.Receipt, error) {
	cc := contract.NewCallContext(ctx, ctx.GetStepLimit(state.StepLimitTypeInvoke), false)
	defer cc.Dispose()
	if err := contract.DeployAndInstallSystemSCORE(cc, scoreCID, godWallet.Address(), scoreAddr, nil, t.id); err != nil {
		return nil, err
	}
	r := txresult.NewReceipt(ctx.Database(), ctx.Revision(), scoreAddr)
	r.SetResult(module.StatusSuccess, new(big.Int), new(big.Int), nil)
	return r, nil
}

// ---- building the goloop transactions of a block ---------------------------------

func buildTxs(w *world, x *execCtx, specs []*txSpec, height int64) []module.Transaction {
	var txs []module.Transaction
	defer func() {
		for _, tx := range txs {
			registerTx(tx.(transaction.Transaction))
		}
	}()
	ts := blockTimestamp(height)
	for i, s := range specs {
		switch s.kind {
		case kScript:
			txs = append(txs, newScriptTx(w, x, i, s, ts))
		default:
			v := &v3spec{from: w.cfg.eoas[s.from], to: s.to, value: s.value, stepLimit: s.stepLimit, nonce: int64(i), timestamp: ts}
			if s.kind == kScore && s.async {
				v.dataType = "call"
				v.data = map[string]any{"method": "aw", "params": map[string]any{"p": encodeOps(s.prog), "c": calleeNames[s.callee]}}
			} else if s.kind == kScore {
				m := "wld"
				if s.isolated {
					m = "iso"
				}
				v.dataType = "call"
				v.data = map[string]any{"method": m, "params": map[string]any{"p": encodeProg(s.prog, s.end)}}
			} else if s.msg != nil {
				v.dataType = "message"
				v.data = hexBytes(s.msg)
			}
			tx, err := buildV3(v)
			if err != nil {
				panic(fmt.Sprintf("execsim: cannot build transaction %d (%s): %v", i, s, err))
			}
			txs = append(txs, &wrapTx{Transaction: tx, x: x, idx: i, spec: s, w: w})
		}
	}
	return txs
}

// ---- one execution of the block ------------------------------------------------------

type execResult struct {
	name         string
	level        int
	x            *execCtx
	out          execOutcome
	receipts     []module.Receipt
	lateReceipts []module.Receipt // receipts found on a transition whose execution failed
	rctErr       string
	result       []byte
	final        *finalState
	hash         []byte
	finErr       error
}

func (r *execResult) ok() bool {
	return r.out.finished && r.out.validateErr == nil && r.out.execErr == nil
}

func execute(rc *kit.RunCtx, w *world, specs []*txSpec, level int, scheduled bool, name string) *execResult {
	return executeWith(rc, w, specs, level, scheduled, name, -1, 0)
}

// cancelNext: the next scheduled execution is cancelled at this step (-1 = no). Set by Run for the extra
// "K" execution of C10.
var cancelNext = -1

func executeWith(rc *kit.RunCtx, w *world, specs []*txSpec, level int, scheduled bool, name string, victim, grace int) *execResult {
	res := &execResult{name: name, level: level}
	resetRegistry()
	stx := newSetupTx()
	registerTx(stx)
	n, err := newNode(w.cfg, level, rc.Scratch+"/"+name, []module.Transaction{stx})
	if err != nil {
		panic(fmt.Sprintf("execsim: cannot set up the base state: %+v", err))
	}
	x := newExecCtx(rc, name, scheduled, level, len(specs))
	x.w = w
	x.victim, x.grace = victim, grace
	if scheduled {
		x.cancelAt, cancelNext = cancelNext, -1
	}
	res.x = x
	tr := n.newTransition(buildTxs(w, x, specs, n.height+1), x)
	if scheduled {
		common.SimAcquireHook = lockSiteYield
		res.out = x.drive(tr)
		common.SimAcquireHook = nil
		rc.Metric("lock_site_yields", int64(x.lockYields))
	} else {
		curExec = x
		cb := newExecCB()
		if _, err := tr.Execute(cb); err != nil {
			res.out = execOutcome{finished: true, execErr: err}
		} else if err := <-cb.validated; err != nil {
			res.out = execOutcome{finished: true, validateErr: err}
		} else {
			res.out = execOutcome{finished: true, execErr: <-cb.executed}
		}
	}
	if !res.ok() {
		if res.out.finished && res.out.execErr != nil {
			// a failed execution has no results to offer; if the transition nevertheless
			// holds receipts (failure after aggregation) keep them for diagnosis
			func() {
				defer func() { _ = recover() }()
				if rl := tr.NormalReceipts(); rl != nil {
					for it := rl.Iterator(); it.Has(); it.Next() {
						if r, err := it.Get(); err == nil {
							res.lateReceipts = append(res.lateReceipts, r)
						}
					}
				}
			}()
		}
		return res
	}
	// results, exactly as a block manager would pick them up
	rl := tr.NormalReceipts()
	cnt := 0
	for it := rl.Iterator(); it.Has(); it.Next() {
		r, err := it.Get()
		if err != nil {
			res.rctErr = fmt.Sprintf("receipt %d: %v", cnt, err)
			break
		}
		res.receipts = append(res.receipts, r)
		cnt++
	}
	res.result = tr.Result()
	if err := service.FinalizeTransition(tr, finalizeAll, false); err != nil {
		res.finErr = err
		return res
	}
	ws, err := service.NewWorldSnapshot(n.chain.database, n.plt, res.result, nil)
	if err != nil {
		res.finErr = err
		return res
	}
	res.hash = ws.StateHash()
	res.final = w.readFinal(ws)
	return res
}

func (x *execCtx) currentAttempt(idx int) int {
	x.mu.Lock()
	defer x.mu.Unlock()
	if idx < 0 || idx >= len(x.recs) {
		return 0
	}
	return len(x.recs[idx].attempts) - 1
}

// ---- Run -------------------------------------------------------------------------------

func (e engine) Run(rc *kit.RunCtx) {
	t := rc.Tape
	prop := rc.Property
	cfg := genWorld(t, prop)
	w := newWorld(cfg)
	level := levels[t.Weighted("level", levelWeights(prop)...)]
	specs := genBlock(t, w, prop, rc.Profile)
	// schedule shape: optionally starve one transaction after a few of its turns
	victim := t.Choose("starve", maxTx+1) - 1
	grace := t.Choose("starvegrace", 8)
	if victim >= len(specs) {
		victim = -1
	}

	validateOnImport = t.Permille("validate.on.import", 150)
	rc.Config["validate_on_import"] = validateOnImport
	if validateOnImport {
		rc.Probe("executed_as_importer_with_validation")
	}
	rc.Config["level"] = level
	rc.Config["ntx"] = len(specs)
	rc.Config["step_price"] = cfg.steps.price
	rc.Config["eoas"] = len(cfg.eoas)
	rc.Config["cells"] = len(cfg.scripts)
	rc.Event("world price=%d costs=%d/%d/%d/%d/%d eoas=%d cells=%d scoreBal=%v level=%d",
		cfg.steps.price, cfg.steps.costDefault, cfg.steps.costInput, cfg.steps.costCall, cfg.steps.costSet, cfg.steps.costLog,
		len(cfg.eoas), len(cfg.scripts), cfg.scoreBal, level)
	for i, b := range cfg.balances {
		rc.Event("balance e%d=%v", i, b)
	}
	for i, s := range specs {
		rc.Event("tx %d: %s", i, s)
	}

	rc.Event("starve victim=%d grace=%d", victim, grace)
	conc := executeWith(rc, w, specs, level, true, "X", victim, grace)
	rc.Metric("sched_steps", int64(conc.x.steps))
	rc.Event("X outcome finished=%v deadlock=%v err=%v receipts=%d hash=%x", conc.out.finished, conc.out.deadlock, errCode(conc.out), len(conc.receipts), conc.hash)
	if conc.out.deadlock {
		rc.Probe("scheduled_execution_deadlocked")
		if prop == "C09" {
			// sequential execution always terminates; a schedule under which the concurrent one does not is a C09 violation
			rc.Violate("deadlock", conc.out.deadlockSig,
				"no releasable transaction goroutine while the executor has not finished (level %d): %s", level, conc.out.deadlockAt)
			return
		}
		// the other properties speak about executed blocks only: they are still checked on the sequential execution
	}
	seq := execute(rc, w, specs, 1, false, "S")
	rc.Event("S outcome err=%v receipts=%d hash=%x", errCode(seq.out), len(seq.receipts), seq.hash)

	e.probes(rc, w, specs, conc, seq, level)

	switch prop {
	case "C09":
		checkC09(rc, w, specs, conc, seq)
	case "C10":
		checkC10(rc, w, specs, conc, seq)
		if !rc.Failed() && !conc.out.deadlock && t.Permille("cancel.run", 300) {
			// the same block once more, and this time the execution is given up at a tape-chosen scheduling
			// step (what a block manager does when consensus moves on). Either the canceller refuses (the
			// execution had finished: the usual outcome rules apply) or it accepts, and then no "executed
			// successfully" may follow unless every transaction has its result; nothing may crash.
			cancelNext = t.Choose("cancel.at", 3+2*len(specs))
			k := executeWith(rc, w, specs, level, true, "K", -1, 0)
			rc.Event("K outcome cancelAccepted=%v finished=%v err=%v receipts=%d", k.x.cancelOK, k.out.finished, errCode(k.out), len(k.receipts))
			switch {
			case k.x.cancelOK && k.out.finished && k.out.execErr == nil && k.out.validateErr == nil:
				rc.Probe("callback_after_accepted_cancel")
				if !wellFormed(rc, specs, k) {
					return
				}
			case k.x.cancelOK:
				rc.Probe("execution_cancelled")
			case k.x.cancelDone:
				rc.Probe("cancel_refused_execution_already_over")
				if !wellFormed(rc, specs, k) {
					return
				}
			}
		}
	case "C15":
		if !conc.out.deadlock {
			checkAccounting(rc, w, specs, conc, false)
		}
		checkAccounting(rc, w, specs, seq, false)
	case "C16":
		if !conc.out.deadlock {
			checkAccounting(rc, w, specs, conc, true)
		}
		checkAccounting(rc, w, specs, seq, true)
	}
}

func errCode(o execOutcome) string {
	if o.validateErr != nil {
		return fmt.Sprintf("validate:%d", errors.CodeOf(o.validateErr))
	}
	if o.execErr != nil {
		return fmt.Sprintf("exec:%d", errors.CodeOf(o.execErr))
	}
	return "nil"
}

func modeName(r *execResult) string {
	if r.level > 1 {
		return "concurrent"
	}
	return "sequential"
}

// ---- probes, faults, non-triviality -------------------------------------------------------

func (e engine) probes(rc *kit.RunCtx, w *world, specs []*txSpec, conc, seq *execResult, level int) {
	prop := rc.Property
	if level > 1 {
		rc.Probe("concurrent_executor")
	} else {
		rc.Probe("sequential_executor")
	}
	if conc.x.maxPark >= 2 {
		rc.Probe("schedule_choice")
	}
	if conc.x.waited {
		rc.Probe("waited_on_predecessor")
	}
	if conc.x.commitWaited {
		rc.Probe("commit_waited_for_untouched_account")
	}
	if conc.x.starved {
		rc.Probe("starved_transaction")
	}
	// receipts are looked at on the scheduled execution, or on the sequential one if the scheduled one never finished
	ref := conc
	if conc.out.deadlock {
		ref = seq
	}
	injFired := false
	for i, s := range specs {
		if level > 1 && s.kind == kScript && s.script.world != lockWrite {
			touched := map[int]bool{}
			for _, o := range s.script.ops {
				touched[o.cell] = true
			}
			for _, c := range s.script.order {
				if s.script.locks[c] == lockWrite && !touched[c] {
					rc.Probe("untouched_write_lock_script")
					break
				}
			}
			if len(s.script.ops) == 0 {
				rc.Probe("empty_or_aborted_script")
			}
		}
		if s.kind == kScript && s.script.world != lockNone || s.kind == kScore && !s.isolated {
			if level > 1 {
				rc.Probe("world_lock_tx")
			}
		}
		for _, r := range []*execResult{conc, seq} {
			rec := r.x.recs[i]
			nInj := 0
			for _, a := range rec.attempts {
				if a.injected {
					nInj++
				}
			}
			if nInj == 0 {
				continue
			}
			injFired = true
			if r == conc {
				switch {
				case s.inj.kind == injFatal:
					rc.Fault("handler_error_fatal")
				case s.inj.k < 0:
					rc.Fault("handler_error_retry_exhausted")
				case s.inj.kind == injRerun:
					rc.Fault("handler_error_rerun")
				default:
					rc.Fault("handler_error_retryable")
				}
			}
			if r.ok() && len(rec.attempts) > nInj {
				if r == conc {
					rc.Probe("retry_then_success")
					if level > 1 {
						rc.Probe("retry_then_success_concurrent")
					}
				} else {
					rc.Probe("retry_then_success_reference")
				}
			}
		}
		if ref.ok() && i < len(ref.receipts) && s.kind != kScript {
			r := ref.receipts[i]
			switch r.Status() {
			case module.StatusOutOfBalance:
				rc.Probe("insufficient_balance")
				if s.lazy && level > 1 && s.kind == kTransfer && s.toName != w.cfg.eoas[s.from].name {
					rc.Probe("untouched_write_lock_transfer")
				}
			case module.StatusOutOfStep:
				rc.Probe("out_of_step")
			case module.StatusReverted:
				mut := false
				for _, o := range s.prog {
					if o.op == 's' || o.op == 'a' || o.op == 't' {
						mut = true
					}
				}
				if mut {
					rc.Probe("revert_after_mutation")
				}
			case module.StatusSuccess:
				rc.Probe("success_receipt")
				if s.kind == kScore && expectedLogs(w, s) > 0 {
					rc.Probe("success_with_event_logs")
				}
			}
			if s.async && r.Status() == module.StatusTimeout {
				// cleanUpFrames unwound the writer's frame while its callee's frame was the current one
				mut := false
				for _, o := range s.prog {
					if o.op == 's' || o.op == 'a' || o.op == 't' {
						mut = true
					}
				}
				switch {
				case s.callee == calleeRoTimeout && mut:
					rc.Probe("cleanup_under_readonly_callee_after_mutation")
				case s.callee == calleeRwTimeout && mut:
					rc.Probe("cleanup_under_writable_callee_after_mutation")
				}
			}
			if s.async && r.Status() == module.StatusSuccess {
				rc.Probe("async_writer_success")
			}
			if r.Status() != module.StatusSuccess {
				rc.Probe("failed_receipt")
				if s.kind == kScore && len(s.prog) > 0 {
					rc.Probe("failed_after_partial_mutation")
				}
			}
		}
	}
	if conc.out.finished && !conc.ok() {
		rc.Probe("block_failed")
		if level > 1 {
			rc.Probe("block_failed_concurrent")
		}
	}
	if !seq.ok() {
		rc.Probe("block_failed_reference")
	}
	switch prop {
	case "C09":
		rc.Nontrivial = level > 1 && conc.ok() && conc.x.maxPark >= 2
	case "C10":
		rc.Nontrivial = injFired
	case "C15":
		n := 0
		for i, s := range specs {
			if s.kind != kScript && ref.ok() && i < len(ref.receipts) && ref.receipts[i].StepPrice().Sign() > 0 {
				n++
			}
		}
		rc.Nontrivial = n > 0
	case "C16":
		n := 0
		for i, s := range specs {
			if s.kind != kScript && ref.ok() && i < len(ref.receipts) && ref.receipts[i].Status() != module.StatusSuccess {
				n++
			}
		}
		rc.Nontrivial = n > 0
	}
}

// ---- oracles -------------------------------------------------------------------------------

func kindName(s *txSpec) string {
	switch s.kind {
	case kTransfer:
		return "transfer"
	case kScore:
		if s.async {
			return "writer-" + calleeNames[s.callee]
		}
		if s.isolated {
			return "score-iso"
		}
		return "score-wld"
	default:
		switch s.script.world {
		case lockWrite:
			return "script-worldW"
		case lockRead:
			return "script-worldR"
		}
		return "script"
	}
}

func hasFatal(specs []*txSpec) (bool, *txSpec) {
	for _, s := range specs {
		if s.inj.fatal() {
			return true, s
		}
	}
	return false, nil
}

// rejectedByValidation: executed as an importer, the block was refused by the transition's own
// pre-validation of its transactions (the generated blocks contain transfers the sender cannot pay for,
// which a proposer's pool would never have selected). A legitimate way for a block to fail as a whole.
func rejectedByValidation(rc *kit.RunCtx, r *execResult) bool {
	if validateOnImport && r.out.finished && r.out.validateErr != nil {
		rc.Probe("block_rejected_by_validation")
		return true
	}
	return false
}

func hasFiniteInj(specs []*txSpec) bool {
	for _, s := range specs {
		if s.inj != nil && !s.inj.fatal() {
			return true
		}
	}
	return false
}

// wellFormed: success means exactly one non-nil result per transaction, in block order.
func wellFormed(rc *kit.RunCtx, specs []*txSpec, r *execResult) bool {
	if !r.ok() {
		return true
	}
	if r.rctErr != "" {
		rc.Violate("receipt-unreadable", modeName(r), "%s execution succeeded but %s", modeName(r), r.rctErr)
		return false
	}
	if len(r.receipts) != len(specs) {
		rc.Violate("receipt-count", modeName(r), "%s execution reported success with %d results for %d transactions", modeName(r), len(r.receipts), len(specs))
		return false
	}
	for i, s := range specs {
		rct := r.receipts[i]
		if rct == nil {
			rc.Violate("receipt-missing", modeName(r)+"/"+kindName(s), "%s execution reported success but transaction %d (%s) has no result", modeName(r), i, s)
			return false
		}
		var to module.Address = s.to
		if s.kind == kScript {
			to = scriptFrom
		}
		if !rct.To().Equal(to) {
			rc.Violate("receipt-order", modeName(r), "%s execution: result %d is addressed to %s, transaction %d goes to %s", modeName(r), i, rct.To(), i, to)
			return false
		}
	}
	if r.finErr != nil {
		rc.Violate("finalize-failed", modeName(r), "%s execution succeeded but its result cannot be finalized/read back: %v", modeName(r), r.finErr)
		return false
	}
	return true
}

func checkC10(rc *kit.RunCtx, w *world, specs []*txSpec, conc, seq *execResult) {
	fatal, fs := hasFatal(specs)
	finite := hasFiniteInj(specs)
	rs := []*execResult{conc, seq}
	if conc.out.deadlock {
		rs = rs[1:]
	}
	for _, r := range rs {
		if !wellFormed(rc, specs, r) {
			return
		}
		if fatal && r.ok() {
			kind := "retry-exhausted"
			if fs.inj.kind == injFatal {
				kind = "non-retryable"
			}
			rc.Violate("failed-transaction-dropped", modeName(r)+"/"+kind,
				"%s execution reported success although a transaction handler failed with a %s error (%s)", modeName(r), kind, fs)
			return
		}
		if !fatal && !finite && !r.ok() && !rejectedByValidation(rc, r) {
			rc.Violate("spurious-block-failure", modeName(r), "%s execution failed (%s) although no handler error was injected", modeName(r), errCode(r.out))
			return
		}
	}
	if conc.out.deadlock {
		return
	}
	if conc.ok() != seq.ok() {
		rc.Violate("mode-divergence", fmt.Sprintf("scheduled-level>1=%v", conc.level > 1),
			"scheduled execution at level %d ended with %s, sequential reference with %s", conc.level, errCode(conc.out), errCode(seq.out))
		return
	}
	if conc.ok() {
		compareResults(rc, specs, conc, seq)
	}
}

// compareResults: same outcome, same receipts, same state.
func compareResults(rc *kit.RunCtx, specs []*txSpec, conc, seq *execResult) bool {
	for i := range specs {
		a, b := conc.receipts[i], seq.receipts[i]
		if !bytes.Equal(a.Bytes(), b.Bytes()) {
			rc.Violate("receipt-differs", kindName(specs[i]),
				"transaction %d (%s): level-%d result status=%d used=%v differs from the sequential result status=%d used=%v",
				i, specs[i], conc.level, a.Status(), a.StepUsed(), b.Status(), b.StepUsed())
			return false
		}
	}
	if d := conc.final.equal(seq.final); d != "" {
		rc.Violate("state-differs", "accounts", "level-%d execution and sequential reference end in different states: %s", conc.level, d)
		return false
	}
	if !bytes.Equal(conc.hash, seq.hash) {
		rc.Violate("state-hash-differs", "hash", "level-%d execution state hash %x, sequential reference %x", conc.level, conc.hash, seq.hash)
		return false
	}
	if !bytes.Equal(conc.result, seq.result) {
		rc.Violate("result-differs", "result", "level-%d transition result %x, sequential reference %x", conc.level, conc.result, seq.result)
		return false
	}
	return true
}

func checkC09(rc *kit.RunCtx, w *world, specs []*txSpec, conc, seq *execResult) {
	for _, r := range []*execResult{conc, seq} {
		if !wellFormed(rc, specs, r) {
			return
		}
	}
	if conc.ok() != seq.ok() {
		rc.Violate("outcome-differs", fmt.Sprintf("level>1=%v", conc.level > 1),
			"level-%d execution ended with %s, sequential reference with %s", conc.level, errCode(conc.out), errCode(seq.out))
		return
	}
	if !conc.ok() {
		if !hasFiniteInj(specs) && !(rejectedByValidation(rc, conc) && rejectedByValidation(rc, seq)) {
			rc.Violate("spurious-block-failure", "both", "both executions failed (%s) although nothing should fail", errCode(conc.out))
		}
		return
	}
	// independent interpreter: what every scripted read must see, and the final state
	m := w.initialModel()
	for i, s := range specs {
		if s.kind == kScript {
			want, _ := m.applyScript(s.script)
			for _, r := range []*execResult{conc, seq} {
				for an, a := range r.x.recs[i].attempts {
					for k, v := range a.reads {
						if k >= len(want) || v != want[k] {
							rc.Violate("stale-or-future-read", modeName(r)+"/"+kindName(s),
								"transaction %d (%s) attempt %d: read #%d returned %d, the latest earlier writer in block order left %d (%s execution)",
								i, s, an, k, v, want[k%max(len(want), 1)], modeName(r))
							return
						}
					}
					if !a.injected && a.err == nil && len(a.reads) != len(want) {
						rc.Violate("read-count", modeName(r), "transaction %d: %d reads observed, %d expected", i, len(a.reads), len(want))
						return
					}
				}
			}
			continue
		}
		rct := conc.receipts[i]
		if msg := m.applyPaid(w, s, rct.Status() == module.StatusSuccess, rct.StepUsed(), rct.StepPrice()); msg != "" {
			rc.Violate("impossible-result", kindName(s), "transaction %d (%s): %s", i, s, msg)
			return
		}
	}
	if !compareResults(rc, specs, conc, seq) {
		return
	}
	m.bal["treasury"].Add(m.bal["treasury"], m.fees)
	if d := conc.final.diff(m); d != "" {
		rc.Violate("state-differs-from-model", "interpreter", "level-%d execution: %s", conc.level, d)
	}
}

func countLogs(r module.Receipt) int {
	n := 0
	for it := r.EventLogIterator(); it.Has(); it.Next() {
		n++
	}
	return n
}

func obsEqual(a, b *acctObs) bool {
	if (a == nil) != (b == nil) {
		return false
	}
	if a == nil {
		return true
	}
	if a.balance.Cmp(b.balance) != 0 || len(a.store) != len(b.store) {
		return false
	}
	for i := range a.store {
		if a.store[i] != b.store[i] {
			return false
		}
	}
	return true
}

func sortedNames(m map[string]*acctObs) []string { return kit.SortedKeys(m) }

// checkAccounting is the oracle of C15 (fees and transfers conserve ICX) and, with
// failedStrict, of C16 (a failed transaction changes nothing but the fee).
func checkAccounting(rc *kit.RunCtx, w *world, specs []*txSpec, r *execResult, failedStrict bool) {
	if rc.Failed() {
		return
	}
	mode := modeName(r)
	if !wellFormed(rc, specs, r) {
		return
	}
	if !r.ok() {
		if failedStrict && len(r.lateReceipts) == len(specs) {
			for i, rct := range r.lateReceipts {
				if rct.Status() == module.StatusSuccess {
					continue
				}
				if n := countLogs(rct); n != 0 {
					rc.Violate("failed-tx-has-event-logs", kindName(specs[i]), "%s: failed transaction %d (%s, status %d) carries %d event logs (and the block failed: %s)", mode, i, specs[i], rct.Status(), n, errCode(r.out))
					return
				}
				if l := rct.BTPMessages(); l != nil && l.Len() != 0 {
					rc.Violate("failed-tx-has-btp-messages", kindName(specs[i]), "%s: failed transaction %d (%s, status %d) carries %d BTP messages (and the block failed: %s)", mode, i, specs[i], rct.Status(), l.Len(), errCode(r.out))
					return
				}
			}
		}
		if !hasFiniteInj(specs) && !rejectedByValidation(rc, r) {
			rc.Violate("spurious-block-failure", mode, "%s execution failed (%s) although nothing should fail", mode, errCode(r.out))
		}
		return
	}
	cfg := w.cfg
	m := w.initialModel()
	total0 := m.total()
	price := big.NewInt(cfg.steps.price)
	for i, s := range specs {
		if s.kind == kScript {
			m.applyScript(s.script)
			continue
		}
		rct := r.receipts[i]
		ok := rct.Status() == module.StatusSuccess
		used, rp := rct.StepUsed(), rct.StepPrice()
		sig := kindName(s)
		if !failedStrict {
			// C15: steps used between the minimum charge and the step limit; price is the chain's (or 0 for an unpayable failure)
			if used.Cmp(big.NewInt(cfg.steps.costDefault)) < 0 || used.Cmp(big.NewInt(s.stepLimit)) > 0 {
				rc.Violate("steps-out-of-range", sig, "%s: transaction %d (%s) reports stepUsed=%v, minimum charge %d, step limit %d", mode, i, s, used, cfg.steps.costDefault, s.stepLimit)
				return
			}
			if rp.Cmp(price) != 0 && !(rp.Sign() == 0 && !ok) {
				rc.Violate("step-price", sig, "%s: transaction %d (%s) status %d reports step price %v, chain price is %v", mode, i, s, rct.Status(), rp, price)
				return
			}
		}
		fee := new(big.Int).Mul(used, rp)
		// per-attempt observation through the transaction's own context
		rec := r.x.recs[i]
		var first map[string]*acctObs
		for an, a := range rec.attempts {
			if a.pre == nil {
				continue
			}
			if first == nil {
				first = a.pre
			} else {
				for _, n := range sortedNames(first) {
					if !obsEqual(first[n], a.pre[n]) {
						rc.Violate("retry-sees-leftovers", sig, "%s: transaction %d (%s) attempt %d starts with %s = %v, the first attempt started with %v (state of a failed attempt was not rolled back)",
							mode, i, s, an, n, a.pre[n].balance, first[n].balance)
						return
					}
				}
			}
			if a.rct == nil || a.post == nil {
				continue
			}
			// expected effect of this attempt on the observed accounts
			aok := a.rct.Status() == module.StatusSuccess
			afee := new(big.Int).Mul(a.rct.StepUsed(), a.rct.StepPrice())
			exp := map[string]*acctObs{}
			for n, o := range a.pre {
				exp[n] = &acctObs{balance: new(big.Int).Set(o.balance), store: append([]int64(nil), o.store...)}
			}
			payer := cfg.eoas[s.from].name
			exp[payer].balance.Sub(exp[payer].balance, afee)
			if aok {
				applyEffects(w, s, exp, afee)
			}
			for _, n := range sortedNames(exp) {
				if !obsEqual(exp[n], a.post[n]) {
					class, what := "balance-mismatch", "successful"
					if !aok {
						class, what = "failed-tx-changed-state", "failed"
					}
					if failedStrict && aok {
						continue // C16 speaks about failed transactions only
					}
					rc.Violate(class, sig, "%s: %s transaction %d (%s) attempt %d: %s is %s after execution, expected %s (before: %s, fee %v)",
						mode, what, i, s, an, n, fmtObs(a.post[n]), fmtObs(exp[n]), fmtObs(a.pre[n]), afee)
					return
				}
			}
		}
		if !ok {
			if n := countLogs(rct); n != 0 && failedStrict {
				rc.Violate("failed-tx-has-event-logs", sig, "%s: failed transaction %d (%s, status %d) carries %d event logs", mode, i, s, rct.Status(), n)
				return
			}
			if l := rct.BTPMessages(); l != nil && l.Len() != 0 && failedStrict {
				rc.Violate("failed-tx-has-btp-messages", sig, "%s: failed transaction %d (%s, status %d) carries %d BTP messages", mode, i, s, rct.Status(), l.Len())
				return
			}
		}
		if msg := m.applyPaid(w, s, ok, used, rp); msg != "" {
			rc.Violate("negative-balance", sig, "%s: transaction %d (%s): %s", mode, i, s, msg)
			return
		}
		_ = fee
	}
	m.bal["treasury"].Add(m.bal["treasury"], m.fees)
	// final state against the model
	if failedStrict {
		if d := r.final.diff(m); d != "" {
			rc.Violate("state-differs-from-model", "final", "%s: %s", mode, d)
		}
		return
	}
	for _, a := range w.all {
		if r.final.bal[a.name].Sign() < 0 {
			rc.Violate("negative-balance", "final", "%s: %s ends with balance %v", mode, a.name, r.final.bal[a.name])
			return
		}
		if r.final.bal[a.name].Cmp(m.bal[a.name]) != 0 {
			class := "balance-mismatch"
			if a.name == "treasury" {
				class = "treasury-mismatch"
			}
			rc.Violate(class, "final", "%s: %s ends with %v, accounting model says %v (fees charged in the block: %v)", mode, a.name, r.final.bal[a.name], m.bal[a.name], m.fees)
			return
		}
	}
	sum := new(big.Int)
	for _, a := range w.all {
		sum.Add(sum, r.final.bal[a.name])
	}
	if sum.Cmp(total0) != 0 {
		rc.Violate("supply-changed", "final", "%s: sum of balances %v before, %v after", mode, total0, sum)
	}
}

func fmtObs(o *acctObs) string {
	if o == nil {
		return "<inaccessible>"
	}
	if o.store != nil {
		return fmt.Sprintf("%v%v", o.balance, o.store)
	}
	return o.balance.String()
}

// applyEffects: effects of a successful fee-paying transaction on observed accounts
func applyEffects(w *world, s *txSpec, obs map[string]*acctObs, afee *big.Int) {
	payer := w.cfg.eoas[s.from].name
	add := func(name string, v *big.Int) {
		if o := obs[name]; o != nil {
			o.balance.Add(o.balance, v)
		}
	}
	if s.value != nil && s.value.Sign() > 0 {
		add(payer, new(big.Int).Neg(s.value))
		add(w.nameOf(s.to), s.value)
	}
	if s.kind == kScore {
		sc := obs["score"]
		for _, o := range s.prog {
			switch o.op {
			case 's':
				if sc != nil {
					sc.store[o.key] = o.val
				}
			case 'a':
				if sc != nil {
					sc.store[o.key] += o.val
				}
			case 't':
				v := big.NewInt(o.val)
				add("score", new(big.Int).Neg(v))
				add(w.recips[o.to%len(w.recips)].name, v)
			case 'd':
				// obs[payer] already has the fee taken off; at execution time it had not been charged yet
				if po := obs[payer]; po != nil && afee != nil {
					cur := new(big.Int).Add(po.balance, afee)
					if amt := new(big.Int).Sub(cur, big.NewInt(o.val)); amt.Sign() > 0 {
						add(payer, new(big.Int).Neg(amt))
						add("score", amt)
					}
				}
			}
		}
	}
}
