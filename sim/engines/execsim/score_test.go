package execsim

import (
	"fmt"
	"math/big"
	"strconv"
	"strings"

	"github.com/icon-project/goloop/module"
	"github.com/icon-project/goloop/service/contract"
	"github.com/icon-project/goloop/service/scoreapi"
	"github.com/icon-project/goloop/service/scoredb"
	"github.com/icon-project/goloop/service/scoreresult"
	"github.com/icon-project/goloop/service/state"
)

// The harness SCORE: a native system SCORE (public seam contract.RegisterSystemScore)
// deployed at scoreAddr by a set-up transaction. Its two methods interpret a small
// program: write storage, read-modify-write storage, emit event logs, send BTP
// messages, transfer value out by a real inter-call, and then end by returning
// success, reverting, exhausting the steps, making an invalid inter-call or panicking.
// "iso" is declared isolated (account locks on sender and SCORE only), "wld" is not
// (goloop then takes the world lock for the transaction).

const scoreCID = "execsim-score"

const nScoreKeys = 4

const scoreEventSig = "Harness(int,int)"

func scoreKey(k int) string { return "k" + strconv.Itoa(k) }

func encodeOps(p []scoreOp) string {
	var parts []string
	for _, o := range p {
		switch o.op {
		case 's':
			parts = append(parts, fmt.Sprintf("s%d=%d", o.key, o.val))
		case 'a':
			parts = append(parts, fmt.Sprintf("a%d+%d", o.key, o.val))
		case 'g':
			parts = append(parts, fmt.Sprintf("g%d", o.key))
		case 'e':
			parts = append(parts, fmt.Sprintf("e%d", o.val))
		case 't':
			parts = append(parts, fmt.Sprintf("t%d:%d", o.to, o.val))
		case 'm':
			parts = append(parts, "m")
		case 'd':
			parts = append(parts, fmt.Sprintf("d%d", o.val))
		}
	}
	return strings.Join(parts, ";")
}

func encodeProg(p []scoreOp, end int) string {
	ops := encodeOps(p)
	e := []string{"ok", "rv", "os", "bc", "pn"}[end]
	if ops == "" {
		return e
	}
	return ops + ";" + e
}

type harnessScore struct {
	cc    contract.CallContext
	from  module.Address
	value *big.Int
}

func newHarnessScore(cid string, cc contract.CallContext, from module.Address, value *big.Int) (contract.SystemScore, error) {
	return &harnessScore{cc: cc, from: from, value: value}, nil
}

func (s *harnessScore) Install(param []byte) error { return nil }
func (s *harnessScore) Update(param []byte) error  { return nil }

var harnessAPI = scoreapi.NewInfo([]*scoreapi.Method{
	{Type: scoreapi.Function, Name: "wld", Flags: scoreapi.FlagExternal | scoreapi.FlagPayable, Indexed: 1,
		Inputs: []scoreapi.Parameter{{Name: "p", Type: scoreapi.String}}},
	{Type: scoreapi.Function, Name: "iso", Flags: scoreapi.FlagExternal | scoreapi.FlagPayable | scoreapi.FlagIsolated, Indexed: 1,
		Inputs: []scoreapi.Parameter{{Name: "p", Type: scoreapi.String}}},
	// callees of the harness asynchronous contract
	{Type: scoreapi.Function, Name: "ro", Flags: scoreapi.FlagExternal | scoreapi.FlagReadOnly, Indexed: 1,
		Inputs: []scoreapi.Parameter{{Name: "p", Type: scoreapi.String}}},
	{Type: scoreapi.Function, Name: "cw", Flags: scoreapi.FlagExternal, Indexed: 1,
		Inputs: []scoreapi.Parameter{{Name: "p", Type: scoreapi.String}}},
})

func (s *harnessScore) GetAPI() *scoreapi.Info { return harnessAPI }

func (s *harnessScore) Ex_wld(p string) error { return runProgram(s.cc, strings.Split(p, ";")) }
func (s *harnessScore) Ex_iso(p string) error { return runProgram(s.cc, strings.Split(p, ";")) }
func (s *harnessScore) Ex_ro(p string) error  { return s.callee(p) }
func (s *harnessScore) Ex_cw(p string) error  { return s.callee(p) }

// callee of the asynchronous writer: answers ok, reverts, or reports the status an
// execution engine reports when the call ran out of time.
func (s *harnessScore) callee(p string) error {
	x := curExec
	idx := int(s.cc.TransactionInfo().Index)
	x.yield(idx, x.currentAttempt(idx), "callee")
	switch p {
	case "to":
		return scoreresult.TimeoutError.New("execsim: callee ran out of time")
	case "rv":
		return scoreresult.RevertedError.New("execsim: callee reverts")
	}
	return nil
}

// runProgram interprets a harness program in the current frame of cc (the frame of
// the harness SCORE, or of the asynchronous writer): it works on the harness SCORE
// account's storage and balance.
func runProgram(cc contract.CallContext, parts []string) error {
	x := curExec
	idx := int(cc.TransactionInfo().Index)
	w := x.w
	attempt := x.currentAttempt(idx)
	as := cc.GetAccountState(scoreAddr.ID())
	acc := int64(0)
	for i, part := range parts {
		x.yield(idx, attempt, fmt.Sprintf("s%d", i))
		switch part {
		case "ok":
			return nil
		case "rv":
			return scoreresult.RevertedError.New("execsim: revert after mutation")
		case "os":
			for cc.ApplySteps(state.StepTypeSet, 1000) {
			}
			return scoreresult.ErrOutOfStep
		case "bc": // inter-call to a contract that does not exist
			h, err := cc.ContractManager().GetCallHandler(scoreAddr, fixedAddr(true, 0xdd, 0), new(big.Int), contract.CTypeTransfer, nil)
			if err != nil {
				return err
			}
			status, _, _, _ := cc.Call(h, cc.StepAvailable())
			if status == nil {
				return scoreresult.UnknownFailureError.New("execsim: invalid inter-call unexpectedly succeeded")
			}
			return status
		case "pn":
			panic("execsim: harness SCORE panics after mutation")
		}
		switch part[0] {
		case 's', 'a', 'g':
			if !cc.ApplySteps(state.StepTypeSet, 1) {
				return scoreresult.ErrOutOfStep
			}
			sep := strings.IndexAny(part, "=+")
			if sep < 0 {
				sep = len(part)
			}
			k, _ := strconv.Atoi(part[1:sep])
			db := scoredb.NewVarDB(as, scoreKey(k))
			switch part[0] {
			case 's':
				v, _ := strconv.ParseInt(part[sep+1:], 10, 64)
				if err := db.Set(v); err != nil {
					return err
				}
			case 'a':
				v, _ := strconv.ParseInt(part[sep+1:], 10, 64)
				if err := db.Set(db.Int64() + v); err != nil {
					return err
				}
			case 'g':
				acc = acc*31 + db.Int64()
				cc.OnEvent(scoreAddr, [][]byte{[]byte(scoreEventSig), big.NewInt(int64(k)).Bytes()}, [][]byte{big.NewInt(acc).Bytes()})
			}
		case 'e':
			if !cc.ApplySteps(state.StepTypeLog, 1) {
				return scoreresult.ErrOutOfStep
			}
			v, _ := strconv.ParseInt(part[1:], 10, 64)
			cc.OnEvent(scoreAddr, [][]byte{[]byte(scoreEventSig), big.NewInt(v).Bytes()}, [][]byte{big.NewInt(v + 1).Bytes()})
		case 'm':
			cc.OnBTPMessage(1, []byte("execsim"))
		case 'd':
			// debit the caller beyond the value it sent (what staking-style system calls do): everything but
			// `keep` units of its balance moves to the SCORE. If what is left cannot pay the fee, the
			// transaction fails at fee time, after a successful execution.
			keep, _ := strconv.ParseInt(part[1:], 10, 64)
			from := cc.GetAccountState(cc.TransactionInfo().From.ID())
			bal := from.GetBalance()
			if amt := new(big.Int).Sub(bal, big.NewInt(keep)); amt.Sign() > 0 {
				from.SetBalance(big.NewInt(keep))
				as.SetBalance(new(big.Int).Add(as.GetBalance(), amt))
			}
		case 't':
			c := strings.IndexByte(part, ':')
			ri, _ := strconv.Atoi(part[1:c])
			v, _ := strconv.ParseInt(part[c+1:], 10, 64)
			to := w.recipient(ri)
			h, err := cc.ContractManager().GetCallHandler(scoreAddr, to, big.NewInt(v), contract.CTypeTransfer, nil)
			if err != nil {
				return err
			}
			status, _, _, _ := cc.Call(h, cc.StepAvailable())
			if status != nil {
				return status
			}
		}
	}
	return nil
}
