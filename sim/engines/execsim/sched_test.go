package execsim

import (
	"bytes"
	"fmt"
	"os"
	"runtime"
	"runtime/metrics"
	"sort"
	"strconv"
	"strings"
	"sync"

	"github.com/icon-project/goloop/module"

	"verif/sim/kit"
)

// Scheduling mechanism 3.6(c) of DESIGN.md.
//
// Transaction goroutines (created by executeTxsConcurrent) park in harness code
// at yield points. The driver (the goroutine that called Run) waits until every
// goroutine created since the execution started is blocked (decided by
// runtime.Stack introspection; workers run with GOMAXPROCS=1), logs what
// happened since the last quiescence in transaction-index order, and releases
// exactly one parked goroutine chosen by the tape.

// dispatcherTask is the key under which the dispatcher goroutine of
// executeTxsConcurrent parks (in the harness' Prepare wrappers).
const dispatcherTask = -1

func taskName(k int) string {
	if k == dispatcherTask {
		return "D"
	}
	return fmt.Sprintf("t%d", k)
}

// schedList decorates the block's transaction list: the dispatcher loop of
// executeTxsConcurrent asks it for the next transaction (Has) right after it has
// started the previous transaction's goroutine, and parks there. So the dispatcher
// is a scheduled task like any transaction goroutine, and at most one goroutine at a
// time is in its unchosen start-up window (which takes its own virtual state's
// mutex, as the dispatcher's next GetFuture / final Realize do).
type schedList struct {
	module.TransactionList
	x *execCtx
}

func (l *schedList) Iterator() module.TransactionIterator {
	return &schedIter{TransactionIterator: l.TransactionList.Iterator(), x: l.x}
}

type schedIter struct {
	module.TransactionIterator
	x *execCtx
	n int
}

func calledFrom(fn string) bool {
	var pcs [8]uintptr
	n := runtime.Callers(3, pcs[:])
	frames := runtime.CallersFrames(pcs[:n])
	for {
		f, more := frames.Next()
		if strings.HasSuffix(f.Function, fn) {
			return true
		}
		if !more {
			return false
		}
	}
}

func (i *schedIter) Has() bool {
	if i.x.active && calledFrom(".executeTxsConcurrent") {
		i.x.yield(dispatcherTask, 0, fmt.Sprintf("next%d", i.n))
		i.n++
	}
	return i.TransactionIterator.Has()
}

type park struct {
	ch      chan struct{}
	label   string
	attempt int
}

type execCtx struct {
	name   string
	active bool // false: yields are no-ops (sequential reference execution)
	level  int

	mu     sync.Mutex
	parked map[int]*park
	notes  map[int][]string
	recs   []*txRec

	// driver-only
	rc           *kit.RunCtx
	baseline     map[uint64]bool
	self         uint64
	stackBuf     []byte
	steps        int
	maxPark      int
	waited       bool
	commitWaited bool // a transaction's Commit() had to wait for the predecessor of an account it never accessed
	w            *world

	// starvation: from its (grace+1)-th turn on, the victim transaction is only
	// released when nothing else can run; produces long-delayed predecessors
	victim     int // transaction index, -1 = none
	grace      int
	victimRuns int
	starved    bool

	gids map[uint64]int // goroutine id -> task (transaction index or dispatcherTask), learnt at the first harness yield

	// cancellation: the execution is cancelled at this scheduling step (-1 = never)
	lockYields int
	cancelAt   int
	cancelDone bool
	cancelOK   bool // the canceler returned true: no callback may follow
}

// curExec is the execution the harness SCORE belongs to (its instances are
// created by goloop's contract manager, which knows nothing about the harness).
// Executions never overlap.
var curExec *execCtx

var debugStacks = os.Getenv("EXECSIM_DEBUG") != ""

func newExecCtx(rc *kit.RunCtx, name string, active bool, level, ntx int) *execCtx {
	x := &execCtx{name: name, active: active, level: level, rc: rc, victim: -1, cancelAt: -1,
		parked: map[int]*park{}, notes: map[int][]string{}}
	x.recs = make([]*txRec, ntx)
	for i := range x.recs {
		x.recs[i] = &txRec{}
	}
	return x
}

// note records something a transaction goroutine did; flushed by the driver at
// the next quiescence in transaction-index order.
func (x *execCtx) note(tx int, format string, args ...any) {
	if !x.active {
		return
	}
	s := fmt.Sprintf(format, args...)
	x.mu.Lock()
	x.notes[tx] = append(x.notes[tx], s)
	x.mu.Unlock()
}

// yield parks the calling transaction goroutine until the driver releases it.
func (x *execCtx) yield(tx, attempt int, label string) {
	if !x.active {
		return
	}
	p := &park{ch: make(chan struct{}), label: label, attempt: attempt}
	gid := goid()
	x.mu.Lock()
	if x.gids == nil {
		x.gids = map[uint64]int{}
	}
	x.gids[gid] = tx // lock sites of instrumented goloop code reached by this goroutine are scheduling points of this task
	if x.parked[tx] != nil {
		x.mu.Unlock()
		panic(fmt.Sprintf("execsim: transaction %d parked twice", tx))
	}
	x.parked[tx] = p
	x.mu.Unlock()
	<-p.ch
}

// lockSiteYield is installed as common.SimAcquireHook while a scheduled execution runs: every mutex
// acquisition in the instrumented files (kit.EngineInstrument: service/transition_pe.go - the error latch the
// workers and the dispatcher share) by a goroutine the scheduler knows is a scheduling point of that
// goroutine's task. Lock ownership needs no modelling here: a released goroutine that then blocks on a real
// mutex is seen as blocked by the goroutine-state introspection.
func lockSiteYield(l interface{}, mode byte, site string) {
	x := curExec
	if x == nil || !x.active {
		return
	}
	gid := goid()
	x.mu.Lock()
	tx, ok := x.gids[gid]
	x.mu.Unlock()
	if !ok {
		return
	}
	if insideMapWalk() {
		// Commit, applyLockRequests, Reset and GetSnapshot of the virtual state walk a Go map and call
		// into other virtual states from inside the walk: a scheduling point there would let the map's
		// iteration order decide which lock site a task reaches first (found by the determinism self-test)
		return
	}
	x.lockYields++
	x.yield(tx, x.currentAttempt(tx), "lock@"+site)
}

var mapWalkers = []string{"worldVirtualState).Commit", "worldVirtualState).applyLockRequests", "worldVirtualState).Reset", "worldVirtualState).GetSnapshot"}

// insideMapWalk: is the lock site (the caller of common.SimAcquire) running below one of the map-walking
// functions? The site's own function does not count: the first lock of Commit itself stays a scheduling point.
func insideMapWalk() bool {
	var pcs [24]uintptr
	n := runtime.Callers(4, pcs[:]) // skip Callers, insideMapWalk, lockSiteYield, common.SimAcquire
	frames := runtime.CallersFrames(pcs[:n])
	first := true
	for {
		f, more := frames.Next()
		if !first {
			for _, w := range mapWalkers {
				if strings.HasSuffix(f.Function, w) {
					return true
				}
			}
		}
		first = false
		if !more {
			return false
		}
	}
}

func goid() uint64 {
	var b [64]byte
	n := runtime.Stack(b[:], false)
	// "goroutine 123 [running]:"
	f := bytes.Fields(b[:n])
	id, _ := strconv.ParseUint(string(f[1]), 10, 64)
	return id
}

type gstate struct {
	id         uint64
	state      string
	waitAcc    bool // blocked in getAccountStateInLock/Commit waiting for a predecessor's commit
	waitCommit bool // ... specifically inside Commit()
}

func (x *execCtx) snapshot() []gstate {
	if x.stackBuf == nil {
		x.stackBuf = make([]byte, 1<<18)
	}
	var n int
	for {
		n = runtime.Stack(x.stackBuf, true)
		if n < len(x.stackBuf) {
			break
		}
		x.stackBuf = make([]byte, 2*len(x.stackBuf))
	}
	buf := x.stackBuf[:n]
	var out []gstate
	for len(buf) > 0 {
		// buf starts at a "goroutine N [state...]:" header
		nl := bytes.IndexByte(buf, '\n')
		var line []byte
		if nl < 0 {
			line = buf
		} else {
			line = buf[:nl]
		}
		if bytes.HasPrefix(line, []byte("goroutine ")) {
			rest := line[len("goroutine "):]
			sp := bytes.IndexByte(rest, ' ')
			lb := bytes.IndexByte(rest, '[')
			rb := bytes.LastIndexByte(rest, ']')
			if sp > 0 && lb > 0 && rb > lb {
				id, _ := strconv.ParseUint(string(rest[:sp]), 10, 64)
				st := string(rest[lb+1 : rb])
				if c := strings.IndexByte(st, ','); c >= 0 {
					st = st[:c]
				}
				chunk := buf
				if e := bytes.Index(buf, []byte("\n\ngoroutine ")); e >= 0 {
					chunk = buf[:e]
				}
				wa := st == "sync.Cond.Wait" && (bytes.Contains(chunk, []byte("getAccountStateInLock")) || bytes.Contains(chunk, []byte("worldVirtualState).Commit(")))
				wc := st == "sync.Cond.Wait" && bytes.Contains(chunk, []byte("worldVirtualState).Commit("))
				out = append(out, gstate{id, st, wa, wc})
			}
		}
		next := bytes.Index(buf, []byte("\n\ngoroutine "))
		if next < 0 {
			break
		}
		buf = buf[next+2:]
	}
	return out
}

// blocked states: a goroutine in one of these cannot make progress until some
// other goroutine of the run (or the driver) acts. Nothing in this engine is
// woken by timers or I/O.
var blockedState = map[string]bool{
	"chan receive":            true,
	"chan send":               true,
	"select":                  true,
	"select (no cases)":       true,
	"sync.Cond.Wait":          true,
	"sync.Mutex.Lock":         true,
	"sync.RWMutex.RLock":      true,
	"sync.RWMutex.Lock":       true,
	"sync.WaitGroup.Wait":     true,
	"semacquire":              true,
	"chan receive (nil chan)": true,
	"chan send (nil chan)":    true,
}

func (x *execCtx) markBaseline() {
	x.self = goid()
	x.baseline = map[uint64]bool{}
	for _, g := range x.snapshot() {
		x.baseline[g.id] = true
	}
}

var schedSamples = []metrics.Sample{
	{Name: "/sched/goroutines/runnable:goroutines"},
	{Name: "/sched/goroutines/not-in-go:goroutines"},
}

// cheapBusy is a fast negative filter in front of the stack snapshot: the
// scheduler's own counters (exact enough at GOMAXPROCS=1) say whether anything
// is runnable or in a system call. "Not busy" is never trusted; it is always
// confirmed by the goroutine-state snapshot below.
func cheapBusy() bool {
	metrics.Read(schedSamples)
	for _, sm := range schedSamples {
		if sm.Value.Kind() == metrics.KindUint64 && sm.Value.Uint64() > 0 {
			return true
		}
	}
	return false
}

// settle returns when every goroutine created since markBaseline is blocked.
func (x *execCtx) settle() {
	for spins := 0; ; spins++ {
		runtime.Gosched()
		if spins > 5_000_000 {
			panic("execsim: run does not settle (a goroutine stays runnable)")
		}
		if cheapBusy() {
			continue
		}
		busy, cond := false, false
		for _, g := range x.snapshot() {
			if g.id == x.self || x.baseline[g.id] {
				continue
			}
			if !blockedState[g.state] {
				busy = true
				break
			}
			if g.waitAcc {
				cond = true
			}
			if g.waitCommit {
				x.commitWaited = true
			}
		}
		if !busy {
			if cond {
				x.waited = true // somebody waits for a predecessor's commit
			}
			return
		}
	}
}

type execOutcome struct {
	validateErr error
	execErr     error
	finished    bool
	deadlock    bool
	deadlockAt  string
	deadlockSig string
}

// drive executes tr under the scheduler and returns how it ended.
func (x *execCtx) drive(tr module.Transition) execOutcome {
	rc := x.rc
	var out execOutcome
	cb := newExecCB()
	curExec = x
	x.markBaseline()
	canceler, err := tr.Execute(cb)
	if err != nil {
		out.execErr = err
		out.finished = true
		return out
	}
	validated := false
	for {
		x.settle()
		x.flushNotes()
		if x.cancelAt >= 0 && !x.cancelDone && x.steps >= x.cancelAt && !out.finished {
			// the block manager gives the execution up (e.g. the consensus round moved on) at this very
			// scheduling point; whatever is already running winds down
			x.cancelDone = true
			x.cancelOK = canceler()
			rc.Event("%s CANCEL at step %d -> %v", x.name, x.steps, x.cancelOK)
		}
		if debugStacks {
			d, _ := x.describeBlocked()
			rc.Event("DEBUG %s", d)
		}
		if !validated {
			select {
			case err := <-cb.validated:
				validated = true
				if err != nil {
					out.validateErr = err
					out.finished = true
				}
			default:
			}
		}
		if !out.finished {
			select {
			case err := <-cb.executed:
				out.execErr = err
				out.finished = true
			default:
			}
		}
		keys := x.parkedKeys()
		if out.finished || x.cancelOK {
			// drain: goroutines that were already dispatched when the block failed
			if len(keys) == 0 {
				return out
			}
			x.release(keys[0])
			continue
		}
		if len(keys) == 0 {
			out.deadlock = true
			out.deadlockAt, out.deadlockSig = x.describeBlocked()
			rc.Event("%s DEADLOCK", x.name)
			return out
		}
		ntx := len(keys)
		if keys[0] == dispatcherTask {
			ntx--
		}
		if ntx > x.maxPark {
			x.maxPark = ntx // most transaction goroutines ever competing for one decision
		}
		var sb strings.Builder
		x.mu.Lock()
		for _, k := range keys {
			p := x.parked[k]
			fmt.Fprintf(&sb, " %s@%s", taskName(k), p.label)
			if p.attempt > 0 {
				fmt.Fprintf(&sb, "#%d", p.attempt)
			}
		}
		x.mu.Unlock()
		cands := keys
		if x.victim >= 0 && x.victimRuns > x.grace && len(keys) > 1 {
			cands = make([]int, 0, len(keys))
			for _, k := range keys {
				if k != x.victim {
					cands = append(cands, k)
				}
			}
			if len(cands) < len(keys) {
				x.starved = true
			}
		}
		pick := 0
		if len(cands) > 1 {
			pick = rc.Tape.Choose("sched", len(cands))
		}
		if cands[pick] == x.victim {
			x.victimRuns++
		}
		rc.Event("%s Q%s -> %s", x.name, sb.String(), taskName(cands[pick]))
		x.steps++
		rc.Steps++
		x.release(cands[pick])
	}
}

func (x *execCtx) parkedKeys() []int {
	x.mu.Lock()
	defer x.mu.Unlock()
	keys := make([]int, 0, len(x.parked))
	for k := range x.parked {
		keys = append(keys, k)
	}
	sort.Ints(keys)
	return keys
}

func (x *execCtx) release(k int) {
	x.mu.Lock()
	p := x.parked[k]
	delete(x.parked, k)
	x.mu.Unlock()
	close(p.ch)
}

func (x *execCtx) flushNotes() {
	x.mu.Lock()
	keys := make([]int, 0, len(x.notes))
	for k := range x.notes {
		keys = append(keys, k)
	}
	sort.Ints(keys)
	var lines []string
	for _, k := range keys {
		for _, s := range x.notes[k] {
			lines = append(lines, fmt.Sprintf("%s %s %s", x.name, taskName(k), s))
		}
		delete(x.notes, k)
	}
	x.mu.Unlock()
	for _, l := range lines {
		x.rc.Event("%s", l)
	}
}

// describeBlocked summarises where the goroutines of the run are stuck (for the
// violation detail and signature only; never logged as an event). The signature
// is the set of goloop frames at which goroutines are stuck other than in a
// wait for a predecessor's commit (those are the victims, not the cause).
func (x *execCtx) describeBlocked() (detail, sig string) {
	buf := make([]byte, 1<<20)
	n := runtime.Stack(buf, true)
	var sb strings.Builder
	var entries []string
	roots := map[string]bool{}
	all := map[string]bool{}
	for _, g := range strings.Split(string(buf[:n]), "\n\n") {
		lines := strings.Split(g, "\n")
		if len(lines) < 2 {
			continue
		}
		var id uint64
		fmt.Sscanf(lines[0], "goroutine %d ", &id)
		if id == x.self || x.baseline[id] {
			continue
		}
		// first goloop frame
		fn := ""
		for _, l := range lines[1:] {
			if strings.HasPrefix(l, "github.com/icon-project/goloop/") {
				fn = l
				if p := strings.LastIndex(fn, "("); p > 0 {
					fn = fn[:p]
				}
				break
			}
		}
		fn = strings.TrimPrefix(fn, "github.com/icon-project/goloop/")
		st := lines[0]
		if i := strings.IndexByte(st, '['); i >= 0 {
			st = st[i:]
		}
		entries = append(entries, fmt.Sprintf("%s %s; ", st, fn))
		if fn != "" {
			all[fn] = true
			// victims: whoever waits for a commit, for a mutex somebody else holds, or (the dispatcher) for a free slot
			victim := strings.Contains(st, "sync.Cond.Wait") || strings.Contains(st, "sync.Mutex.Lock") ||
				strings.HasSuffix(fn, "executionContext).Ready")
			if !victim {
				roots[fn] = true
			}
		}
	}
	if len(roots) == 0 {
		roots = all
	}
	sort.Strings(entries)
	for _, e := range entries {
		sb.WriteString(e)
	}
	return sb.String(), strings.Join(kit.SortedKeys(roots), "+")
}
