package execsim

import (
	"encoding/json"
	"fmt"
	"math/big"
	"strings"

	"github.com/icon-project/goloop/common"
	"github.com/icon-project/goloop/common/codec"
	"github.com/icon-project/goloop/common/log"
	"github.com/icon-project/goloop/module"
	"github.com/icon-project/goloop/service/contract"
	"github.com/icon-project/goloop/service/eeproxy"
	"github.com/icon-project/goloop/service/scoreresult"
	"github.com/icon-project/goloop/service/state"
)

// The harness asynchronous contract ("writer").
//
// A native system SCORE is invoked synchronously and can only make nested
// cc.Call()s, for which the frame being unwound and the innermost frame are
// always the same. Contracts run by an execution engine work differently:
// their handler returns from ExecuteAsync, the engine later sends OnCall /
// OnResult messages, and the callee's frame is pushed by the caller's
// waitResult loop. The writer reproduces that shape without an execution
// engine: a harness AsyncContractHandler (returned by a decorator of the
// contract manager for calls to asyncAddr) mutates state in its own frame
// (storage and balance of the harness SCORE account, event logs, BTP messages),
// then sends cc.OnCall for a REAL CallHandler of a read-only or writable method
// of the harness system SCORE, which answers ok / revert / "timeout" (the status
// an execution engine reports for a call that ran out of time). Result handling
// (handleResult, popFrame, cleanUpFrames, fee charge, receipt) is goloop's.

var asyncAddr = fixedAddr(true, 0xa5, 0)

const (
	calleeRoOK = iota
	calleeRoTimeout
	calleeRwTimeout
	calleeRoRevert
	calleeRwOK
)

var calleeNames = []string{"ro:ok", "ro:to", "cw:to", "ro:rv", "cw:ok"}

type harnessCM struct{ contract.ContractManager }

type asyncCallData struct {
	Method string `json:"method"`
	Params struct {
		P string `json:"p"`
		C string `json:"c"`
	} `json:"params"`
}

func (m harnessCM) GetHandler(from, to module.Address, value *big.Int, ctype int, data []byte) (contract.ContractHandler, error) {
	if ctype == contract.CTypeCall && to.Equal(asyncAddr) {
		var d asyncCallData
		if err := json.Unmarshal(data, &d); err != nil {
			return nil, scoreresult.InvalidParameterError.Wrap(err, "execsim: bad writer call data")
		}
		return &asyncWriter{
			CommonHandler: contract.NewCommonHandler(from, to, value, false, m.Logger()),
			prog:          d.Params.P, callee: d.Params.C,
		}, nil
	}
	return m.ContractManager.GetHandler(from, to, value, ctype, data)
}

type asyncWriter struct {
	*contract.CommonHandler
	eeproxy.CallContext // never used (no execution engine); present to satisfy AsyncContractHandler
	prog, callee        string
	cc                  contract.CallContext
}

func (h *asyncWriter) Logger() log.Logger { return h.CommonHandler.Logger() }

func (h *asyncWriter) Prepare(ctx contract.Context) (state.WorldContext, error) {
	return ctx.GetFuture([]state.LockRequest{{ID: state.WorldIDStr, Lock: state.AccountWriteLock}}), nil
}

func (h *asyncWriter) EEType() state.EEType { return state.SystemEE }
func (h *asyncWriter) Dispose()             {}

func (h *asyncWriter) ExecuteAsync(cc contract.CallContext) error {
	h.cc = cc
	if !cc.ApplySteps(state.StepTypeContractCall, 1) {
		return scoreresult.ErrOutOfStep
	}
	if h.prog != "" {
		if err := runProgram(cc, strings.Split(h.prog, ";")); err != nil {
			return err
		}
	}
	x := curExec
	idx := int(cc.TransactionInfo().Index)
	x.yield(idx, x.currentAttempt(idx), "call")
	mp := strings.SplitN(h.callee, ":", 2)
	data := common.MustEncodeAny(map[string]interface{}{
		"method": mp[0],
		"params": map[string]interface{}{"p": mp[1]},
	})
	sub, err := cc.ContractManager().GetCallHandler(asyncAddr, scoreAddr, new(big.Int), contract.CTypeCall, data)
	if err != nil {
		return err
	}
	// as an execution engine would: ask the call context to run the callee; its
	// frame is pushed by the waitResult loop that waits for this frame's result
	cc.OnCall(sub, cc.StepAvailable())
	return nil
}

// SendResult: the callee returned (normally or with a failure status handled by popFrame).
func (h *asyncWriter) SendResult(status error, steps *big.Int, result *codec.TypedObj) error {
	x := curExec
	idx := int(h.cc.TransactionInfo().Index)
	x.yield(idx, x.currentAttempt(idx), "ret")
	// the writer ends with whatever its callee ended with
	h.cc.OnResult(status, 0, steps, nil, nil)
	return nil
}

func (s *txSpec) asyncString() string {
	return fmt.Sprintf("writer e%d limit=%d p=%s callee=%s %v", s.from, s.stepLimit, encodeOps(s.prog), calleeNames[s.callee], s.inj)
}
