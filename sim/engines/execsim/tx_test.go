package execsim

import (
	"bytes"
	"encoding/binary"
	"encoding/json"
	"fmt"
	"math/big"
	"sync"

	"github.com/icon-project/goloop/common"
	"github.com/icon-project/goloop/common/crypto"
	"github.com/icon-project/goloop/common/db"
	"github.com/icon-project/goloop/common/errors"
	"github.com/icon-project/goloop/common/log"
	"github.com/icon-project/goloop/common/merkle"
	"github.com/icon-project/goloop/common/trie"
	"github.com/icon-project/goloop/module"
	"github.com/icon-project/goloop/service/contract"
	"github.com/icon-project/goloop/service/state"
	"github.com/icon-project/goloop/service/transaction"
	"github.com/icon-project/goloop/service/txresult"
)

// ---- harness-level description of a block (independent of goloop types) ----

type txKind int

const (
	kTransfer txKind = iota // v3 transfer or message
	kScore                  // v3 call into the harness system SCORE
	kScript                 // scripted transaction (own factory, own handler)
)

const (
	injRetryable = iota // errors.ExecutionFailError
	injRerun            // errors.CriticalRerunError
	injFatal            // non-retryable
)

// inject describes a handler error (a "system failure", not a transaction failure).
type inject struct {
	at   int // scripted: before op index at (len(ops) = after the last op); real tx: 0 before, 1 after the real handler ran
	kind int
	k    int // the first k attempts fail; k < 0: every attempt fails
}

func (j *inject) hits(attempt int) bool { return j != nil && (j.k < 0 || attempt < j.k) }

func (j *inject) fatal() bool { return j != nil && (j.kind == injFatal || j.k < 0) }

func (j *inject) err() error {
	switch j.kind {
	case injRetryable:
		return errors.ExecutionFailError.New("execsim: injected execution failure")
	case injRerun:
		return errors.CriticalRerunError.New("execsim: injected rerun request")
	default:
		return errors.InvalidStateError.New("execsim: injected non-retryable handler error")
	}
}

func (j *inject) String() string {
	if j == nil {
		return "-"
	}
	return fmt.Sprintf("inj(at=%d kind=%d k=%d)", j.at, j.kind, j.k)
}

type sop struct {
	write bool
	cell  int
}

const (
	lockNone = iota
	lockRead
	lockWrite
)

type scriptSpec struct {
	world int         // lockNone / lockRead / lockWrite on the whole world
	locks map[int]int // cell -> lockRead/lockWrite (declared)
	order []int       // declaration order of the locks
	ops   []sop
	seed  uint64
	abort bool // fails (failed receipt) right after it started, before any access
}

type scoreOp struct {
	op  byte // 's' set, 'a' add, 'e' event, 't' transfer out, 'm' btp message, 'g' get (read a key into the accumulator and log it)
	key int
	val int64
	to  int // index into the recipient universe for 't'
}

const (
	endOK = iota
	endRevert
	endOutOfStep
	endBadCall
	endPanic
)

type txSpec struct {
	kind      txKind
	from      int // index into world.eoas
	to        *common.Address
	toName    string
	value     *big.Int
	stepLimit int64
	msg       []byte
	isolated  bool
	prog      []scoreOp
	end       int
	script    *scriptSpec
	inj       *inject
	lazy      bool // wrapper neither touches nor observes the declared accounts up front (only the payer)
	async     bool // kScore: harness asynchronous contract (writer) that inter-calls the harness SCORE
	callee    int  // async: what the callee does
}

func (s *txSpec) String() string {
	switch s.kind {
	case kTransfer:
		return fmt.Sprintf("transfer e%d->%s v=%v limit=%d msg=%d lazy=%v %v", s.from, s.toName, s.value, s.stepLimit, len(s.msg), s.lazy, s.inj)
	case kScore:
		if s.async {
			return s.asyncString()
		}
		m := "wld"
		if s.isolated {
			m = "iso"
		}
		return fmt.Sprintf("score.%s e%d v=%v limit=%d p=%s %v", m, s.from, s.value, s.stepLimit, encodeProg(s.prog, s.end), s.inj)
	default:
		sc := s.script
		var b bytes.Buffer
		if sc.abort {
			b.WriteString("abort ")
		}
		fmt.Fprintf(&b, "script world=%d locks=", sc.world)
		for _, c := range sc.order {
			fmt.Fprintf(&b, "c%d:%d,", c, sc.locks[c])
		}
		b.WriteString(" ops=")
		for _, o := range sc.ops {
			if o.write {
				fmt.Fprintf(&b, "w%d ", o.cell)
			} else {
				fmt.Fprintf(&b, "r%d ", o.cell)
			}
		}
		fmt.Fprintf(&b, "%v", s.inj)
		return b.String()
	}
}

// ---- what the harness observes per transaction --------------------------------

type acctObs struct {
	balance *big.Int
	store   []int64 // SCORE account: values of the known keys
}

type attemptRec struct {
	reads    []int64
	injected bool
	pre      map[string]*acctObs
	post     map[string]*acctObs
	rct      txresult.Receipt
	err      error
}

type txRec struct {
	attempts []*attemptRec
	prepared int
}

func mix(acc uint64, v int64) uint64 {
	acc = acc*1099511628211 + uint64(v)*31 + 7
	return acc & ((1 << 62) - 1)
}

// ---- wrapper around real v3 transactions ---------------------------------------

type wrapTx struct {
	transaction.Transaction
	x        *execCtx
	idx      int
	spec     *txSpec
	w        *world
	mu       sync.Mutex
	attempts int
}

func (t *wrapTx) obj() trie.Object                    { return t.Transaction.(trie.Object) }
func (t *wrapTx) Reset(s db.Database, k []byte) error { return t.obj().Reset(s, k) }
func (t *wrapTx) Flush() error                        { return t.obj().Flush() }
func (t *wrapTx) Resolve(b merkle.Builder) error      { return t.obj().Resolve(b) }
func (t *wrapTx) ClearCache()                         { t.obj().ClearCache() }
func (t *wrapTx) Equal(o trie.Object) bool {
	if o2, ok := o.(module.Transaction); ok {
		return bytes.Equal(o2.ID(), t.ID())
	}
	return false
}

func (t *wrapTx) GetHandler(cm contract.ContractManager) (transaction.Handler, error) {
	h, err := t.Transaction.GetHandler(cm)
	if err != nil {
		return nil, err
	}
	return &wrapHandler{inner: h, tx: t}, nil
}

type wrapHandler struct {
	inner transaction.Handler
	tx    *wrapTx
}

func (h *wrapHandler) Prepare(ctx contract.Context) (state.WorldContext, error) {
	h.tx.x.recs[h.tx.idx].prepared++
	return h.inner.Prepare(ctx)
}

func (h *wrapHandler) Dispose() { h.inner.Dispose() }

func (h *wrapHandler) Execute(ctx contract.Context, wcs state.WorldSnapshot, estimate bool) (txresult.Receipt, error) {
	t := h.tx
	x := t.x
	t.mu.Lock()
	attempt := t.attempts
	t.attempts++
	t.mu.Unlock()
	ar := &attemptRec{}
	x.mu.Lock()
	x.recs[t.idx].attempts = append(x.recs[t.idx].attempts, ar)
	x.mu.Unlock()

	x.yield(t.idx, attempt, "start")
	if t.spec.inj.hits(attempt) && t.spec.inj.at == 0 {
		ar.injected = true
		ar.err = t.spec.inj.err()
		x.note(t.idx, "attempt %d: injected handler error before execution", attempt)
		return nil, ar.err
	}
	// touch the declared accounts one by one, yielding after each call: a wait for a
	// predecessor's commit then ends at a yield point, and the real handler below
	// runs as one chosen step instead of in the unchosen tail of such a wait
	if !t.spec.lazy {
		for k, a := range t.w.touchSet(t.spec) {
			_ = ctx.GetAccountState(a.id())
			x.yield(t.idx, attempt, fmt.Sprintf("a%d+", k))
		}
	}
	ar.pre = t.w.observe(ctx, t.spec)
	rct, err := h.inner.Execute(ctx, wcs, estimate)
	ar.rct, ar.err = rct, err
	if err == nil {
		ar.post = t.w.observe(ctx, t.spec)
		x.note(t.idx, "attempt %d: executed status=%d used=%v price=%v", attempt, rct.Status(), rct.StepUsed(), rct.StepPrice())
	} else {
		x.note(t.idx, "attempt %d: handler error code=%d", attempt, errors.CodeOf(err))
	}
	x.yield(t.idx, attempt, "end")
	if err == nil && t.spec.inj.hits(attempt) {
		ar.injected = true
		ar.err = t.spec.inj.err()
		x.note(t.idx, "attempt %d: injected handler error after execution", attempt)
		return nil, ar.err
	}
	return rct, err
}

// ---- scripted transactions -------------------------------------------------------

type scriptJSON struct {
	Type  string   `json:"type"`
	Idx   int      `json:"idx"`
	Seed  uint64   `json:"seed"`
	World int      `json:"world"`
	Locks [][2]int `json:"locks"`
	Ops   [][2]int `json:"ops"`
	TS    int64    `json:"ts"`
	Abort bool     `json:"abort,omitempty"`
}

const scriptType = "execsim-script"

type scriptTx struct {
	js       scriptJSON
	raw      []byte
	id       []byte
	x        *execCtx
	idx      int
	spec     *txSpec
	w        *world
	mu       sync.Mutex
	attempts int
}

func newScriptTx(w *world, x *execCtx, idx int, spec *txSpec, ts int64) *scriptTx {
	sc := spec.script
	js := scriptJSON{Type: scriptType, Idx: idx, Seed: sc.seed, World: sc.world, TS: ts, Abort: sc.abort}
	for _, c := range sc.order {
		js.Locks = append(js.Locks, [2]int{c, sc.locks[c]})
	}
	for _, o := range sc.ops {
		wv := 0
		if o.write {
			wv = 1
		}
		js.Ops = append(js.Ops, [2]int{wv, o.cell})
	}
	raw, _ := json.Marshal(&js)
	return &scriptTx{js: js, raw: raw, id: crypto.SHA3Sum256(raw), x: x, idx: idx, spec: spec, w: w}
}

var scriptFrom = fixedAddr(false, 0xf0, 0)

func (t *scriptTx) Group() module.TransactionGroup { return module.TransactionGroupNormal }
func (t *scriptTx) ID() []byte                     { return t.id }
func (t *scriptTx) From() module.Address           { return scriptFrom }
func (t *scriptTx) Bytes() []byte                  { return t.raw }
func (t *scriptTx) Hash() []byte                   { return t.id }
func (t *scriptTx) Verify() error                  { return nil }
func (t *scriptTx) Version() int                   { return module.TransactionVersion3 }
func (t *scriptTx) ToJSON(module.JSONVersion) (interface{}, error) {
	var m map[string]interface{}
	err := json.Unmarshal(t.raw, &m)
	return m, err
}
func (t *scriptTx) ValidateNetwork(int) bool                   { return true }
func (t *scriptTx) PreValidate(state.WorldContext, bool) error { return nil }
func (t *scriptTx) Timestamp() int64                           { return t.js.TS }
func (t *scriptTx) Nonce() *big.Int                            { return nil }
func (t *scriptTx) To() module.Address                         { return scriptFrom }
func (t *scriptTx) IsSkippable() bool                          { return false }
func (t *scriptTx) Reset(s db.Database, k []byte) error        { return json.Unmarshal(k, &t.js) }
func (t *scriptTx) Flush() error                               { return nil }
func (t *scriptTx) Resolve(merkle.Builder) error               { return nil }
func (t *scriptTx) ClearCache()                                {}
func (t *scriptTx) Equal(o trie.Object) bool {
	if o2, ok := o.(module.Transaction); ok {
		return bytes.Equal(o2.ID(), t.ID())
	}
	return false
}
func (t *scriptTx) GetHandler(contract.ContractManager) (transaction.Handler, error) {
	if t.x == nil {
		return nil, errors.InvalidStateError.New("execsim: script transaction without a harness")
	}
	return &scriptHandler{t}, nil
}

type scriptHandler struct{ tx *scriptTx }

func (h *scriptHandler) Dispose() {}

func (h *scriptHandler) Prepare(ctx contract.Context) (state.WorldContext, error) {
	t := h.tx
	sc := t.spec.script
	var lq []state.LockRequest
	if sc.world != lockNone {
		lq = append(lq, state.LockRequest{ID: state.WorldIDStr, Lock: sc.world})
	}
	for _, c := range sc.order {
		lq = append(lq, state.LockRequest{ID: string(t.w.cfg.scripts[c].id()), Lock: sc.locks[c]})
	}
	t.x.recs[t.idx].prepared++
	return ctx.GetFuture(lq), nil
}

var cellKey = []byte("v")

func cellBytes(v uint64) []byte {
	var b [8]byte
	binary.BigEndian.PutUint64(b[:], v)
	return b[:]
}

func cellValue(bs []byte) int64 {
	if len(bs) != 8 {
		return 0
	}
	return int64(binary.BigEndian.Uint64(bs))
}

const scriptEventSig = "ScriptDone(int)"

func (h *scriptHandler) Execute(ctx contract.Context, wcs state.WorldSnapshot, estimate bool) (txresult.Receipt, error) {
	t := h.tx
	x := t.x
	sc := t.spec.script
	inj := t.spec.inj
	t.mu.Lock()
	attempt := t.attempts
	t.attempts++
	t.mu.Unlock()
	ar := &attemptRec{}
	x.mu.Lock()
	x.recs[t.idx].attempts = append(x.recs[t.idx].attempts, ar)
	x.mu.Unlock()

	x.yield(t.idx, attempt, "start")
	if sc.abort {
		x.note(t.idx, "attempt %d: aborts before any access", attempt)
		r := txresult.NewReceipt(ctx.Database(), ctx.Revision(), scriptFrom)
		r.SetResult(module.StatusReverted, new(big.Int), new(big.Int), nil)
		ar.rct = r
		return r, nil
	}
	acc := sc.seed
	for i, op := range sc.ops {
		if inj.hits(attempt) && inj.at == i {
			ar.injected = true
			ar.err = inj.err()
			x.note(t.idx, "attempt %d: injected handler error before op %d", attempt, i)
			return nil, ar.err
		}
		x.yield(t.idx, attempt, fmt.Sprintf("o%d", i))
		as := ctx.GetAccountState(t.w.cfg.scripts[op.cell].id())
		// yield again right after the world-state call returned, so that what runs
		// unchosen is only the tail of that one call
		x.yield(t.idx, attempt, fmt.Sprintf("o%d+", i))
		if as == nil {
			return nil, errors.CriticalUnknownError.Errorf("execsim: nil account state for declared cell %d", op.cell)
		}
		if op.write {
			acc = mix(acc, int64(i))
			if _, err := as.SetValue(cellKey, cellBytes(acc)); err != nil {
				return nil, errors.CriticalUnknownError.Wrapf(err, "execsim: SetValue cell %d", op.cell)
			}
			x.note(t.idx, "attempt %d: w c%d:=%d", attempt, op.cell, acc)
		} else {
			bs, err := as.GetValue(cellKey)
			if err != nil {
				return nil, errors.CriticalUnknownError.Wrapf(err, "execsim: GetValue cell %d", op.cell)
			}
			v := cellValue(bs)
			ar.reads = append(ar.reads, v)
			acc = mix(acc, v)
			x.note(t.idx, "attempt %d: r c%d=%d", attempt, op.cell, v)
		}
	}
	if inj.hits(attempt) && inj.at >= len(sc.ops) {
		ar.injected = true
		ar.err = inj.err()
		x.note(t.idx, "attempt %d: injected handler error after the last op", attempt)
		return nil, ar.err
	}
	x.yield(t.idx, attempt, "end")
	r := txresult.NewReceipt(ctx.Database(), ctx.Revision(), scriptFrom)
	r.AddLog(scriptFrom, [][]byte{[]byte(scriptEventSig), cellBytes(acc)}, nil)
	r.SetResult(module.StatusSuccess, new(big.Int), new(big.Int), nil)
	ar.rct = r
	return r, nil
}

// Factory: goloop's transaction list re-creates every element that is not its own
// *transaction type from the element's bytes through the registered factories
// (ompt getObject). The harness factory (priority before the v3 factory) hands
// back the harness object registered for exactly these bytes, so scripted
// transactions and the wrappers of real v3 transactions survive that round trip.
var regOnce sync.Once

var txRegistry = map[string]transaction.Transaction{}

func resetRegistry() { txRegistry = map[string]transaction.Transaction{} }

func registerTx(tx transaction.Transaction) { txRegistry[string(tx.Bytes())] = tx }

func registerOnce() {
	regOnce.Do(func() {
		// goloop's package-level logger writes debug lines to stderr (db.Writer, contract manager): silence it
		log.SetGlobalLogger(quietLogger())
		transaction.RegisterFactory(&transaction.Factory{
			Priority: 4,
			CheckJSON: func(jso map[string]interface{}) bool {
				v, ok := jso["type"]
				return ok && v == scriptType
			},
			ParseJSON: func(js []byte, jsm map[string]interface{}, raw bool) (transaction.Transaction, error) {
				if t, ok := txRegistry[string(js)]; ok {
					return t, nil
				}
				t := &scriptTx{raw: js, id: crypto.SHA3Sum256(js)}
				if err := json.Unmarshal(js, &t.js); err != nil {
					return nil, err
				}
				return t, nil
			},
			CheckBinary: func(bs []byte) bool {
				_, ok := txRegistry[string(bs)]
				return ok
			},
			ParseBinary: func(bs []byte) (transaction.Transaction, error) {
				if t, ok := txRegistry[string(bs)]; ok {
					return t, nil
				}
				return nil, errors.IllegalArgumentError.New("execsim: unknown transaction bytes")
			},
		})
		contract.RegisterSystemScore(scoreCID, &contract.SystemScoreModule{New: newHarnessScore})
	})
}
