package execsim

import (
	"fmt"
	"math/big"
	"sort"

	"github.com/icon-project/goloop/common"
	"github.com/icon-project/goloop/module"
	"github.com/icon-project/goloop/service/contract"
	"github.com/icon-project/goloop/service/scoredb"
	"github.com/icon-project/goloop/service/state"
)

// world: the account universe of a run and the harness' own view of it.
type world struct {
	cfg    *worldCfg
	recips []*acct // everybody a transfer can go to: eoas, then fresh accounts
	all    []*acct // every account whose balance the model tracks (recips + score + treasury)
}

func newWorld(cfg *worldCfg) *world {
	w := &world{cfg: cfg}
	w.recips = append(w.recips, cfg.eoas...)
	w.recips = append(w.recips, cfg.fresh...)
	w.all = append(w.all, w.recips...)
	w.all = append(w.all, &acct{name: "score", addr: scoreAddr}, &acct{name: "treasury", addr: treasuryAddr})
	return w
}

func (w *world) recipient(i int) *common.Address { return w.recips[i%len(w.recips)].addr }

func (w *world) nameOf(a module.Address) string {
	for _, x := range w.all {
		if x.addr.Equal(a) {
			return x.name
		}
	}
	return a.String()
}

type accountGetter interface {
	GetAccountState(id []byte) state.AccountState
}

func observeAccount(g accountGetter, a *acct) *acctObs {
	as := g.GetAccountState(a.id())
	if as == nil {
		return nil
	}
	o := &acctObs{balance: new(big.Int).Set(as.GetBalance())}
	if a.addr.Equal(scoreAddr) {
		o.store = make([]int64, nScoreKeys)
		for k := 0; k < nScoreKeys; k++ {
			o.store[k] = scoredb.NewVarDB(as, scoreKey(k)).Int64()
		}
	}
	return o
}

// touchSet: the accounts a fee-paying transaction declares (one is enough under the
// world lock, whose first access realizes the whole base).
func (w *world) touchSet(spec *txSpec) []*acct {
	set := []*acct{w.cfg.eoas[spec.from]}
	if spec.kind == kScore && !spec.isolated {
		return set
	}
	for _, a := range w.all {
		if a.addr.Equal(spec.to) && !a.addr.Equal(set[0].addr) {
			set = append(set, a)
		}
	}
	return set
}

// observe reads, through the transaction's own context, the accounts the
// transaction may touch under its lock declaration.
func (w *world) observe(ctx contract.Context, spec *txSpec) map[string]*acctObs {
	out := map[string]*acctObs{}
	var set []*acct
	if spec.kind == kScore && !spec.isolated {
		set = w.all[:len(w.all)-1] // everything but the treasury (credited at block end only)
	} else {
		set = append(set, w.cfg.eoas[spec.from])
		for _, a := range w.all {
			if a.addr.Equal(spec.to) && !a.addr.Equal(w.cfg.eoas[spec.from].addr) && !spec.lazy {
				set = append(set, a)
			}
		}
	}
	for _, a := range set {
		if o := observeAccount(ctx, a); o != nil {
			out[a.name] = o
		}
	}
	return out
}

// ---- the independent interpreter -------------------------------------------------
//
// Written from the property statements: a transaction with a result pays
// stepUsed*stepPrice; a successful one additionally moves its value and has the
// effects of its program; a failed one has no other effect. Scripted transactions
// read and write cells. Nothing here looks at goloop's step accounting or status
// decisions: stepUsed, stepPrice and the status are taken from the receipt and
// only their consequences are computed.

type modelState struct {
	bal   map[string]*big.Int // by account name
	store []int64             // SCORE storage
	cells []int64             // script cells
	fees  *big.Int
}

func (w *world) initialModel() *modelState {
	m := &modelState{bal: map[string]*big.Int{}, store: make([]int64, nScoreKeys), cells: make([]int64, len(w.cfg.scripts)), fees: new(big.Int)}
	for _, a := range w.all {
		m.bal[a.name] = new(big.Int)
	}
	for i, a := range w.cfg.eoas {
		m.bal[a.name] = new(big.Int).Set(w.cfg.balances[i])
	}
	m.bal["score"] = new(big.Int).Set(w.cfg.scoreBal)
	return m
}

func (m *modelState) clone() *modelState {
	c := &modelState{bal: map[string]*big.Int{}, store: append([]int64(nil), m.store...), cells: append([]int64(nil), m.cells...), fees: new(big.Int).Set(m.fees)}
	for k, v := range m.bal {
		c.bal[k] = new(big.Int).Set(v)
	}
	return c
}

func (m *modelState) total() *big.Int {
	t := new(big.Int)
	for _, v := range m.bal {
		t.Add(t, v)
	}
	return t
}

// applyScript runs a scripted transaction on the model and returns the values its reads must see.
func (m *modelState) applyScript(sc *scriptSpec) (reads []int64, acc uint64) {
	acc = sc.seed
	if sc.abort {
		return
	}
	for i, op := range sc.ops {
		if op.write {
			acc = mix(acc, int64(i))
			m.cells[op.cell] = int64(acc)
		} else {
			v := m.cells[op.cell]
			reads = append(reads, v)
			acc = mix(acc, v)
		}
	}
	return
}

// applyPaid applies a fee-paying transaction given what its receipt reports.
// It returns an error text if the reported outcome is impossible (negative balance).
func (m *modelState) applyPaid(w *world, spec *txSpec, success bool, used, price *big.Int) string {
	payer := w.cfg.eoas[spec.from].name
	fee := new(big.Int).Mul(used, price)
	m.bal[payer].Sub(m.bal[payer], fee)
	m.fees.Add(m.fees, fee)
	if m.bal[payer].Sign() < 0 {
		return fmt.Sprintf("payer %s cannot afford the reported fee %v", payer, fee)
	}
	if !success {
		return ""
	}
	if spec.value != nil && spec.value.Sign() > 0 {
		to := w.nameOf(spec.to)
		m.bal[payer].Sub(m.bal[payer], spec.value)
		m.bal[to].Add(m.bal[to], spec.value)
		if m.bal[payer].Sign() < 0 {
			return fmt.Sprintf("successful transaction leaves payer %s with a negative balance", payer)
		}
	}
	if spec.kind == kScore {
		for _, o := range spec.prog {
			switch o.op {
			case 's':
				m.store[o.key] = o.val
			case 'a':
				m.store[o.key] += o.val
			case 't':
				to := w.recips[o.to%len(w.recips)].name
				v := big.NewInt(o.val)
				m.bal["score"].Sub(m.bal["score"], v)
				m.bal[to].Add(m.bal[to], v)
				if m.bal["score"].Sign() < 0 {
					return "successful SCORE call leaves the SCORE with a negative balance"
				}
			case 'd':
				// at execution time the payer held its balance minus the value (the fee is charged afterwards)
				cur := new(big.Int).Add(m.bal[payer], fee)
				if amt := new(big.Int).Sub(cur, big.NewInt(o.val)); amt.Sign() > 0 {
					m.bal[payer].Sub(m.bal[payer], amt)
					m.bal["score"].Add(m.bal["score"], amt)
				}
				if m.bal[payer].Sign() < 0 {
					return fmt.Sprintf("transaction reported successful although the payer %s was left with less than the fee", payer)
				}
			}
		}
	}
	return ""
}

// expectedLogs: number of event logs a successful transaction must carry.
func expectedLogs(w *world, spec *txSpec) int {
	n := 0
	if spec.kind != kScore {
		return 0
	}
	for _, o := range spec.prog {
		switch o.op {
		case 'e', 'g':
			n++
		case 't':
			if o.val > 0 {
				n++ // ICXTransfer log of a contract-originated transfer
			}
		}
	}
	return n
}

// ---- reading the final state back ---------------------------------------------

type finalState struct {
	bal   map[string]*big.Int
	store []int64
	cells []int64
}

func (w *world) readFinal(ws state.WorldSnapshot) *finalState {
	f := &finalState{bal: map[string]*big.Int{}, store: make([]int64, nScoreKeys), cells: make([]int64, len(w.cfg.scripts))}
	for _, a := range w.all {
		ass := ws.GetAccountSnapshot(a.id())
		if ass == nil {
			f.bal[a.name] = new(big.Int)
			continue
		}
		f.bal[a.name] = new(big.Int).Set(ass.GetBalance())
		if a.addr.Equal(scoreAddr) {
			st := scoredb.NewStateStoreWith(ass)
			for k := 0; k < nScoreKeys; k++ {
				f.store[k] = scoredb.NewVarDB(st, scoreKey(k)).Int64()
			}
		}
	}
	for i, a := range w.cfg.scripts {
		if ass := ws.GetAccountSnapshot(a.id()); ass != nil {
			bs, _ := ass.GetValue(cellKey)
			f.cells[i] = cellValue(bs)
		}
	}
	return f
}

func (f *finalState) diff(m *modelState) string {
	names := make([]string, 0, len(m.bal))
	for k := range m.bal {
		names = append(names, k)
	}
	sort.Strings(names)
	for _, n := range names {
		if f.bal[n].Cmp(m.bal[n]) != 0 {
			return fmt.Sprintf("balance of %s is %v, model says %v", n, f.bal[n], m.bal[n])
		}
	}
	for k := range m.store {
		if f.store[k] != m.store[k] {
			return fmt.Sprintf("SCORE storage k%d is %d, model says %d", k, f.store[k], m.store[k])
		}
	}
	for c := range m.cells {
		if f.cells[c] != m.cells[c] {
			return fmt.Sprintf("cell c%d is %d, model says %d", c, f.cells[c], m.cells[c])
		}
	}
	return ""
}

func (f *finalState) equal(g *finalState) string {
	names := make([]string, 0, len(f.bal))
	for k := range f.bal {
		names = append(names, k)
	}
	sort.Strings(names)
	for _, n := range names {
		v := f.bal[n]
		if g.bal[n] == nil || g.bal[n].Cmp(v) != 0 {
			return fmt.Sprintf("balance of %s: %v vs %v", n, v, g.bal[n])
		}
	}
	for k := range f.store {
		if f.store[k] != g.store[k] {
			return fmt.Sprintf("SCORE storage k%d: %d vs %d", k, f.store[k], g.store[k])
		}
	}
	for c := range f.cells {
		if f.cells[c] != g.cells[c] {
			return fmt.Sprintf("cell c%d: %d vs %d", c, f.cells[c], g.cells[c])
		}
	}
	return ""
}
