package execsim

import (
	"context"
	"encoding/base64"
	"encoding/hex"
	"encoding/json"
	"fmt"
	"io"
	"math/big"
	"time"

	"github.com/icon-project/goloop/chain/base"
	"github.com/icon-project/goloop/chain/gs"
	"github.com/icon-project/goloop/common"
	"github.com/icon-project/goloop/common/crypto"
	"github.com/icon-project/goloop/common/db"
	"github.com/icon-project/goloop/common/log"
	"github.com/icon-project/goloop/common/wallet"
	"github.com/icon-project/goloop/module"
	"github.com/icon-project/goloop/service"
	"github.com/icon-project/goloop/service/contract"
	"github.com/icon-project/goloop/service/platform/basic"
	"github.com/icon-project/goloop/service/state"
	"github.com/icon-project/goloop/service/transaction"
)

// simChain is the harness-owned module.Chain: only what service.Transition,
// contract.Context and the basic platform touch is implemented; anything else
// panics through the nil embedded interface (and would show up as a harness bug).
type simChain struct {
	module.Chain
	database db.Database
	logger   log.Logger
	level    int
	gstor    module.GenesisStorage
	gsBytes  []byte
	w        module.Wallet
}

func (c *simChain) Database() db.Database                 { return c.database }
func (c *simChain) Wallet() module.Wallet                 { return c.w }
func (c *simChain) NID() int                              { return 1 }
func (c *simChain) NetID() int                            { return 1 }
func (c *simChain) Channel() string                       { return "execsim" }
func (c *simChain) ConcurrencyLevel() int                 { return c.level }
func (c *simChain) NormalTxPoolSize() int                 { return 5000 }
func (c *simChain) PatchTxPoolSize() int                  { return 2 }
func (c *simChain) MaxBlockTxBytes() int                  { return 2 * 1024 * 1024 }
func (c *simChain) TransactionTimeout() time.Duration     { return 24 * time.Hour } // never fires: no timer decides anything
func (c *simChain) Genesis() []byte                       { return c.gsBytes }
func (c *simChain) GenesisStorage() module.GenesisStorage { return c.gstor }
func (c *simChain) Regulator() module.Regulator           { return regulator{} }
func (c *simChain) MetricContext() context.Context        { return nil }
func (c *simChain) Logger() log.Logger                    { return c.logger }
func (c *simChain) CID() int {
	cid, _ := c.gstor.CID()
	return cid
}

type regulator struct{}

func (regulator) MaxTxCount() int                                   { return 1000 }
func (regulator) OnPropose(now time.Time)                           {}
func (regulator) CommitTimeout() time.Duration                      { return time.Second }
func (regulator) MinCommitTimeout() time.Duration                   { return time.Second }
func (regulator) OnTxExecution(count int, ed, fd time.Duration)     {}
func (regulator) SetBlockInterval(i time.Duration, d time.Duration) {}

func quietLogger() log.Logger {
	l := log.New()
	l.SetOutput(io.Discard)
	l.SetLevel(log.PanicLevel)
	l.SetConsoleLevel(log.PanicLevel)
	return l
}

// account universe ---------------------------------------------------------

type acct struct {
	name string
	w    module.Wallet // nil for keyless accounts (script accounts, fresh recipients)
	addr *common.Address
}

func (a *acct) id() []byte { return a.addr.ID() }

func walletFromBytes(b []byte) module.Wallet {
	// derive a valid secp256k1 key from tape bytes (never wallet.New())
	for i := 0; ; i++ {
		h := crypto.SHA3Sum256(append([]byte{byte(i)}, b...))
		sk, err := crypto.ParsePrivateKey(h)
		if err == nil {
			w, err := wallet.NewFromPrivateKey(sk)
			if err == nil {
				return w
			}
		}
	}
}

func fixedAddr(contract bool, tag byte, n int) *common.Address {
	var id [20]byte
	id[0] = 0xe5
	id[1] = tag
	id[19] = byte(n + 1)
	return common.NewAddressWithTypeAndID(contract, id[:])
}

var treasuryAddr = common.MustNewAddressFromString("hx1000000000000000000000000000000000000000")

// world configuration drawn per run ------------------------------------------

type stepCfg struct {
	price       int64
	costDefault int64
	costInput   int64
	costCall    int64
	costSet     int64
	costLog     int64
	invokeLimit int64
}

type worldCfg struct {
	steps    stepCfg
	eoas     []*acct    // funded, with keys
	balances []*big.Int // initial balance per eoa
	fresh    []*acct    // keyless never-funded recipients
	scripts  []*acct    // keyless accounts used as storage cells by scripted transactions
	scoreBal *big.Int   // initial balance of the harness SCORE
}

var (
	scoreAddr = fixedAddr(true, 0x5c, 0)
	godWallet = walletFromBytes([]byte("execsim-god"))
)

func (wc *worldCfg) genesisJSON() []byte {
	type acc struct {
		Name    string `json:"name"`
		Address string `json:"address"`
		Balance string `json:"balance"`
	}
	accs := []acc{
		{"god", godWallet.Address().String(), "0x0"},
		{"treasury", treasuryAddr.String(), "0x0"},
	}
	for i, a := range wc.eoas {
		accs = append(accs, acc{a.name, a.addr.String(), "0x" + wc.balances[i].Text(16)})
	}
	accs = append(accs, acc{"score", scoreAddr.String(), "0x" + wc.scoreBal.Text(16)})
	s := wc.steps
	g := map[string]any{
		"accounts": accs,
		"message":  "execsim",
		"nid":      "0x1",
		"chain": map[string]any{
			"revision": fmt.Sprintf("0x%x", basic.LatestRevision),
			"fee": map[string]any{
				"stepPrice": fmt.Sprintf("0x%x", s.price),
				"stepLimit": map[string]string{
					"invoke": fmt.Sprintf("0x%x", s.invokeLimit),
					"query":  fmt.Sprintf("0x%x", s.invokeLimit),
				},
				"stepCosts": map[string]string{
					"default":      fmt.Sprintf("0x%x", s.costDefault),
					"input":        fmt.Sprintf("0x%x", s.costInput),
					"contractCall": fmt.Sprintf("0x%x", s.costCall),
					"set":          fmt.Sprintf("0x%x", s.costSet),
					"log":          fmt.Sprintf("0x%x", s.costLog),
				},
			},
		},
	}
	bs, err := json.Marshal(g)
	if err != nil {
		panic(err)
	}
	return bs
}

// node = chain + contract manager + finalized parent transition to build blocks on

type node struct {
	chain  *simChain
	cm     contract.ContractManager
	plt    base.Platform
	parent module.Transition // finalized transition of the last set-up block
	height int64
}

type execCB struct {
	validated chan error
	executed  chan error
}

func newExecCB() *execCB {
	return &execCB{make(chan error, 1), make(chan error, 1)}
}
func (c *execCB) OnValidate(tr module.Transition, e error) { c.validated <- e }
func (c *execCB) OnExecute(tr module.Transition, e error)  { c.executed <- e }

// runPlain executes a transition without any scheduling (set-up blocks).
func runPlain(tr module.Transition) error {
	cb := newExecCB()
	if _, err := tr.Execute(cb); err != nil {
		return err
	}
	if err := <-cb.validated; err != nil {
		return err
	}
	return <-cb.executed
}

const finalizeAll = module.FinalizeNormalTransaction | module.FinalizePatchTransaction | module.FinalizeResult

func newNode(wc *worldCfg, level int, scratch string, setup []module.Transaction) (*node, error) {
	registerOnce()
	dbase := db.NewMapDB()
	logger := quietLogger()
	gsb := wc.genesisJSON()
	c := &simChain{database: dbase, logger: logger, level: level, gstor: gs.NewFromTx(gsb), gsBytes: gsb, w: godWallet}
	plt := basic.Platform
	rcm, err := plt.NewContractManager(dbase, scratch+"/contract", logger)
	if err != nil {
		return nil, err
	}
	// decorator: calls to asyncAddr get the harness asynchronous contract, everything else is goloop's
	var cm contract.ContractManager = harnessCM{rcm}
	tsc := service.NewTimestampChecker()
	init, err := service.NewInitTransition(dbase, nil, nil, cm, nil, c, logger, plt, tsc)
	if err != nil {
		return nil, err
	}
	gtx, err := transaction.NewGenesisTransaction(gsb)
	if err != nil {
		return nil, fmt.Errorf("genesis: %w", err)
	}
	n := &node{chain: c, cm: cm, plt: plt, parent: init, height: -1}
	// the set-up blocks always run sequentially and unscheduled
	c.level = 1
	if err := n.commitBlock([]module.Transaction{gtx}); err != nil {
		return nil, fmt.Errorf("genesis block: %w", err)
	}
	if len(setup) > 0 {
		if err := n.commitBlock(setup); err != nil {
			return nil, fmt.Errorf("setup block: %w", err)
		}
	}
	c.level = level
	return n, nil
}

func (n *node) newTransition(txs []module.Transaction, x *execCtx) module.Transition {
	n.height++
	txl := transaction.NewTransactionListFromSlice(n.chain.database, txs)
	if x != nil {
		txl = &schedList{TransactionList: txl, x: x}
	}
	bi := common.NewBlockInfo(n.height, blockTimestamp(n.height))
	csi := common.NewConsensusInfo(nil, nil, nil)
	return service.NewTransition(n.parent, nil, txl, bi, csi, x == nil || !validateOnImport)
}

// validateOnImport: the block under test is executed as an importer does it (transactions are
// pre-validated by the transition first) instead of as its proposer (already validated). Drawn per run.
var validateOnImport bool

func blockTimestamp(h int64) int64 { return 1_700_000_000_000_000 + h*2_000_000 }

func (n *node) commitBlock(txs []module.Transaction) error {
	tr := n.newTransition(txs, nil)
	if err := runPlain(tr); err != nil {
		return err
	}
	if err := service.FinalizeTransition(tr, finalizeAll, false); err != nil {
		return err
	}
	n.parent = tr
	return nil
}

// signed v3 transactions ---------------------------------------------------------

type v3spec struct {
	from      *acct
	to        *common.Address
	value     *big.Int // nil = no value field
	stepLimit int64
	nonce     int64
	timestamp int64
	dataType  string // "" | "message" | "call"
	data      any    // message: hex string; call: map{method, params}
}

func hexInt(v int64) string { return fmt.Sprintf("0x%x", v) }

func buildV3(s *v3spec) (transaction.Transaction, error) {
	m := map[string]any{
		"version":   "0x3",
		"from":      s.from.addr.String(),
		"to":        s.to.String(),
		"stepLimit": hexInt(s.stepLimit),
		"timestamp": hexInt(s.timestamp),
		"nid":       "0x1",
		"nonce":     hexInt(s.nonce),
	}
	if s.value != nil {
		m["value"] = "0x" + s.value.Text(16)
	}
	if s.dataType != "" {
		m["dataType"] = s.dataType
		m["data"] = s.data
	}
	js, err := json.Marshal(m)
	if err != nil {
		return nil, err
	}
	ser, err := transaction.SerializeJSON(js, nil, map[string]bool{"signature": true})
	if err != nil {
		return nil, err
	}
	h := crypto.SHA3Sum256(append([]byte("icx_sendTransaction."), ser...))
	sig, err := s.from.w.Sign(h)
	if err != nil {
		return nil, err
	}
	m["signature"] = base64.StdEncoding.EncodeToString(sig)
	js, err = json.Marshal(m)
	if err != nil {
		return nil, err
	}
	tx, err := transaction.NewTransactionFromJSON(js)
	if err != nil {
		return nil, err
	}
	if err := tx.Verify(); err != nil {
		return nil, fmt.Errorf("harness built an unverifiable tx: %w (%s)", err, js)
	}
	return tx, nil
}

func hexBytes(b []byte) string { return "0x" + hex.EncodeToString(b) }

var _ = state.SystemID
