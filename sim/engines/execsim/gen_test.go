package execsim

import (
	"encoding/json"
	"fmt"
	"math/big"

	"github.com/icon-project/goloop/common"

	"verif/sim/kit"
)

// Generation of the world and the block from the tape.
//
// Every function here draws a FIXED sequence of labelled choices (slots for the
// maximum number of accounts / transactions / operations are always drawn, then
// only the first n are used; alternatives are all drawn, then one is selected),
// so that the minimiser can lower a count or zero a decision without shifting
// the meaning of every later entry of the tape. Value 0 is always the plain case.

var levels = []int{1, 2, 3, 4, 8}

const (
	maxEOA    = 6
	maxTx     = 12
	maxOps    = 5
	maxMsgLen = 40
)

func pow10(n int) *big.Int { return new(big.Int).Exp(big.NewInt(10), big.NewInt(int64(n)), nil) }

func genWorld(t *kit.Tape, prop string) *worldCfg {
	cfg := &worldCfg{}
	cfg.steps = stepCfg{
		price:       []int64{10, 1, 0, 12_500_000_000, 7}[t.Weighted("price", 4, 2, 1, 2, 1)],
		costDefault: []int64{1000, 100, 1}[t.Choose("cdef", 3)],
		costInput:   []int64{2, 0, 10}[t.Choose("cin", 3)],
		costCall:    []int64{50, 0, 500}[t.Choose("ccall", 3)],
		costSet:     []int64{20, 1, 300}[t.Choose("cset", 3)],
		costLog:     []int64{10, 0, 100}[t.Choose("clog", 3)],
		invokeLimit: 1_000_000,
	}
	neoa := t.Range("neoa", 3, maxEOA)
	for i := 0; i < maxEOA; i++ {
		key := t.Bytes("key", 16)
		balk := t.Weighted("balk", 12, 2, 1, 1)
		balr := t.Choose("balr", 1000)
		bals := t.Choose("bals", 40)
		balt := t.Choose("balt", 3000)
		if i >= neoa {
			continue
		}
		// the account index is part of the key material: a zeroed tape still gives distinct accounts
		w := walletFromBytes(append([]byte{byte(i)}, key...))
		cfg.eoas = append(cfg.eoas, &acct{name: fmt.Sprintf("e%d", i), w: w, addr: common.AddressToPtr(w.Address())})
		var bal *big.Int
		switch balk {
		case 0: // comfortably funded for any fee
			bal = new(big.Int).Mul(pow10(18), big.NewInt(int64(1+balr)))
		case 1: // around what a few transactions cost
			bal = new(big.Int).Mul(big.NewInt(cfg.steps.price*cfg.steps.costDefault+1), big.NewInt(int64(bals)))
		case 2: // tiny
			bal = big.NewInt(int64(balt))
		default:
			bal = new(big.Int)
		}
		cfg.balances = append(cfg.balances, bal)
	}
	for i := 0; i < 2; i++ {
		cfg.fresh = append(cfg.fresh, &acct{name: fmt.Sprintf("f%d", i), addr: fixedAddr(false, 0xfe, i)})
	}
	ncell := t.Range("ncell", 2, 5)
	for i := 0; i < ncell; i++ {
		cfg.scripts = append(cfg.scripts, &acct{name: fmt.Sprintf("c%d", i), addr: fixedAddr(false, 0xce, i)})
	}
	cfg.scoreBal = []*big.Int{big.NewInt(1000), new(big.Int), pow10(9)}[t.Choose("scorebal", 3)]
	return cfg
}

type mix5 struct{ script, transfer, scoreW, scoreI, async int }

func kindMix(prop string) mix5 {
	switch prop {
	case "C09":
		return mix5{12, 4, 2, 2, 1}
	case "C10":
		return mix5{10, 4, 2, 2, 1}
	case "C15":
		return mix5{2, 12, 4, 2, 1}
	default: // C16
		return mix5{2, 6, 8, 6, 6}
	}
}

func levelWeights(prop string) []int {
	switch prop {
	case "C09":
		return []int{1, 4, 3, 3, 2}
	case "C10":
		return []int{3, 3, 2, 2, 2}
	default:
		return []int{3, 3, 2, 2, 1}
	}
}

func genInject(t *kit.Tape, fatalAllowed bool, nops int) *inject {
	j := &inject{}
	var kind int
	if fatalAllowed {
		kind = t.Weighted("injkind", 3, 2, 3, 2, 2)
	} else {
		kind = t.Choose("injkind", 2)
	}
	k := 1 + t.Choose("injk", 2)
	at := t.Choose("injat", maxOps+1)
	switch kind {
	case 0:
		j.kind, j.k = injRetryable, k
	case 1:
		j.kind, j.k = injRerun, k
	case 2:
		j.kind, j.k = injFatal, 1
	case 3:
		j.kind, j.k = injRetryable, -1
	default:
		j.kind, j.k = injRerun, -1
	}
	j.at = at % (nops + 1)
	return j
}

func genBlock(t *kit.Tape, w *world, prop, profile string) []*txSpec {
	ntx := t.Range("ntx", 1, maxTx)
	mx := kindMix(prop)
	injPermille := 120
	if prop == "C10" {
		injPermille = 300
	}
	var specs []*txSpec
	for i := 0; i < maxTx; i++ {
		s := &txSpec{}
		switch t.Weighted("kind", mx.script, mx.transfer, mx.scoreW, mx.scoreI, mx.async) {
		case 0:
			s.kind = kScript
			s.script = genScript(t, w)
		case 1:
			s.kind = kTransfer
			genTransfer(t, w, s)
		case 2:
			s.kind = kScore
			genScore(t, w, s, false, prop)
		case 3:
			s.kind = kScore
			genScore(t, w, s, true, prop)
		default:
			s.kind = kScore
			genAsync(t, w, s)
		}
		nops := 1
		if s.kind == kScript {
			nops = len(s.script.ops)
		}
		hasInj := t.Permille("inj", injPermille)
		inj := genInject(t, prop == "C10", nops)
		if s.kind == kScript && s.script.abort {
			hasInj = false // it returns its failed receipt before any injection point
		}
		if hasInj && profile != "plain" {
			// profile "plain": no injected handler errors at all (the draws are still made, so that
			// the tape has the same shape in both profiles)
			s.inj = inj
		}
		if i < ntx {
			specs = append(specs, s)
		}
	}
	return specs
}

func genScript(t *kit.Tape, w *world) *scriptSpec {
	sc := &scriptSpec{locks: map[int]int{}}
	sc.world = []int{lockNone, lockWrite, lockRead}[t.Weighted("sworld", 7, 2, 1)]
	sc.seed = uint64(1 + t.Choose("sseed", 1<<20))
	ncell := len(w.cfg.scripts)
	// 1..maxOps operations, or (last value) an empty program that only declares locks
	nops := (t.Choose("snops", maxOps+1) + 1) % (maxOps + 1)
	// fails as a transaction (failed receipt) before it accesses anything it declared
	sc.abort = t.Permille("sabort", 120)
	for i := 0; i < maxOps; i++ {
		op := sop{write: t.Permille("swrite", 500), cell: t.Choose("scell", ncell)}
		if i < nops {
			sc.ops = append(sc.ops, op)
		}
	}
	declare := func(c, mode int) {
		if old, ok := sc.locks[c]; ok {
			if mode > old {
				sc.locks[c] = mode
			}
			return
		}
		sc.locks[c] = mode
		sc.order = append(sc.order, c)
	}
	for _, op := range sc.ops {
		if op.write {
			if sc.world != lockWrite {
				declare(op.cell, lockWrite)
			}
		} else if sc.world == lockNone {
			declare(op.cell, lockRead)
		}
	}
	// over-declaration: locks on cells the program never touches (or stronger than needed). A transaction
	// that declares a write lock and commits without ever accessing the account must still hand the
	// account over in block order.
	for k := 0; k < 2; k++ {
		over := t.Permille("sover", 350)
		overCell := t.Choose("sovercell", ncell)
		overMode := []int{lockRead, lockWrite, lockWrite}[t.Choose("sovermode", 3)]
		if over {
			declare(overCell, overMode)
		}
	}
	if sc.abort {
		sc.ops = nil
	}
	return sc
}

func dataLen(v any) int64 {
	if v == nil {
		return 0
	}
	bs, _ := json.Marshal(v)
	return int64(len(bs))
}

func genStepLimit(t *kit.Tape, w *world, minLimit, comfortable int64, bal, value *big.Int) int64 {
	price := w.cfg.steps.price
	limk := t.Weighted("limk", 6, 1, 1, 1, 1)
	small := int64(t.Choose("limsmall", 200))
	over := int64(t.Choose("limover", 2))
	switch limk {
	case 0:
		return comfortable
	case 1:
		return minLimit
	case 2:
		return minLimit + small
	case 3:
		// just beyond what the balance can pay for
		if price > 0 {
			b := new(big.Int).Set(bal)
			if value != nil {
				b.Sub(b, value)
			}
			if b.Sign() > 0 {
				q := new(big.Int).Div(b, big.NewInt(price))
				if q.IsInt64() && q.Int64() >= minLimit && q.Int64() < w.cfg.steps.invokeLimit {
					return q.Int64() + over
				}
			}
		}
		return comfortable
	default:
		return comfortable * 3
	}
}

func genTransfer(t *kit.Tape, w *world, s *txSpec) {
	cfg := w.cfg
	s.from = t.Choose("from", len(cfg.eoas))
	tok := t.Weighted("tok", 6, 2, 1, 1, 1)
	toEOA := (s.from + 1 + t.Choose("toeoa", len(cfg.eoas)-1)) % len(cfg.eoas)
	toFresh := cfg.fresh[t.Choose("tofresh", len(cfg.fresh))]
	switch tok {
	case 0:
		s.to, s.toName = cfg.eoas[toEOA].addr, cfg.eoas[toEOA].name
	case 1:
		s.to, s.toName = toFresh.addr, toFresh.name
	case 2:
		s.to, s.toName = cfg.eoas[s.from].addr, cfg.eoas[s.from].name
	case 4:
		// the account the block's fees are credited to is an ordinary account too: a transfer to it must
		// arrive on top of the fees
		s.to, s.toName = treasuryAddr, "treasury"
	default:
		s.to, s.toName = scoreAddr, "score" // plain transfer to a contract without a payable fallback
	}
	bal := cfg.balances[s.from]
	hasMsg := t.Permille("msg", 250)
	msgLen := t.Choose("msglen", maxMsgLen)
	msgData := t.Bytes("msgdata", maxMsgLen)
	var data any
	if hasMsg {
		s.msg = msgData[:msgLen]
		data = hexBytes(s.msg)
	}
	minLimit := cfg.steps.costDefault + cfg.steps.costInput*dataLen(data)
	valk := t.Weighted("valk", 5, 1, 1, 2, 1)
	vals := int64(1 + t.Choose("vals", 1000))
	valover := int64(1 + t.Choose("valover", 1000))
	valedge := int64(t.Choose("valedge", 5)) - 2
	switch valk {
	case 0, 3:
		s.value = big.NewInt(vals)
	case 1:
		s.value = new(big.Int)
	case 2:
		s.value = nil
	default: // more than the balance
		s.value = new(big.Int).Add(bal, big.NewInt(valover))
	}
	s.stepLimit = genStepLimit(t, w, minLimit, minLimit+2*cfg.steps.costCall+1000, bal, s.value)
	// lazy: the wrapper does not touch/observe the declared accounts up front, so a transfer that fails its
	// balance check commits without ever having accessed the recipient it write-locked
	s.lazy = t.Permille("lazy", 350)
	if valk == 3 {
		// exactly at / just around what the balance affords: value + stepLimit*price == balance + d, d in -2..2
		v := new(big.Int).Sub(bal, new(big.Int).Mul(big.NewInt(s.stepLimit), big.NewInt(cfg.steps.price)))
		v.Add(v, big.NewInt(valedge))
		if v.Sign() >= 0 {
			s.value = v
		}
	}
}

func genScore(t *kit.Tape, w *world, s *txSpec, isolated bool, prop string) {
	cfg := w.cfg
	s.from = t.Choose("from", len(cfg.eoas))
	s.to, s.toName = scoreAddr, "score"
	s.isolated = isolated
	failW := 3
	if prop == "C16" {
		failW = 8
	}
	s.end = t.Weighted("send", 6, failW, failW/2+1, failW/2, 1)
	if isolated && s.end == endBadCall {
		// an isolated method may only touch the sender and the SCORE itself
		s.end = endRevert
	}
	nops := t.Choose("sops", maxOps+1)
	for i := 0; i < maxOps; i++ {
		var o scoreOp
		kinds := []byte{'s', 'a', 'g', 'e', 't', 'm'}
		wts := []int{3, 3, 2, 3, 3, 1}
		if isolated {
			wts[4] = 0
		}
		if s.end == endOK {
			wts[5] = 0 // BTP messages only in programs that end in failure (no BTP network is open)
		}
		o.op = kinds[t.Weighted("sop", wts...)]
		o.key = t.Choose("skey", nScoreKeys)
		o.val = int64(1 + t.Choose("sval", 500))
		o.to = t.Choose("sto", len(w.recips))
		if i < nops {
			s.prog = append(s.prog, o)
		}
	}
	svalk := t.Weighted("svalk", 6, 4, 1)
	vals := int64(1 + t.Choose("vals", 1000))
	switch svalk {
	case 0:
		s.value = nil
	case 1:
		s.value = big.NewInt(vals)
	default:
		s.value = new(big.Int).Add(cfg.balances[s.from], big.NewInt(1))
	}
	// last operation of some programs: debit the caller down to `keep` units (0, too little for any fee,
	// or plenty): a successful execution that may leave the payer unable to pay for it
	drain := t.Permille("sdrain", 150)
	keepk := t.Weighted("sdrain.keep", 2, 3, 2)
	keepSmall := int64(1 + t.Choose("sdrain.small", 60))
	if drain {
		keep := []int64{0, keepSmall, 1 << 40}[keepk]
		s.prog = append(s.prog, scoreOp{op: 'd', val: keep})
	}
	data := map[string]any{"method": "wld", "params": map[string]any{"p": encodeProg(s.prog, s.end)}}
	minLimit := cfg.steps.costDefault + cfg.steps.costInput*dataLen(data)
	comfortable := minLimit + int64(nops+2)*(cfg.steps.costCall+cfg.steps.costSet+cfg.steps.costLog+10) + 100
	s.stepLimit = genStepLimit(t, w, minLimit, comfortable, cfg.balances[s.from], s.value)
	s.lazy = t.Permille("lazy", 350)
}

// genAsync: a call to the harness asynchronous contract (see async_test.go).
func genAsync(t *kit.Tape, w *world, s *txSpec) {
	cfg := w.cfg
	s.from = t.Choose("from", len(cfg.eoas))
	s.to, s.toName = asyncAddr, "writer"
	s.async = true
	s.callee = t.Weighted("acallee", 3, 4, 2, 2, 1)
	nops := t.Choose("sops", maxOps+1)
	for i := 0; i < maxOps; i++ {
		var o scoreOp
		kinds := []byte{'s', 'a', 'g', 'e', 't', 'm'}
		wts := []int{3, 3, 2, 3, 3, 1}
		if s.callee == calleeRoOK || s.callee == calleeRwOK {
			wts[5] = 0 // BTP messages only when the transaction is going to fail (no BTP network is open)
		}
		o.op = kinds[t.Weighted("sop", wts...)]
		o.key = t.Choose("skey", nScoreKeys)
		o.val = int64(1 + t.Choose("sval", 500))
		o.to = t.Choose("sto", len(w.recips))
		if i < nops {
			s.prog = append(s.prog, o)
		}
	}
	data := map[string]any{"method": "aw", "params": map[string]any{"p": encodeOps(s.prog), "c": calleeNames[s.callee]}}
	minLimit := cfg.steps.costDefault + cfg.steps.costInput*dataLen(data)
	comfortable := minLimit + int64(nops+3)*(cfg.steps.costCall+cfg.steps.costSet+cfg.steps.costLog+10) + 100
	s.stepLimit = genStepLimit(t, w, minLimit, comfortable, cfg.balances[s.from], nil)
}
