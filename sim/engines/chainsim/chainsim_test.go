// Package chainsim simulates goloop's replay-protection machinery: the real
// common/txlocator manager and trackers (with the background flush goroutine),
// the real service TXIDManager / TXIDLogger, TxTimestampChecker window check,
// TransactionPool / TransactionManager, and real signed v3 transactions, on a
// fake clock (testing/synctest) over a journaling, schedulable, fault-injecting
// database decorator (simdb).
//
// C11: trees of blocks with duplicates placed everywhere and timestamps on the
// window edges; oracle = per-chain id set + window predicate.
//
// C37: a pool fed by clients, a finaliser and a proposer; oracle = independent
// re-validation of TransactionPool.Candidate's output as a block, plus the real
// validation path of service.NewTransition(alreadyValidated=false).
package chainsim

import (
	"fmt"
	"io"
	"sync"
	"testing"
	"testing/synctest"

	"github.com/icon-project/goloop/common/log"

	"verif/sim/kit"
)

type engine struct{ t *testing.T }

func (engine) Name() string { return "chainsim" }

func TestWorker(t *testing.T) {
	if err := kit.WorkerMain(engine{t}); err != nil {
		t.Fatal(err)
	}
}

var quietOnce sync.Once

func quietLogger() log.Logger {
	quietOnce.Do(func() {
		g := log.GlobalLogger()
		g.SetOutput(io.Discard)
		g.SetLevel(log.PanicLevel)
	})
	l := log.New()
	l.SetOutput(io.Discard)
	l.SetLevel(log.PanicLevel)
	return l
}

func (e engine) Run(rc *kit.RunCtx) {
	var pv any
	synctest.Test(e.t, func(t *testing.T) {
		// a panic inside the bubble must travel to the goroutine that called Run
		// (the kit turns it into a violation of class "panic")
		defer func() {
			if p := recover(); p != nil {
				pv = p
			}
		}()
		switch rc.Property {
		case "C11":
			runC11(rc)
		case "C37":
			runC37(rc)
		default:
			panic(fmt.Sprintf("chainsim does not serve %s", rc.Property))
		}
	})
	if pv != nil {
		panic(pv)
	}
}

// ---------------------------------------------------------------------------
// scheduling of the one background goroutine there is: the locator flusher

type sched struct {
	rc *kit.RunCtx
	v  *view
}

// grantSet lets the parked flusher perform (or fail) exactly one Set and waits
// until it parks again or finishes. Returns false if no flusher is parked.
func (s *sched) grantSet(fail bool) bool {
	if !s.v.setWaiting.Load() {
		return false
	}
	s.v.setWaiting.Store(false)
	s.v.setGate <- grant{fail: fail}
	synctest.Wait()
	return true
}

// getPlan: park the operation at its n-th locator Get and run k flusher steps there.
type getPlan struct {
	atGet int
	steps int
}

// runOp runs f on its own goroutine. While f is blocked on the flusher (Commit
// waits until the flusher has fetched its job; Term waits for the flush queue)
// the driver grants flusher steps one at a time; those forced steps are
// reported so that they are part of the event log.
func (s *sched) runOp(f func(), plan getPlan) (forced int, ok bool) {
	done := make(chan struct{})
	var pv any
	if plan.atGet > 0 {
		s.v.getArm.Store(int32(plan.atGet))
	}
	go func() {
		defer close(done)
		defer func() {
			if p := recover(); p != nil {
				pv = p
			}
		}()
		f()
	}()
	for {
		synctest.Wait()
		select {
		case <-done:
			s.v.getArm.Store(0)
			if pv != nil {
				panic(pv)
			}
			return forced, true
		default:
		}
		if s.v.getWaiting.Load() {
			for i := 0; i < plan.steps; i++ {
				if !s.grantSet(false) {
					break
				}
				s.rc.Metric("flusher_steps_inside_lookup", 1)
			}
			s.v.getWaiting.Store(false)
			s.v.getGate <- struct{}{}
			continue
		}
		if s.grantSet(false) {
			forced++
			continue
		}
		// nothing can make progress: the operation is stuck for good
		return forced, false
	}
}

func short(id string) string {
	if len(id) > 4 {
		id = id[:4]
	}
	return fmt.Sprintf("%x", id)
}
