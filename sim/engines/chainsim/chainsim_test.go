// Package chainsim simulates goloop's replay-protection machinery: the real
// common/txlocator manager and trackers (with the background flush goroutine),
// the real service TXIDManager / TXIDLogger, TxTimestampChecker window check,
// TransactionPool / TransactionManager, and real signed v3 transactions, on a
// fake clock (testing/synctest) over a journaling, schedulable, fault-injecting
// database decorator (simdb).
//
// C11: trees of blocks with duplicates placed everywhere and timestamps on the
// window edges; oracle = per-chain id set + window predicate.
//
// C37: a pool fed by clients, a finaliser and a proposer; oracle = independent
// re-validation of TransactionPool.Candidate's output as a block, plus the real
// validation path of service.NewTransition(alreadyValidated=false).
package chainsim

import (
	"fmt"
	"io"
	"sync"
	"testing"
	"testing/synctest"

	"github.com/icon-project/goloop/common"
	"github.com/icon-project/goloop/common/log"

	"verif/sim/kit"
)

type engine struct{ t *testing.T }

func (engine) Name() string { return "chainsim" }

func TestWorker(t *testing.T) {
	if err := kit.WorkerMain(engine{t}); err != nil {
		t.Fatal(err)
	}
}

var quietOnce sync.Once

func quietLogger() log.Logger {
	quietOnce.Do(func() {
		g := log.GlobalLogger()
		g.SetOutput(io.Discard)
		g.SetLevel(log.PanicLevel)
	})
	l := log.New()
	l.SetOutput(io.Discard)
	l.SetLevel(log.PanicLevel)
	return l
}

func (e engine) Run(rc *kit.RunCtx) {
	var pv any
	locks.reset()
	common.SimAcquireHook, common.SimReleaseHook = locks.acquire, locks.release
	synctest.Test(e.t, func(t *testing.T) {
		// a panic inside the bubble must travel to the goroutine that called Run
		// (the kit turns it into a violation of class "panic")
		defer func() {
			if p := recover(); p != nil {
				pv = p
			}
		}()
		switch rc.Property {
		case "C11":
			runC11(rc)
		case "C37":
			runC37(rc)
		default:
			panic(fmt.Sprintf("chainsim does not serve %s", rc.Property))
		}
	})
	if pv != nil {
		panic(pv)
	}
}

// ---------------------------------------------------------------------------
// scheduling of the one background goroutine there is: the locator flusher

type sched struct {
	rc *kit.RunCtx
	v  *view
}

// grantSet lets the parked flusher perform (or fail) exactly one Set and waits
// until it parks again or finishes. Returns false if no flusher is parked.
func (s *sched) grantSet(fail bool) bool {
	if !s.v.setWaiting.Load() {
		return false
	}
	s.v.setWaiting.Store(false)
	s.v.setGate <- grant{fail: fail}
	synctest.Wait()
	return true
}

// getPlan: park the operation at its n-th locator Get and run k flusher steps there.
type getPlan struct {
	atGet int
	steps int
}

// runOp runs f on its own goroutine. While f is blocked on the flusher (Commit
// waits until the flusher has fetched its job; Term waits for the flush queue)
// the driver grants flusher steps one at a time; those forced steps are
// reported so that they are part of the event log.
func (s *sched) runOp(f func(), plan getPlan) (forced int, ok bool) {
	return s.runOps([]func(){f}, plan)
}

// runOps: like runOp for fs[0]; fs[1:] are started, one goroutine each, the first time fs[0] is
// found blocked (or after it has returned, if it never blocks) and run concurrently with it.
// Tracker and manager locks are scheduling points (build-time instrumentation of
// common/txlocator/manager.go, lockModel below): a goroutine that needs a lock held by a parked
// goroutine parks on a channel, which the fake-clock bubble sees as blocked.
func (s *sched) runOps(fs []func(), plan getPlan) (forced int, ok bool) {
	n := len(fs)
	done := make([]chan struct{}, n)
	pvs := make([]any, n)
	start := func(i int) {
		done[i] = make(chan struct{})
		go func() {
			defer close(done[i])
			defer func() {
				if p := recover(); p != nil {
					pvs[i] = p
				}
			}()
			fs[i]()
		}()
	}
	if plan.atGet > 0 {
		s.v.getArm.Store(int32(plan.atGet))
	}
	start(0)
	started := 1
	for {
		synctest.Wait()
		running := 0
		for i := 0; i < started; i++ {
			select {
			case <-done[i]:
			default:
				running++
			}
		}
		if started < n {
			// fs[0] is blocked somewhere (or finished): the others come in now
			for ; started < n; started++ {
				start(started)
			}
			continue
		}
		if running == 0 {
			s.v.getArm.Store(0)
			for _, pv := range pvs {
				if pv != nil {
					panic(pv)
				}
			}
			return forced, true
		}
		if s.v.getWaiting.Load() {
			for i := 0; i < plan.steps; i++ {
				if !s.grantSet(false) {
					break
				}
				s.rc.Metric("flusher_steps_inside_lookup", 1)
			}
			s.v.getWaiting.Store(false)
			s.v.getGate <- struct{}{}
			continue
		}
		if s.grantSet(false) {
			forced++
			continue
		}
		// nothing can make progress: the operation is stuck for good
		return forced, false
	}
}

// lockModel turns the instrumented lock sites into cooperative waits: the model decides who holds a
// lock; a goroutine that has to wait parks on a channel until the holder releases. The real
// sync.Mutex is still taken afterwards (never contended among instrumented sites).
type lockModel struct {
	mu      sync.Mutex
	held    map[interface{}]bool
	waiters map[interface{}][]chan struct{}
	waits   int
}

var locks = &lockModel{held: map[interface{}]bool{}, waiters: map[interface{}][]chan struct{}{}}

func (m *lockModel) reset() {
	m.mu.Lock()
	m.held = map[interface{}]bool{}
	m.waiters = map[interface{}][]chan struct{}{}
	m.waits = 0
	m.mu.Unlock()
}

func (m *lockModel) acquire(l interface{}, _ byte, _ string) {
	for {
		m.mu.Lock()
		if !m.held[l] {
			m.held[l] = true
			m.mu.Unlock()
			return
		}
		ch := make(chan struct{})
		m.waiters[l] = append(m.waiters[l], ch)
		m.waits++
		m.mu.Unlock()
		<-ch
	}
}

func (m *lockModel) release(l interface{}, _ byte, _ string) {
	m.mu.Lock()
	delete(m.held, l)
	ws := m.waiters[l]
	delete(m.waiters, l)
	m.mu.Unlock()
	for _, ch := range ws {
		close(ch)
	}
}

func short(id string) string {
	if len(id) > 4 {
		id = id[:4]
	}
	return fmt.Sprintf("%x", id)
}
