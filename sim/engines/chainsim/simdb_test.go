package chainsim

import (
	"errors"
	"sync"
	"sync/atomic"

	"github.com/icon-project/goloop/common/db"
)

// simdb: a journaling decorator around db.NewMapDB().
//
// store   = the surviving database (one MapDB per run) + a numbered journal of
//           every Set/Delete that reached it;
// view    = what one manager incarnation sees. A crash fences the view: from
//           then on its writes fail and never reach the store, so a zombie
//           flusher goroutine cannot change what the restarted manager reads;
// gate    = the locator bucket's Set (flusher goroutine) parks on a channel
//           until the driver grants one step. A grant may carry an injected
//           error. The bucket's Get (caller goroutine of Has/Add) can be told
//           to park once, so that flusher steps can be scheduled between the
//           manager's cache lookup and its database lookup.

var errInjected = errors.New("simdb: injected write error")
var errFenced = errors.New("simdb: incarnation crashed")

type journalEntry struct {
	seq    int
	bucket db.BucketID
	key    string
	del    bool
}

type store struct {
	inner   db.Database
	mu      sync.Mutex
	journal []journalEntry
}

func newStore() *store { return &store{inner: db.NewMapDB()} }

type grant struct{ fail bool }

type view struct {
	st   *store
	gen  int
	dead atomic.Bool

	// flusher gate (locator bucket Set)
	gated           bool // Sets of the locator bucket park (normal group: they come from the flusher goroutine)
	freeRun         atomic.Bool
	setWaiting      atomic.Bool
	setGate         chan grant
	failNextSyncSet bool // patch group: Set is called synchronously by the committer

	// caller gate (locator bucket Get)
	getArm     atomic.Int32 // park at the n-th Get from now (0 = never)
	getWaiting atomic.Bool
	getGate    chan struct{}

	// observations, written under mu by whoever calls, read by the driver at quiescence
	mu       sync.Mutex
	setKeys  []string          // keys whose Set reached the store through this view, in order
	setFails int               // Sets that returned an injected error
	gets     map[string]string // key -> "hit"|"miss" for Gets since the driver last cleared it
}

func (s *store) newView(gen int, gated bool) *view {
	return &view{st: s, gen: gen, gated: gated, setGate: make(chan grant), getGate: make(chan struct{}), gets: map[string]string{}}
}

func (v *view) GetBucket(id db.BucketID) (db.Bucket, error) {
	bk, err := v.st.inner.GetBucket(id)
	if err != nil {
		return nil, err
	}
	return &simBucket{v: v, id: id, inner: bk, loc: id == db.TransactionLocatorByHash}, nil
}

func (v *view) Close() error { return nil }

type simBucket struct {
	v     *view
	id    db.BucketID
	inner db.Bucket
	loc   bool
}

func (b *simBucket) Get(key []byte) ([]byte, error) {
	v := b.v
	if b.loc && !v.dead.Load() {
		if n := v.getArm.Load(); n > 0 {
			if v.getArm.Add(-1) == 0 {
				v.getWaiting.Store(true)
				<-v.getGate
			}
		}
	}
	bs, err := b.inner.Get(key)
	if b.loc {
		v.mu.Lock()
		if len(bs) > 0 {
			v.gets[string(key)] = "hit"
		} else {
			v.gets[string(key)] = "miss"
		}
		v.mu.Unlock()
	}
	return bs, err
}

func (b *simBucket) Has(key []byte) (bool, error) { return b.inner.Has(key) }

func (b *simBucket) Set(key []byte, value []byte) error {
	v := b.v
	if b.loc {
		if v.gated && !v.freeRun.Load() && !v.dead.Load() {
			v.setWaiting.Store(true)
			g := <-v.setGate
			if g.fail {
				v.mu.Lock()
				v.setFails++
				v.mu.Unlock()
				return errInjected
			}
		} else if !v.gated && v.failNextSyncSet {
			v.failNextSyncSet = false
			v.mu.Lock()
			v.setFails++
			v.mu.Unlock()
			return errInjected
		}
	}
	if v.dead.Load() {
		return errFenced
	}
	if err := b.inner.Set(key, value); err != nil {
		return err
	}
	v.st.mu.Lock()
	v.st.journal = append(v.st.journal, journalEntry{len(v.st.journal), b.id, string(key), false})
	v.st.mu.Unlock()
	if b.loc {
		v.mu.Lock()
		v.setKeys = append(v.setKeys, string(key))
		v.mu.Unlock()
	}
	return nil
}

func (b *simBucket) Delete(key []byte) error {
	v := b.v
	if v.dead.Load() {
		return errFenced
	}
	if err := b.inner.Delete(key); err != nil {
		return err
	}
	v.st.mu.Lock()
	v.st.journal = append(v.st.journal, journalEntry{len(v.st.journal), b.id, string(key), true})
	v.st.mu.Unlock()
	return nil
}

// takeGets returns and clears the Get observations.
func (v *view) takeGets() map[string]string {
	v.mu.Lock()
	defer v.mu.Unlock()
	g := v.gets
	v.gets = map[string]string{}
	return g
}

func (v *view) flushedKeys() []string {
	v.mu.Lock()
	defer v.mu.Unlock()
	return append([]string(nil), v.setKeys...)
}
