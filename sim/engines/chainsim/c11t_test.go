package chainsim

import (
	"fmt"
	"path/filepath"
	"strings"
	"testing/synctest"

	"github.com/icon-project/goloop/common"
	"github.com/icon-project/goloop/common/txlocator"
	"github.com/icon-project/goloop/module"
	"github.com/icon-project/goloop/service"
	"github.com/icon-project/goloop/service/platform/basic"
	"github.com/icon-project/goloop/service/scoredb"
	"github.com/icon-project/goloop/service/state"
	"github.com/icon-project/goloop/service/transaction"

	"verif/sim/kit"
)

// ---------------------------------------------------------------------------
// C11, profile "transitions": the same question asked of REAL service
// transitions. A tree of service.NewTransition(alreadyValidated=false) objects
// on one TXIDManager; every block is validated (and executed) by
// transition.Execute, finalised the way block.Manager does it
// (FinalizeResult of the parent transition, then FinalizeNormalTransaction of
// the block's own), and the on-chain timestamp threshold is changed during the
// run by a governance transaction (chain SCORE setTimestampThreshold), so the
// threshold a block is validated with (state of its parent) and the node-wide
// TxTimestampChecker threshold (follows finalised states only) drift apart.
//
// Reference: per chain the set of included ids + the window predicate with the
// threshold stored in the state the block is validated on.

type c11t struct {
	c11 // generator state, helpers and signatures shared with the direct profiles

	ch     *stubChain
	csi    module.ConsensusInfo
	nUser  int
	gov    int // wallet index of the governance account
	thSeen []int64

	thChanges int
}

const tBaseTS = int64(1_000_000_000) // block time of the first block after genesis (us)

func runC11Transitions(rc *kit.RunCtx) {
	s := &c11t{}
	s.rc, s.t, s.used = rc, rc.Tape, map[txKey]bool{}
	defer s.cleanupT()
	if !s.setupT() {
		return
	}
	n := s.t.Range("nsteps", 8, 30)
	if rc.Tier == "thorough" {
		n += s.t.Range("nsteps+", 0, 40)
	}
	for i := 0; i < n && !rc.Failed(); i++ {
		rc.Steps++
		s.stepT()
	}
	rc.Metric("blocks", int64(len(s.blocks)))
	rc.Metric("finalised", int64(s.finalised))
	rc.Metric("threshold_changes", int64(s.thChanges))
	rc.Nontrivial = s.replayAttempts > 0 && s.finalised > 0
}

func (s *c11t) cleanupT() {
	if s.sc != nil && s.sc.v != nil {
		s.releaseView(s.sc.v)
	}
	if s.lm != nil {
		done := make(chan struct{})
		go func() { s.lm.Term(); close(done) }()
		synctest.Wait()
		<-done
	}
	synctest.Wait()
}

func (s *c11t) setupT() bool {
	t := s.t
	s.family = []byte(fmt.Sprintf("chainsim-family-%d", t.Choose("wallet-family", 4)))
	s.group = module.TransactionGroupNormal
	s.nUser, s.gov = 3, 3
	th0ms := []int64{5, 2, 10, 1, 3}[t.Choose("th0-ms", 5)]
	s.rc.Config["profile"] = "transitions"
	s.rc.Config["th0_ms"] = th0ms

	s.st = newStore()
	s.gen = 1
	v := s.st.newView(1, true)
	s.sc = &sched{rc: s.rc, v: v}
	logger := quietLogger()
	lm, err := txlocator.NewManager(v, logger)
	must(err)
	s.lm = lm
	s.tsc = service.NewTimestampChecker()
	s.tim, err = service.NewTXIDManager(lm, s.tsc, nil)
	must(err)
	cm, err := basic.Platform.NewContractManager(v, filepath.Join(s.rc.Scratch, "contract"), logger)
	must(err)
	s.ch = &stubChain{v: v}
	s.csi = common.NewConsensusInfo(nil, nil, nil)

	// real genesis: accounts (the one named "governance" becomes the chain's governance
	// address), chain SCORE installed with the initial timestamp threshold, no fees
	var accs []string
	for i := 0; i <= s.gov+1; i++ {
		name := fmt.Sprintf("user%d", i)
		switch i {
		case s.gov:
			name = "governance"
		case s.gov + 1:
			name = "god"
		}
		accs = append(accs, fmt.Sprintf(`{"name":"%s","address":"%s","balance":"0x2540be400"}`, name, walletFor(s.family, i).Address().String()))
	}
	accs = append(accs, `{"name":"treasury","address":"hx1000000000000000000000000000000000000000","balance":"0x0"}`)
	gjs := fmt.Sprintf(`{"accounts":[%s],"chain":{"revision":"0x%x","timestampThreshold":"0x%x","fee":{"stepPrice":"0x0","stepLimit":{"invoke":"0x10000000","query":"0x1000000"},"stepCosts":{"default":"0x0"}}},"message":"chainsim","nid":"0x1"}`,
		strings.Join(accs, ","), basic.LatestRevision, th0ms)
	gtx, err := transaction.NewGenesisTransaction([]byte(gjs))
	must(err)
	init, err := service.NewInitTransitionWithTXIDManager(v, nil, nil, cm, nil, s.ch, logger, basic.Platform, s.tsc, s.tim)
	must(err)
	must(service.FinalizeTransition(init, module.FinalizeResult, false))
	gtr := service.NewTransition(init, nil, transaction.NewTransactionListFromSlice(v, []module.Transaction{gtx}), common.NewBlockInfo(0, 0), s.csi, true)
	cb := &trCallback{}
	if _, err := gtr.Execute(cb); err != nil {
		panic(err)
	}
	synctest.Wait()
	if !cb.executed || cb.verr != nil || cb.eerr != nil {
		s.rc.Violate("harness", "genesis", "genesis transition failed: validated=%v verr=%v executed=%v eerr=%v", cb.validated, cb.verr, cb.executed, cb.eerr)
		return false
	}
	var ferr error
	if _, ok := s.sc.runOp(func() {
		ferr = service.FinalizeTransition(gtr, module.FinalizeNormalTransaction|module.FinalizePatchTransaction|module.FinalizeResult|module.KeepingParent, false)
	}, getPlan{}); !ok || ferr != nil {
		s.rc.Violate("harness", "genesis-finalize", "finalising genesis failed: ok=%v err=%v", ok, ferr)
		return false
	}
	base := &blk{n: 0, height: 0, ts: 0, th: th0ms * 1000, state: stFinal, finalGen: 1, tr: gtr, resultFinal: true}
	base.txs = []*txInfo{{tx: gtx, id: string(gtx.ID()), ts: 0, home: base}}
	base.thAfter = s.stateThreshold(gtr)
	if base.thAfter != th0ms*1000 || s.tsc.Threshold() != base.thAfter {
		s.rc.Violate("harness", "genesis-threshold", "threshold after genesis: state %d, checker %d, configured %d", base.thAfter, s.tsc.Threshold(), th0ms*1000)
		return false
	}
	s.blocks = append(s.blocks, base)
	s.last = base
	s.thSeen = []int64{base.thAfter}
	s.rc.Event("genesis th=%dus governance=wallet%d", base.thAfter, s.gov)
	return true
}

// stateThreshold reads the on-chain timestamp threshold (us) from the world state a transition produced.
func (s *c11t) stateThreshold(tr module.Transition) int64 {
	wss := service.WorldSnapshotOfTransition(tr)
	ass := wss.GetAccountSnapshot(state.SystemID)
	ms := scoredb.NewVarDB(scoredb.NewStateStoreWith(ass), state.VarTimestampThreshold).Int64()
	return ms * 1000
}

func (s *c11t) stepT() {
	t := s.t
	var added []*blk
	for i := len(s.blocks) - 1; i >= 0; i-- { // newest first
		if b := s.blocks[i]; b.state == stAdded && s.alive(b) {
			added = append(added, b)
		}
	}
	wFin, wFlush := 0, 0
	if len(added) > 0 {
		wFin = 5
	}
	if s.sc.v.setWaiting.Load() {
		wFlush = 3
	}
	switch t.Weighted("op", 10, wFin, wFlush) {
	case 0:
		s.opBlockT(added)
	case 1:
		s.opFinaliseT(added)
	case 2:
		k := []int{1, 2, 3, 8}[t.Choose("flush-steps", 4)]
		n := 0
		for ; n < k && s.sc.grantSet(false); n++ {
		}
		s.rc.Event("flush steps=%d flushed=%s", n, s.flushState())
	}
}

// tsFor draws a timestamp for a new transaction of block b: on the window edges of b
// under its own threshold, under every other threshold seen on the chain or held by
// the node-wide checker, and on the edges of ancestors.
func (s *c11t) tsFor(b *blk) (int64, string) {
	t := s.t
	var others []int64
	add := func(th int64) {
		if th == b.th || th <= 0 {
			return
		}
		for _, o := range others {
			if o == th {
				return
			}
		}
		others = append(others, th)
	}
	add(s.tsc.Threshold())
	for a := b.parent; a != nil && len(others) < 4; a = a.parent {
		add(a.th)
		add(a.thAfter)
	}
	wOther := 0
	if len(others) > 0 {
		wOther = 14
	}
	var ts int64
	var how string
	switch t.Weighted("ts-kind", 5, 8, 4, 3, 1, 1, wOther, 5) {
	case 0:
		ts, how = b.ts, "bts"
	case 1:
		ts, how = b.hi(), "bts+th"
	case 2:
		ts, how = b.lo()+1, "bts-th+1"
	case 3:
		ts, how = b.hi()-1, "bts+th-1"
	case 4:
		ts, how = b.lo(), "bts-th"
	case 5:
		ts, how = b.hi()+1, "bts+th+1"
	case 6:
		o := others[t.Choose("ts-other-th", len(others))]
		switch t.Weighted("ts-other-edge", 5, 3, 2, 2, 1) {
		case 0:
			ts, how = b.ts+o, "bts+th'"
		case 1:
			ts, how = b.ts+o+1, "bts+th'+1"
		case 2:
			ts, how = b.ts+o-1, "bts+th'-1"
		case 3:
			ts, how = b.ts-o+1, "bts-th'+1"
		case 4:
			ts, how = b.ts-o, "bts-th'"
		}
	case 7:
		var anc []*blk
		for a := b.parent; a != nil && a.height > 0 && len(anc) < 4; a = a.parent {
			anc = append(anc, a)
		}
		if len(anc) == 0 {
			ts, how = b.ts, "bts"
			break
		}
		a := anc[t.Choose("ts-anc", len(anc))]
		switch t.Weighted("ts-anc-edge", 4, 2, 2, 1) {
		case 0:
			ts, how = a.hi(), "anc.ts+th"
		case 1:
			ts, how = a.hi()-1, "anc.ts+th-1"
		case 2:
			ts, how = a.lo()+1, "anc.ts-th+1"
		case 3:
			ts, how = a.hi()+1, "anc.ts+th+1"
		}
	}
	if !b.inWindow(ts) && !t.Permille("ts-keep-invalid", 120) {
		ts, how = b.hi(), "bts+th"
	}
	return ts, how
}

func (s *c11t) freshTxT(b *blk) *txInfo {
	ts, how := s.tsFor(b)
	ti := s.makeTx(ts)
	ti.fresh = how
	return ti
}

func (s *c11t) setThTx(b *blk) *txInfo {
	t := s.t
	cur := b.th / 1000
	ms := []int64{cur * 2, cur + 1, cur + 3, cur / 2, cur - 1, 1, 20}[t.Weighted("new-th", 4, 2, 2, 3, 2, 1, 1)]
	if ms < 1 {
		ms = 1
	}
	if ms == cur {
		ms = cur + 2
	}
	ts := b.ts
	if t.Choose("setth-ts", 2) == 1 {
		ts = b.hi()
	}
	k := txKey{w: s.gov, to: -1, ts: ts, value: ms}
	for s.used[k] {
		k.nonce++
	}
	s.used[k] = true
	tx := makeSetThresholdTx(walletFor(s.family, s.gov), ts, k.nonce, ms)
	return &txInfo{tx: tx, id: string(tx.ID()), ts: ts, fresh: "setTh", setTh: ms}
}

func (s *c11t) opBlockT(added []*blk) {
	t := s.t
	cands := append(append([]*blk{}, added...), s.last)
	p := cands[0]
	if t.Weighted("parent-mode", 3, 2) == 1 {
		p = cands[t.Choose("parent", len(cands))]
	}
	th := p.thAfter // the threshold stored in the state this block is validated on
	var bts int64
	if p.height == 0 {
		bts = tBaseTS + int64(t.Choose("base-ts", 3))*1000
	} else {
		d := []int64{0, 1, th / 2, th - 1, th, th + 1, 2*th - 1, 2 * th, 2*th + 1, p.th + th, p.th + th + 1, 3 * th}
		bts = p.ts + d[t.Weighted("ts-delta", 5, 3, 3, 2, 2, 1, 2, 2, 1, 2, 1, 1)]
	}
	b := &blk{n: len(s.blocks), parent: p, height: p.height + 1, ts: bts, th: th, state: stPending}
	b.parentFinalAtLogger = p.state == stFinal
	b.parentFinalAtAdd = b.parentFinalAtLogger
	b.checkerTh = s.tsc.Threshold()
	s.blocks = append(s.blocks, b)

	// ---- what the chain of b already contains
	chain := map[string]*blk{}
	var unfinal, final []dupSrc
	for a := p; a != nil; a = a.parent {
		for _, ti := range a.txs {
			chain[ti.id] = a
			if a.height == 0 {
				continue // the genesis transaction is not offered again
			}
			if a.state == stFinal {
				final = append(final, dupSrc{ti, "finalised", a})
			} else {
				unfinal = append(unfinal, dupSrc{ti, "unfinalised", a})
			}
		}
	}
	var sibling []dupSrc
	for _, o := range s.blocks {
		if o == b || o.height == 0 || s.isAncestorOrSelf(o, b) {
			continue
		}
		for _, ti := range o.txs {
			if _, in := chain[ti.id]; !in {
				sibling = append(sibling, dupSrc{ti, "sibling", o})
			}
		}
	}
	pick := func(label string, c []dupSrc) *dupSrc {
		if len(c) == 0 {
			return nil
		}
		var in, band []dupSrc
		for _, d := range c {
			if b.inWindow(d.ti.ts) {
				in = append(in, d)
				// recorded while the checker threshold was below the block's own: the band above it
				if d.hold.checkerTh < d.hold.th && d.ti.ts >= d.hold.ts+d.hold.checkerTh {
					band = append(band, d)
				}
			}
		}
		if len(band) > 0 && t.Permille(label+"-band", 500) {
			c = band
		} else if len(in) > 0 && !t.Permille(label+"-any", 100) {
			c = in
		}
		// the upper-edge-of-an-unfinalised-holder placement is the known finding of the direct
		// profiles (it ends the run); offer it here only now and then so that histories get longer
		var rest []dupSrc
		for _, d := range c {
			if !(d.hold.state != stFinal && d.ti.ts == d.hold.hi()) {
				rest = append(rest, d)
			}
		}
		if len(rest) < len(c) && !t.Permille(label+"-upper-edge", 200) {
			if len(rest) == 0 {
				return nil // a fresh transaction instead
			}
			c = rest
		}
		return &c[t.Choose(label, len(c))]
	}
	n := t.Weighted("ntx", 1, 6, 5, 3)
	var list []*txInfo
	var kinds []string
	for i := 0; i < n; i++ {
		var d *dupSrc
		switch t.Weighted("tx-kind", 6, 5, 4, 1, 1) {
		case 1:
			d = pick("dup-unfinal", unfinal)
		case 2:
			d = pick("dup-final", final)
		case 3:
			if len(list) > 0 {
				d = &dupSrc{list[t.Choose("dup-same", len(list))], "same-list", b}
			}
		case 4:
			d = pick("dup-sibling", sibling)
		}
		if d != nil {
			list = append(list, d.ti)
			kinds = append(kinds, d.kind)
		} else {
			list = append(list, s.freshTxT(b))
			kinds = append(kinds, "fresh:"+list[len(list)-1].fresh)
		}
	}
	if t.Permille("set-threshold", 300) {
		ti := s.setThTx(b)
		list = append(list, ti)
		kinds = append(kinds, fmt.Sprintf("setTh(%dms)", ti.setTh))
	}

	// ---- reference verdict
	type dupAt struct {
		i    int
		hold *blk
		same bool
	}
	var dups []dupAt
	seen := map[string]bool{}
	firstOut := -1
	for i, ti := range list {
		if h, ok := chain[ti.id]; ok {
			dups = append(dups, dupAt{i, h, false})
		} else if seen[ti.id] {
			dups = append(dups, dupAt{i, b, true})
		}
		seen[ti.id] = true
		if !b.inWindow(ti.ts) && firstOut < 0 {
			firstOut = i
		}
		if e := s.edgeName(b, ti.ts); e != "" {
			s.rc.Probe("ts_edge:" + e)
		}
	}
	modelValid := len(dups) == 0 && firstOut < 0

	// ---- the code under test: a peer's validation of this block (real transition)
	l := make([]module.Transaction, len(list))
	for i, ti := range list {
		l[i] = ti.tx
	}
	tr := service.NewTransition(p.tr, nil, transaction.NewTransactionListFromSlice(s.sc.v, l), common.NewBlockInfo(b.height, b.ts), s.csi, false)
	plan := getPlan{}
	if s.sc.v.setWaiting.Load() && t.Permille("yield-in-lookup", 250) {
		plan = getPlan{atGet: 1 + t.Choose("yield-at-get", 3), steps: 1 + t.Choose("yield-steps", 4)}
		s.sc.v.getArm.Store(int32(plan.atGet))
	}
	s.sc.v.takeGets()
	cb := &trCallback{}
	if _, err := tr.Execute(cb); err != nil {
		panic(err)
	}
	for {
		synctest.Wait()
		if !s.sc.v.getWaiting.Load() {
			break
		}
		for i := 0; i < plan.steps && s.sc.grantSet(false); i++ {
			s.rc.Metric("flusher_steps_inside_lookup", 1)
		}
		s.sc.v.getWaiting.Store(false)
		s.sc.v.getGate <- struct{}{}
	}
	s.sc.v.getArm.Store(0)
	gets := s.sc.v.takeGets()
	if !cb.validated {
		s.rc.Violate("operation-stuck", "validation", "%s: validation never reported", b)
		return
	}
	implValid := cb.verr == nil
	var parts []string
	for i, ti := range list {
		g := gets[ti.id]
		if g == "" {
			g = "-"
		}
		parts = append(parts, fmt.Sprintf("%s@%d:%s:db=%s", short(ti.id), ti.ts, kinds[i], g))
	}
	verdict := "accepted"
	if !implValid {
		verdict = "refused:" + errClass(cb.verr)
	}
	s.rc.Event("block %s parent-final=%v checker-th=%d list=[%s] -> %s model-valid=%v",
		b, b.parentFinalAtLogger, b.checkerTh, strings.Join(parts, " "), verdict, modelValid)

	// ---- probes
	if b.checkerTh != b.th {
		s.rc.Probe("block_validated_while_checker_threshold_differs")
		if b.checkerTh < b.th {
			s.rc.Probe("block_validated_before_threshold_state_finalized")
		} else {
			s.rc.Probe("block_validated_before_lowered_threshold_state_finalized")
		}
	} else if p.parent != nil && p.thAfter != p.th {
		s.rc.Probe("block_validated_after_threshold_state_finalized")
	}
	if b.parentFinalAtLogger {
		s.rc.Probe("block_validated_on_finalised_parent")
	} else {
		s.rc.Probe("block_validated_on_unfinalised_parent")
	}
	realAttempt := false
	var firstInWindowDup *dupAt
	for k := range dups {
		d := &dups[k]
		ti := list[d.i]
		if !b.inWindow(ti.ts) {
			s.rc.Probe("dup_outside_window")
			continue
		}
		realAttempt = true
		if firstInWindowDup == nil {
			firstInWindowDup = d
		}
		if !implValid {
			s.rc.Probe("dup_rejected:" + s.holderKind(d.hold, d.same, ti, gets))
		}
		if !d.same {
			if ti.ts == d.hold.hi() {
				s.rc.Probe("dup_at_holder_upper_edge")
			}
			if d.hold.checkerTh < d.hold.th && ti.ts >= d.hold.ts+d.hold.checkerTh {
				s.rc.Probe("dup_in_band_above_checker_threshold")
			}
			if d.hold.th > b.parent.th {
				s.rc.Probe("dup_lookup_through_shrunk_threshold")
			} else if d.hold.th < b.th {
				s.rc.Probe("dup_lookup_after_grown_threshold")
			}
			if ti.setTh != 0 {
				s.rc.Probe("dup_of_governance_tx")
			}
		}
	}
	if realAttempt {
		s.replayAttempts++
	}

	// ---- oracle
	if implValid && !modelValid {
		if firstInWindowDup != nil {
			d := firstInWindowDup
			ti := list[d.i]
			s.rc.Violate("duplicate-accepted", s.dupSignature(b, d.hold, d.same, ti, gets),
				"%s (real transition validation) accepted a list containing tx %s (ts=%d) which is already in %s; checked block window (%d,%d], holder window (%d,%d]; checker threshold at holder validation %d, at this validation %d; parent-final=%v",
				b, short(ti.id), ti.ts, holderStr(d.hold, d.same), b.lo(), b.hi(), d.hold.lo(), d.hold.hi(), d.hold.checkerTh, b.checkerTh, b.parentFinalAtLogger)
			return
		}
		i := firstOut
		if i < 0 {
			i = dups[0].i // only out-of-window duplicates, and they are out of the window: covered by firstOut; defensive
		}
		ti := list[i]
		s.rc.Violate("window-check-wrong", fmt.Sprintf("ts=%s accepted", orStr(s.edgeName(b, ti.ts), s.sideName(b, ti.ts))),
			"%s (real transition validation) accepted tx %s ts=%d outside the window (%d,%d] given by the on-chain threshold %d of the parent state",
			b, short(ti.id), ti.ts, b.lo(), b.hi(), b.th)
		return
	}
	if !implValid && modelValid {
		s.rc.Violate("valid-list-refused", "transition:"+errClass(cb.verr),
			"%s: real transition validation refused a block without duplicate and with every timestamp inside (%d,%d]: %v", b, b.lo(), b.hi(), cb.verr)
		return
	}
	if !implValid {
		b.state = stDead
		return
	}
	if !cb.executed || cb.eerr != nil {
		s.rc.Violate("harness", "execution", "%s: execution of a validated block failed: executed=%v err=%v", b, cb.executed, cb.eerr)
		return
	}
	b.state = stAdded
	b.txs = list
	b.tr = tr
	for _, ti := range list {
		if ti.home == nil {
			ti.home = b
		}
	}
	b.thAfter = s.stateThreshold(tr)
	want := b.th
	for _, ti := range list {
		if ti.setTh != 0 {
			want = ti.setTh * 1000
		}
	}
	if b.thAfter != want {
		s.rc.Violate("harness", "threshold-not-applied", "%s: on-chain threshold after the block is %d, expected %d", b, b.thAfter, want)
		return
	}
	if b.thAfter != b.th {
		s.thChanges++
		s.rc.Probe("threshold_changed_on_chain")
		if b.thAfter > b.th {
			s.rc.Probe("threshold_raised_on_chain")
		} else {
			s.rc.Probe("threshold_lowered_on_chain")
		}
		s.rc.Event("threshold B%d %d -> %d", b.n, b.th, b.thAfter)
	}
	for _, ti := range list {
		if b.checkerTh < b.th && ti.ts >= b.ts+b.checkerTh {
			s.rc.Probe("tx_recorded_in_band_above_checker_threshold")
		}
	}
}

// opFinaliseT finalises a block the way block.Manager.finalize does: the result of
// the parent transition (which is what hands a new on-chain threshold to the node-wide
// checker), then the transactions of the block itself.
func (s *c11t) opFinaliseT(added []*blk) {
	t := s.t
	b := added[0]
	for b.parent != nil && b.parent.state != stFinal {
		b = b.parent
	}
	if t.Weighted("commit-mode", 3, 1) == 1 {
		b = added[t.Choose("commit-which", len(added))]
	}
	var path []*blk
	for x := b; x != nil && x.state != stFinal; x = x.parent {
		path = append(path, x)
	}
	for i := len(path) - 1; i >= 0; i-- {
		x := path[i]
		if !x.parent.resultFinal {
			if err := service.FinalizeTransition(x.parent.tr, module.FinalizeResult, false); err != nil {
				s.rc.Violate("harness", "finalize-result", "%s: FinalizeResult failed: %v", x.parent, err)
				return
			}
			x.parent.resultFinal = true
		}
		var err error
		forced, ok := s.sc.runOp(func() { err = service.FinalizeTransition(x.tr, module.FinalizeNormalTransaction, false) }, getPlan{})
		if !ok {
			s.rc.Violate("operation-stuck", "commit", "%s: FinalizeTransition never returned", x)
			return
		}
		if err != nil {
			s.rc.Violate("commit-refused", "commit:"+errClass(err), "%s: FinalizeTransition failed without any injected fault: %v", x, err)
			return
		}
		x.state = stFinal
		x.finalGen = s.gen
		s.finalised++
		s.rc.Event("finalise B%d forced=%d checker-th=%d flushed=%s", x.n, forced, s.tsc.Threshold(), s.flushState())
	}
	s.last = b
	for _, o := range s.blocks {
		if o.state != stFinal && o.state != stDead && !s.isAncestorOrSelf(b, o) {
			o.state = stDead
		}
	}
}
