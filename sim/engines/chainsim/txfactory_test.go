package chainsim

import (
	"encoding/base64"
	"encoding/binary"
	"fmt"
	"strings"
	"sync"

	"github.com/icon-project/goloop/common/crypto"
	"github.com/icon-project/goloop/common/wallet"
	"github.com/icon-project/goloop/module"
	"github.com/icon-project/goloop/service/transaction"
)

// txKey identifies a signed transaction completely: two runs that ask for the
// same key get byte-identical transactions (RFC 6979 signatures), so the
// process-wide cache below is only a speed-up and cannot influence a run.
type txKey struct {
	w         int
	to        int
	ts        int64
	nonce     int64
	value     int64
	stepLimit int64
	msg       int // bytes of message data (0 = plain transfer)
}

var (
	walletMu   sync.Mutex
	walletsMem = map[string]module.Wallet{}
	txMu       sync.Mutex
)

// walletFor derives a wallet from 8 tape bytes (run "family") and an index.
func walletFor(family []byte, idx int) module.Wallet {
	k := string(family) + fmt.Sprint("/", idx)
	walletMu.Lock()
	defer walletMu.Unlock()
	if w, ok := walletsMem[k]; ok {
		return w
	}
	var seed [40]byte
	copy(seed[:], family)
	binary.BigEndian.PutUint64(seed[32:], uint64(idx)+1)
	sk, err := crypto.ParsePrivateKey(crypto.SHA3Sum256(seed[:]))
	if err != nil {
		panic(err)
	}
	w, err := wallet.NewFromPrivateKey(sk)
	if err != nil {
		panic(err)
	}
	walletsMem[k] = w
	return w
}

var sigExclude = map[string]bool{"signature": true}

// makeTx builds and signs a real v3 transfer transaction.
func makeTx(from module.Wallet, to module.Address, ts, nonce, value, stepLimit int64) transaction.Transaction {
	tx, _ := makeTxJSON(from, to, ts, nonce, value, stepLimit)
	return tx
}

func makeTxJSON(from module.Wallet, to module.Address, ts, nonce, value, stepLimit int64) (transaction.Transaction, []byte) {
	return makeTxJSONMsg(from, to, ts, nonce, value, stepLimit, 0)
}

// makeTxJSONMsg: msg > 0 makes it a transfer carrying msg bytes of message data (a bigger transaction).
func makeTxJSONMsg(from module.Wallet, to module.Address, ts, nonce, value, stepLimit int64, msg int) (transaction.Transaction, []byte) {
	js := fmt.Sprintf(`{"version":"0x3","from":"%s","to":"%s","value":"0x%x","stepLimit":"0x%x","timestamp":"0x%x","nid":"0x1","nonce":"0x%x"}`,
		from.Address().String(), to.String(), value, stepLimit, ts, nonce)
	if msg > 0 {
		js = js[:len(js)-1] + `,"dataType":"message","data":"0x` + strings.Repeat("5a", msg) + `"}`
	}
	bs, err := transaction.SerializeJSON([]byte(js), nil, sigExclude)
	if err != nil {
		panic(err)
	}
	bs = append([]byte("icx_sendTransaction."), bs...)
	sig, err := from.Sign(crypto.SHA3Sum256(bs))
	if err != nil {
		panic(err)
	}
	full := js[:len(js)-1] + `,"signature":"` + base64.StdEncoding.EncodeToString(sig) + `"}`
	tx, err := transaction.NewTransactionFromJSON([]byte(full))
	if err != nil {
		panic(err)
	}
	return tx, []byte(full)
}

// cachedTx returns the signed transfer described by k for the wallet family.
func cachedTx(family []byte, k txKey) transaction.Transaction {
	type ck struct {
		fam string
		k   txKey
	}
	key := ck{string(family), k}
	txMu.Lock()
	if txMemF == nil {
		txMemF = map[any][]byte{}
	}
	bs, ok := txMemF[key]
	txMu.Unlock()
	if ok {
		tx, err := transaction.NewTransactionFromJSON(bs)
		if err != nil {
			panic(err)
		}
		return tx
	}
	from := walletFor(family, k.w)
	to := walletFor(family, k.to)
	tx, js := makeTxJSONMsg(from, to.Address(), k.ts, k.nonce, k.value, k.stepLimit, k.msg)
	txMu.Lock()
	if len(txMemF) > 300000 {
		txMemF = map[any][]byte{}
	}
	txMemF[key] = js
	txMu.Unlock()
	return tx
}

var txMemF map[any][]byte

// signV3 signs a v3 transaction given as JSON without the signature field and parses it.
func signV3(from module.Wallet, js string) (transaction.Transaction, []byte) {
	bs, err := transaction.SerializeJSON([]byte(js), nil, sigExclude)
	if err != nil {
		panic(err)
	}
	bs = append([]byte("icx_sendTransaction."), bs...)
	sig, err := from.Sign(crypto.SHA3Sum256(bs))
	if err != nil {
		panic(err)
	}
	full := js[:len(js)-1] + `,"signature":"` + base64.StdEncoding.EncodeToString(sig) + `"}`
	tx, err := transaction.NewTransactionFromJSON([]byte(full))
	if err != nil {
		panic(err)
	}
	return tx, []byte(full)
}

// makeSetThresholdTx: the governance account calls the chain SCORE's setTimestampThreshold(ms).
func makeSetThresholdTx(from module.Wallet, ts, nonce, ms int64) transaction.Transaction {
	js := fmt.Sprintf(`{"version":"0x3","from":"%s","to":"cx0000000000000000000000000000000000000000","stepLimit":"0x100000","timestamp":"0x%x","nid":"0x1","nonce":"0x%x","dataType":"call","data":{"method":"setTimestampThreshold","params":{"threshold":"0x%x"}}}`,
		from.Address().String(), ts, nonce, ms)
	tx, _ := signV3(from, js)
	return tx
}
