#!/bin/bash
# Builds a VERIF_OVERLAY json that applies proposed_fix_C11.patch (optionally plus one mutant diff from
# /verif/mutants/C11/) to a scratch copy of common/txlocator/manager.go, without touching /repo.
# usage: mkoverlay.sh [mutant.diff]   -> prints the overlay path; use: VERIF_OVERLAY=$(./mkoverlay.sh) ./check.sh C11 quick -no-evidence
set -eu
here=$(cd "$(dirname "$0")" && pwd)
d=/dev/shm/chainsim-overlay-$$
mkdir -p $d
cp /repo/common/txlocator/manager.go $d/manager.go
patch -s $d/manager.go < $here/proposed_fix_C11.patch
repl="\"/repo/common/txlocator/manager.go\":\"$d/manager.go\""
if [ $# -ge 1 ]; then
  rel=$(grep -m1 '^+++ ' "$1" | sed 's#^+++ mutant/##; s#\t.*##')
  if [ "$rel" = "common/txlocator/manager.go" ]; then
    patch -s $d/manager.go < "$1"
  else
    cp /repo/$rel $d/$(basename $rel); patch -s $d/$(basename $rel) < "$1"
    repl="$repl,\"/repo/$rel\":\"$d/$(basename $rel)\""
  fi
fi
echo "{\"Replace\":{$repl}}" > $d/overlay.json
echo $d/overlay.json
