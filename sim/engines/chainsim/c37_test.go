package chainsim

import (
	"fmt"
	"math/big"
	"path/filepath"
	"strings"
	"testing/synctest"
	"time"

	"github.com/icon-project/goloop/common"
	"github.com/icon-project/goloop/common/codec"
	"github.com/icon-project/goloop/common/db"
	"github.com/icon-project/goloop/common/txlocator"
	"github.com/icon-project/goloop/module"
	"github.com/icon-project/goloop/service"
	"github.com/icon-project/goloop/service/platform/basic"
	"github.com/icon-project/goloop/service/scoredb"
	"github.com/icon-project/goloop/service/state"
	"github.com/icon-project/goloop/service/transaction"

	"verif/sim/kit"
)

// ---------------------------------------------------------------------------
// C37: what a proposer takes from its pool is a valid block
//
// Real: TransactionManager + TransactionPool + TXIDManager (with the dropped-tx
// cache) + txlocator manager/flusher, world state / world context, v3
// transactions, and — as the second oracle and to move the chain forward —
// real service transitions (validation, execution by the transfer handler,
// finalisation) on the same TXIDManager.

type stubRegulator struct{}

func (stubRegulator) MaxTxCount() int                                             { return 1000 }
func (stubRegulator) OnPropose(now time.Time)                                     {}
func (stubRegulator) CommitTimeout() time.Duration                                { return time.Second }
func (stubRegulator) MinCommitTimeout() time.Duration                             { return time.Second }
func (stubRegulator) OnTxExecution(count int, ed time.Duration, fd time.Duration) {}
func (stubRegulator) SetBlockInterval(i time.Duration, d time.Duration)           {}

// stubChain: the few things a transition asks its chain. Anything else panics
// (nil embedded interface), which would show up as a harness failure.
type stubChain struct {
	module.Chain
	v *view
}

func (c *stubChain) Database() db.Database             { return c.v }
func (c *stubChain) NID() int                          { return 1 }
func (c *stubChain) CID() int                          { return 1 }
func (c *stubChain) ConcurrencyLevel() int             { return 1 }
func (c *stubChain) Regulator() module.Regulator       { return stubRegulator{} }
func (c *stubChain) TransactionTimeout() time.Duration { return 5 * time.Second }

type nopMonitor struct{}

func (nopMonitor) OnDropTx(n int, user bool)                         {}
func (nopMonitor) OnAddTx(n int, user bool)                          {}
func (nopMonitor) OnRemoveTx(n int, user bool)                       {}
func (nopMonitor) OnCommit(id []byte, ts time.Time, d time.Duration) {}

type trCallback struct {
	validated, executed bool
	verr, eerr          error
}

func (c *trCallback) OnValidate(tr module.Transition, err error) { c.validated, c.verr = true, err }
func (c *trCallback) OnExecute(tr module.Transition, err error)  { c.executed, c.eerr = true, err }

type ptx struct {
	tx        transaction.Transaction
	id        string
	ts        int64
	from, to  int
	value     int64
	stepLimit int64
	msg       int // bytes of message data
	size      int // len(tx.Bytes()): what counts against the block byte budget
	committed bool
}

type c37 struct {
	rc *kit.RunCtx
	t  *kit.Tape
	sc *sched
	st *store
	v  *view

	lm   module.LocatorManager
	tim  service.TXIDManager
	tsc  *service.TxTimestampChecker
	pool *service.TransactionPool
	tm   *service.TransactionManager
	ch   *stubChain

	cur    module.Transition // last finalised transition
	height int64
	lastTS int64

	th       int64 // microseconds
	price    int64
	stepMin  int64
	nw       int
	family   []byte
	addrs    []module.Address
	used     map[txKey]bool
	known    []*ptx
	chainIDs map[string]bool // reference: every id included in a finalised block

	proposalsWithFilter int
	fundedSpends        int
	start               time.Time
}

func nowUS() int64 { return time.Now().UnixNano() / 1000 }

func runC37(rc *kit.RunCtx) {
	s := &c37{rc: rc, t: rc.Tape, used: map[txKey]bool{}, chainIDs: map[string]bool{}, start: time.Now()}
	defer s.cleanup()
	if !s.setup() {
		return
	}
	n := s.t.Range("nsteps", 10, 45)
	if rc.Tier == "thorough" {
		n += s.t.Range("nsteps+", 0, 60)
	}
	for i := 0; i < n && !rc.Failed(); i++ {
		rc.Steps++
		s.step()
	}
	rc.SimTime = time.Since(s.start)
	rc.Metric("blocks", s.height)
	rc.Nontrivial = s.proposalsWithFilter > 0
}

func (s *c37) cleanup() {
	if s.v != nil {
		s.v.freeRun.Store(true)
		if s.v.setWaiting.Load() {
			s.v.setWaiting.Store(false)
			s.v.setGate <- grant{}
		}
	}
	synctest.Wait()
	if s.lm != nil {
		done := make(chan struct{})
		go func() { s.lm.Term(); close(done) }()
		synctest.Wait()
		<-done
	}
	synctest.Wait()
}

func (s *c37) setup() bool {
	t := s.t
	s.family = []byte(fmt.Sprintf("chainsim-family-%d", t.Choose("wallet-family", 4)))
	s.nw = 3 + t.Choose("wallets", 2)
	s.th = []int64{5, 1, 2, 50}[t.Choose("th-ms", 4)] * 1000
	s.price = []int64{10, 0, 1}[t.Choose("step-price", 3)]
	s.stepMin = []int64{100, 0, 1000}[t.Choose("step-default", 3)]
	poolSize := []int{64, 4, 8, 16}[t.Choose("pool-size", 4)]
	s.rc.Config["th_us"] = s.th
	s.rc.Config["step_price"] = s.price
	s.rc.Config["step_default"] = s.stepMin
	s.rc.Config["pool_size"] = poolSize
	s.rc.Config["wallets"] = s.nw

	s.st = newStore()
	s.v = s.st.newView(1, true)
	s.sc = &sched{rc: s.rc, v: s.v}
	logger := quietLogger()

	// a small real world state: system parameters + funded accounts
	ws := state.NewWorldState(s.v, nil, nil, nil, nil)
	as := ws.GetAccountState(state.SystemID)
	must(scoredb.NewVarDB(as, state.VarStepPrice).Set(big.NewInt(s.price)))
	must(scoredb.NewArrayDB(as, state.VarStepTypes).Put(state.StepTypeDefault))
	must(scoredb.NewDictDB(as, state.VarStepCosts, 1).Set(state.StepTypeDefault, s.stepMin))
	must(scoredb.NewVarDB(as, state.VarTimestampThreshold).Set(s.th / 1000))
	must(scoredb.NewVarDB(as, state.VarRevision).Set(basic.LatestRevision))
	var bals []string
	for i := 0; i < s.nw; i++ {
		a := walletFor(s.family, i).Address()
		s.addrs = append(s.addrs, a)
		unit := s.stepMin*s.price + 10 // what one plain transfer of value 10 needs
		bal := []int64{20 * unit, 0, unit, 2 * unit, 3*unit - 1, 1_000_000_000}[t.Weighted("balance", 4, 3, 2, 2, 2, 3)]
		ws.GetAccountState(a.ID()).SetBalance(big.NewInt(bal))
		bals = append(bals, fmt.Sprint(bal))
	}
	s.rc.Config["balances"] = strings.Join(bals, ",")
	wss := ws.GetSnapshot()
	must(wss.Flush())
	result := codec.MustMarshalToBytes(struct{ StateHash, PatchReceiptHash, NormalReceiptHash []byte }{wss.StateHash(), nil, nil})

	lm, err := txlocator.NewManager(s.v, logger)
	must(err)
	s.lm = lm
	s.tsc = service.NewTimestampChecker()
	tic := service.NewTxIDCache(service.ConfigDroppedTxSlotDuration, poolSize, logger)
	s.tim, err = service.NewTXIDManager(lm, s.tsc, tic)
	must(err)
	s.pool = service.NewTransactionPool(module.TransactionGroupNormal, poolSize, s.tim, nopMonitor{}, logger)
	ppool := service.NewTransactionPool(module.TransactionGroupPatch, 2, s.tim, nopMonitor{}, logger)
	s.tm = service.NewTransactionManager(1, s.tsc, ppool, s.pool, s.tim, logger)
	synctest.Wait()
	cm, err := basic.Platform.NewContractManager(s.v, filepath.Join(s.rc.Scratch, "contract"), logger)
	must(err)
	s.ch = &stubChain{v: s.v}
	s.cur, err = service.NewInitTransitionWithTXIDManager(s.v, result, nil, cm, nil, s.ch, logger, basic.Platform, s.tsc, s.tim)
	must(err)
	// block.Manager start-up: finalise the result of the initial transition (this also
	// hands the chain's timestamp threshold to the timestamp checker)
	must(service.FinalizeTransition(s.cur, module.FinalizeResult, false))
	if got := s.tsc.Threshold(); got != s.th {
		s.rc.Violate("harness", "threshold-not-applied", "timestamp checker threshold %d, state says %d", got, s.th)
		return false
	}
	s.lastTS = nowUS()
	s.rc.Event("setup th=%d price=%d step=%d pool=%d balances=%s", s.th, s.price, s.stepMin, poolSize, strings.Join(bals, ","))
	return true
}

func must(err error) {
	if err != nil {
		panic(err)
	}
}

func (s *c37) balanceOf(i int) *big.Int {
	wss := service.WorldSnapshotOfTransition(s.cur)
	ass := wss.GetAccountSnapshot(s.addrs[i].ID())
	if ass == nil {
		return new(big.Int)
	}
	return new(big.Int).Set(ass.GetBalance())
}

func (s *c37) need(p *ptx) *big.Int {
	n := new(big.Int).Mul(big.NewInt(p.stepLimit), big.NewInt(s.price))
	return n.Add(n, big.NewInt(p.value))
}

func (s *c37) step() {
	t := s.t
	wFlush := 0
	if s.v.setWaiting.Load() {
		wFlush = 3
	}
	switch t.Weighted("op", 10, 3, 4, wFlush, 3) {
	case 4:
		s.opFundingChain()
	case 0:
		s.opClient()
	case 1:
		s.opAdvance()
	case 2:
		s.opPropose()
	case 3:
		k := 1 + t.Choose("flush-steps", 4)
		n := 0
		for ; n < k && s.sc.grantSet(false); n++ {
		}
		s.rc.Event("flush steps=%d flushed=%d", n, len(s.v.flushedKeys()))
	}
}

func (s *c37) opAdvance() {
	d := []int64{1, s.th / 2, s.th, s.th - 1, 2*s.th + 1, 1000}[s.t.Choose("advance", 6)]
	time.Sleep(time.Duration(d) * time.Microsecond)
	synctest.Wait()
	s.rc.Event("advance %dus now=+%d", d, nowUS()-s.start.UnixNano()/1000)
}

func (s *c37) newTx() *ptx {
	t := s.t
	now := nowUS()
	from := t.Choose("tx-from", s.nw)
	to := (from + 1 + t.Choose("tx-to", s.nw-1)) % s.nw
	off := []int64{0, s.th, -s.th + 1, s.th + 1, -s.th, s.th / 2, -s.th / 2, 2 * s.th, -2 * s.th, s.th - 1}[t.Weighted("tx-ts", 4, 4, 3, 2, 2, 2, 2, 1, 1, 2)]
	stepLimit := []int64{s.stepMin, 2*s.stepMin + 10, s.stepMin - 1}[t.Weighted("tx-step", 5, 3, 1)]
	if stepLimit < 0 {
		stepLimit = 0
	}
	bal := s.balanceOf(from).Int64()
	fee := stepLimit * s.price
	value := []int64{10, 0, bal - fee, (bal - fee) / 2, bal, 1}[t.Weighted("tx-value", 5, 1, 2, 2, 1, 1)]
	if value < 0 {
		value = 0
	}
	msg := []int{0, 90, 300, 700}[t.Weighted("tx-msg", 6, 2, 2, 1)]
	return s.mkTx(from, to, now+off, value, stepLimit, msg)
}

func (s *c37) mkTx(from, to int, ts, value, stepLimit int64, msg int) *ptx {
	k := txKey{w: from, to: to, ts: ts, value: value, stepLimit: stepLimit, msg: msg}
	for s.used[k] {
		k.nonce++
	}
	s.used[k] = true
	tx := cachedTx(s.family, k)
	p := &ptx{tx: tx, id: string(tx.ID()), ts: k.ts, from: from, to: to, value: value, stepLimit: stepLimit, msg: msg, size: len(tx.Bytes())}
	s.known = append(s.known, p)
	return p
}

func (s *c37) submit(p *ptx, kind string) {
	t := s.t
	var err error
	route := "tm.Add"
	direct := t.Choose("direct", 2) == 0
	if t.Weighted("route", 6, 4) == 1 {
		// straight into the pool, as any pool content is in the property's quantifier
		route = "pool.Add"
		err = s.pool.Add(p.tx, direct)
	} else {
		err = s.tm.Add(p.tx, direct, false)
	}
	synctest.Wait()
	res := "ok"
	if err != nil {
		res = errClass(err)
	}
	if err == nil && p.committed {
		s.rc.Probe("committed_tx_entered_pool")
	}
	s.rc.Event("client %s %s %s ts=now%+d from=%d to=%d value=%d step=%d msg=%d size=%d direct=%v -> %s",
		kind, route, short(p.id), p.ts-nowUS(), p.from, p.to, p.value, p.stepLimit, p.msg, p.size, direct, res)
}

// opFundingChain: a chain of transfers in which every recipient has (almost) nothing and
// spends what it receives: rich -> poor1 -> poor2 ..., the funding transfers optionally
// carrying message data (so that they are the big ones when a byte budget applies).
func (s *c37) opFundingChain() {
	t := s.t
	now := nowUS()
	// order accounts by balance: richest first, then poorest first
	rich := 0
	for i := 1; i < s.nw; i++ {
		if s.balanceOf(i).Cmp(s.balanceOf(rich)) > 0 {
			rich = i
		}
	}
	var poor []int
	for i := 0; i < s.nw; i++ {
		if i != rich {
			poor = append(poor, i)
		}
	}
	for i := 0; i < len(poor); i++ {
		for j := i + 1; j < len(poor); j++ {
			if s.balanceOf(poor[j]).Cmp(s.balanceOf(poor[i])) < 0 {
				poor[i], poor[j] = poor[j], poor[i]
			}
		}
	}
	hops := 1 + t.Choose("chain-hops", 2) // number of spenders of received funds
	if hops > len(poor)-1 {
		hops = len(poor) - 1
	}
	fee := s.stepMin * s.price
	last := int64(1 + 9*t.Choose("chain-last-value", 2)) // value of the last hop
	// amounts from the end: hop i must forward enough for hop i+1 to pay its fee and value
	amounts := make([]int64, hops+1)
	amounts[hops] = last
	for i := hops - 1; i >= 0; i-- {
		amounts[i] = amounts[i+1] + fee + int64(t.Choose("chain-extra", 2))
	}
	if s.balanceOf(rich).Int64() < amounts[0]+fee {
		s.rc.Event("funding-chain skipped: richest account cannot fund it")
		return
	}
	s.rc.Probe("funding_chain_submitted")
	if t.Choose("chain-lead", 2) == 1 {
		// an unrelated small transaction ahead of the chain
		s.submit(s.mkTx(rich, poor[len(poor)-1], now, 1, s.stepMin, 0), "chain-lead")
	}
	senders := append([]int{rich}, poor[:hops]...)
	for i := 0; i <= hops; i++ {
		to := poor[i%len(poor)]
		if i == hops {
			to = poor[len(poor)-1]
			if to == senders[i] {
				to = rich
			}
		}
		msg := 0
		if i < hops {
			msg = []int{0, 200, 600}[t.Weighted("chain-msg", 2, 3, 3)]
		}
		s.submit(s.mkTx(senders[i], to, now, amounts[i], s.stepMin, msg), fmt.Sprintf("chain-hop%d", i))
	}
}

func (s *c37) opClient() {
	t := s.t
	var p *ptx
	kind := "fresh"
	if len(s.known) > 0 && t.Weighted("client-kind", 7, 3) == 1 {
		p = s.known[t.Choose("resubmit", len(s.known))]
		kind = "resubmit"
		if p.committed {
			kind = "resubmit-committed"
			s.rc.Probe("client_resubmits_committed_tx")
		}
	} else {
		p = s.newTx()
	}
	s.submit(p, kind)
}

func (s *c37) txList(ps []*ptx) module.TransactionList {
	l := make([]module.Transaction, len(ps))
	for i, p := range ps {
		l[i] = p.tx
	}
	return transaction.NewTransactionListFromSlice(s.v, l)
}

// validateAsBlock is the reference: the list re-validated as a block on the
// finalised parent, written from the property statement. Returns the first
// offence ("" = valid) and its class.
func (s *c37) validateAsBlock(bts int64, ids []string, byID map[string]*ptx) (class, sig, detail string) {
	bal := map[int]*big.Int{}
	get := func(i int) *big.Int {
		if b, ok := bal[i]; ok {
			return b
		}
		bal[i] = s.balanceOf(i)
		return bal[i]
	}
	seen := map[string]bool{}
	for i, id := range ids {
		p := byID[id]
		if p == nil {
			return "proposed-unknown-tx", "unknown", fmt.Sprintf("position %d: id %s was never given to the pool", i, short(id))
		}
		if !(bts-s.th < p.ts && p.ts <= bts+s.th) {
			side := "ts<=bts-th"
			if p.ts > bts+s.th {
				side = "ts>bts+th"
			}
			return "proposed-tx-outside-window", side, fmt.Sprintf("position %d: tx %s ts=%d, block ts=%d th=%d, window (%d,%d]", i, short(id), p.ts, bts, s.th, bts-s.th, bts+s.th)
		}
		if s.chainIDs[id] {
			return "proposed-tx-already-included", "in-finalised-block", fmt.Sprintf("position %d: tx %s is already in a finalised block", i, short(id))
		}
		if seen[id] {
			return "proposed-tx-already-included", "twice-in-list", fmt.Sprintf("position %d: tx %s appears twice in the proposal", i, short(id))
		}
		seen[id] = true
		if p.stepLimit < s.stepMin {
			return "proposed-tx-fails-prevalidation", "step-limit", fmt.Sprintf("position %d: tx %s stepLimit=%d < %d", i, short(id), p.stepLimit, s.stepMin)
		}
		need := s.need(p)
		if get(p.from).Cmp(need) >= 0 && s.balanceOf(p.from).Cmp(need) < 0 {
			s.fundedSpends++ // affordable only through what earlier transactions of the list transferred to the sender
		}
		if get(p.from).Cmp(need) < 0 {
			return "proposed-tx-fails-prevalidation", "cumulative-balance", fmt.Sprintf("position %d: tx %s needs %s, sender %d has %s left after the transactions selected before it", i, short(id), need, p.from, get(p.from))
		}
		get(p.from).Sub(get(p.from), need)
		get(p.to).Add(get(p.to), big.NewInt(p.value))
	}
	return "", "", ""
}

// execute runs a real transition's validation+execution and waits for it.
func (s *c37) execute(tr module.Transition) *trCallback {
	cb := &trCallback{}
	if _, err := tr.Execute(cb); err != nil {
		panic(err)
	}
	synctest.Wait()
	return cb
}

func (s *c37) opPropose() {
	t := s.t
	bts := nowUS()
	if bts <= s.lastTS {
		bts = s.lastTS + 1
	}
	bi := common.NewBlockInfo(s.height+1, bts)
	byID := map[string]*ptx{}
	var inPool []*ptx
	for _, p := range s.known {
		byID[p.id] = p
	}
	for _, p := range s.known {
		if byID[p.id] == p && s.pool.HasTx([]byte(p.id)) {
			inPool = append(inPool, p)
		}
	}
	// block byte budget (chain MaxBlockTxBytes): unlimited, or drawn so that it ends somewhere
	// inside the pool: the sizes of the first k pooled transactions plus/minus a little
	maxBytes := 0
	switch t.Weighted("max-bytes", 4, 5, 1) {
	case 1:
		k := t.Choose("max-bytes-k", len(inPool)+1)
		next := 130
		for i, p := range inPool {
			if i < k {
				maxBytes += p.size
			} else if i == k {
				next = p.size
			}
		}
		maxBytes += []int{0, -1, next / 2, next - 1, 1, next + 1}[t.Choose("max-bytes-off", 6)]
		if maxBytes < 1 {
			maxBytes = 1
		}
	case 2:
		maxBytes = []int{300, 700}[t.Choose("max-bytes-fixed", 2)]
	}
	maxCount := []int{0, 1, 2, 4}[t.Weighted("max-count", 5, 2, 2, 1)]

	// ---- the proposer (service.manager.ProposeTransition, minus base/dsr transactions)
	ws, err := state.WorldStateFromSnapshot(service.WorldSnapshotOfTransition(s.cur))
	must(err)
	wc := state.NewWorldContext(ws, bi, nil, basic.Platform)
	txs, _ := s.tm.Candidate(module.TransactionGroupNormal, wc, maxBytes, maxCount)
	synctest.Wait() // the pool drops rejected transactions on a goroutine of its own
	ids := make([]string, len(txs))
	var parts []string
	for i, tx := range txs {
		ids[i] = string(tx.ID())
		parts = append(parts, short(ids[i]))
	}
	s.rc.Event("propose h=%d bts=+%d maxBytes=%d maxCount=%d pool=%d -> [%s] pool-after=%d",
		s.height+1, bts-s.start.UnixNano()/1000, maxBytes, maxCount, len(inPool), strings.Join(parts, " "), s.pool.Used())

	// ---- probes: what the pool held that must not be proposed
	sel := map[string]bool{}
	for _, id := range ids {
		sel[id] = true
	}
	filtered := false
	for _, p := range inPool {
		if sel[p.id] {
			continue
		}
		switch {
		case p.ts <= bts-s.th:
			s.rc.Probe("pool_had:expired")
			filtered = true
			if p.ts == bts-s.th {
				s.rc.Probe("pool_had:ts==bts-th")
			}
		case p.ts > bts+s.th:
			s.rc.Probe("pool_had:future")
			filtered = true
			if p.ts == bts+s.th+1 {
				s.rc.Probe("pool_had:ts==bts+th+1")
			}
		case s.chainIDs[p.id]:
			s.rc.Probe("pool_had:committed")
			filtered = true
		case p.stepLimit < s.stepMin:
			s.rc.Probe("pool_had:step-limit-too-low")
			filtered = true
		case s.balanceOf(p.from).Cmp(s.need(p)) < 0:
			s.rc.Probe("pool_had:unaffordable-from-the-start")
			filtered = true
		default:
			if maxCount == 0 && maxBytes == 0 {
				s.rc.Probe("pool_had:unaffordable-after-earlier-selected")
				filtered = true
			}
		}
	}
	for _, id := range ids {
		if p := byID[id]; p != nil {
			if p.ts == bts+s.th {
				s.rc.Probe("selected:ts==bts+th")
			}
			if p.ts == bts-s.th+1 {
				s.rc.Probe("selected:ts==bts-th+1")
			}
		}
	}
	if len(ids) > 0 && filtered {
		s.proposalsWithFilter++
	}
	if len(ids) > 1 {
		s.rc.Probe("proposal_with_several_txs")
	}

	// ---- probes: did a byte/count limit end the selection inside the pool?
	if maxBytes > 0 || maxCount > 0 {
		used := 0
		for _, id := range ids {
			if p := byID[id]; p != nil {
				used += p.size
			}
		}
		var sizeSkipped, fits, appendable int
		for _, p := range inPool {
			if sel[p.id] || !(bts-s.th < p.ts && p.ts <= bts+s.th) || s.chainIDs[p.id] || p.stepLimit < s.stepMin {
				continue
			}
			// would the reference accept it right behind the selected list?
			if c, _, _ := s.validateAsBlock(bts, append(append([]string{}, ids...), p.id), byID); c != "" {
				if maxBytes > 0 && p.size <= maxBytes-used {
					fits++ // small enough, but (at this point) not affordable
				}
				continue
			}
			appendable++
			if maxBytes > 0 && p.size > maxBytes-used {
				sizeSkipped++
			} else if maxBytes > 0 {
				fits++
			}
		}
		if sizeSkipped > 0 {
			s.rc.Probe("tx_skipped_for_size")
			if fits > 0 {
				// the budget was exhausted by a transaction in the middle of the pool while
				// smaller ones were still waiting behind it
				s.rc.Probe("byte_limit_hit_inside_pool")
			}
		}
		if maxCount > 0 && len(ids) == maxCount && appendable > 0 {
			s.rc.Probe("count_limit_hit_inside_pool")
		}
	}

	// ---- oracle 1: independent re-validation as a block
	s.fundedSpends = 0
	if class, sig, detail := s.validateAsBlock(bts, ids, byID); class != "" {
		s.rc.Violate(class, sig, "proposal for height %d (block ts %d): %s", s.height+1, bts, detail)
		return
	}
	if s.fundedSpends > 0 {
		s.rc.Probe("recipient_spends_received_funds")
	}

	// ---- oracle 2: the real validation path of a peer receiving this block
	var sel2 []*ptx
	for _, id := range ids {
		sel2 = append(sel2, byID[id])
	}
	tr := service.NewTransition(s.cur, nil, s.txList(sel2), bi, nil, false)
	cb := s.execute(tr)
	if !cb.validated {
		s.rc.Violate("operation-stuck", "validation", "validation of the proposal never reported")
		return
	}
	if cb.verr != nil {
		s.rc.Violate("proposed-block-rejected-by-validation", errClass(cb.verr),
			"the real validation (service transition, alreadyValidated=false) of the proposal for height %d rejects it: %v", s.height+1, cb.verr)
		return
	}
	if !cb.executed || cb.eerr != nil {
		s.rc.Violate("harness", "execution", "execution of a validated proposal failed: executed=%v err=%v", cb.executed, cb.eerr)
		return
	}

	switch t.Weighted("outcome", 6, 2, 2) {
	case 0:
		s.finalise(tr, sel2, bts, "own")
	case 1:
		s.rc.Event("proposal abandoned")
		s.rc.Probe("proposal_abandoned")
	case 2:
		s.foreignBlock(bts, byID)
	}
}

// finalise does what service.manager.Finalize does for a decided block.
func (s *c37) finalise(tr module.Transition, list []*ptx, bts int64, whose string) {
	var err error
	forced, ok := s.sc.runOp(func() {
		err = service.FinalizeTransition(tr, module.FinalizeNormalTransaction|module.FinalizeResult, false)
	}, getPlan{})
	if !ok {
		s.rc.Violate("operation-stuck", "finalize", "FinalizeTransition never returned")
		return
	}
	if err != nil {
		s.rc.Violate("harness", "finalize", "FinalizeTransition failed without an injected fault: %v", err)
		return
	}
	s.tm.RemoveTxs(module.TransactionGroupNormal, tr.NormalTransactions())
	s.tm.RemoveOldTxByBlockTS(module.TransactionGroupNormal, bts)
	synctest.Wait()
	for _, p := range list {
		p.committed = true
		s.chainIDs[p.id] = true
	}
	s.cur = tr
	s.height++
	s.lastTS = bts
	var bals []string
	for i := range s.addrs {
		bals = append(bals, s.balanceOf(i).String())
	}
	s.rc.Event("finalise %s h=%d txs=%d forced=%d flushed=%d balances=%s pool=%d", whose, s.height, len(list), forced, len(s.v.flushedKeys()), strings.Join(bals, ","), s.pool.Used())
	s.rc.Probe("block_finalised:" + whose)
}

// foreignBlock: another proposer's block wins instead. Its list is put together
// by the harness from known and brand-new transactions and is valid by the reference.
func (s *c37) foreignBlock(bts int64, byID map[string]*ptx) {
	t := s.t
	n := 1 + t.Choose("foreign-n", 3)
	var ids []string
	for i := 0; i < n; i++ {
		var p *ptx
		if len(s.known) > 0 && t.Choose("foreign-known", 2) == 0 {
			p = s.known[t.Choose("foreign-pick", len(s.known))]
		} else {
			p = s.newTx()
			byID[p.id] = p
		}
		trial := append(append([]string{}, ids...), p.id)
		if c, _, _ := s.validateAsBlock(bts, trial, byID); c == "" {
			ids = trial
		}
	}
	var list []*ptx
	for _, id := range ids {
		list = append(list, byID[id])
	}
	bi := common.NewBlockInfo(s.height+1, bts)
	tr := service.NewTransition(s.cur, nil, s.txList(list), bi, nil, false)
	cb := s.execute(tr)
	if !cb.validated || cb.verr != nil || !cb.executed || cb.eerr != nil {
		s.rc.Violate("reference-valid-block-refused", "foreign-block",
			"a block that is valid by the reference (window, no repeated id, cumulative balance) is refused by the real validation: validated=%v verr=%v executed=%v eerr=%v",
			cb.validated, cb.verr, cb.executed, cb.eerr)
		return
	}
	s.finalise(tr, list, bts, "foreign")
}
