package chainsim

import (
	"fmt"
	"strings"
	"testing/synctest"
	"time"

	"github.com/icon-project/goloop/common/txlocator"
	"github.com/icon-project/goloop/module"
	"github.com/icon-project/goloop/service"
	"github.com/icon-project/goloop/service/transaction"

	"verif/sim/kit"
)

// ---------------------------------------------------------------------------
// C11: replay protection over trees of blocks

type txInfo struct {
	tx    transaction.Transaction
	id    string
	ts    int64
	home  *blk   // first block that included it (for signatures/probes)
	fresh string // how its timestamp was chosen
	setTh int64  // profile "transitions": governance call setTimestampThreshold(setTh ms); 0 = plain transfer
}

const (
	stPending = iota // logger created, list not yet validated
	stAdded          // list validated and recorded, not finalised
	stFinal
	stDead // on a branch that lost against a finalised sibling, or failed validation
)

type blk struct {
	n      int
	parent *blk
	height int64
	ts, th int64
	txs    []*txInfo
	logger service.TXIDLogger
	state  int
	// commit timing of the parent relative to this block's life (probes)
	parentFinalAtLogger bool
	parentFinalAtAdd    bool
	finalGen            int // manager incarnation that finalised it

	// profile "transitions" only
	tr          module.Transition // the real service transition carrying this block's transactions
	thAfter     int64             // on-chain threshold (us) in the state produced by this block
	checkerTh   int64             // node-wide TxTimestampChecker threshold (us) when the block was validated
	resultFinal bool              // FinalizeResult done for tr
}

func (b *blk) lo() int64 { return b.ts - b.th } // exclusive
func (b *blk) hi() int64 { return b.ts + b.th } // inclusive

// the window predicate of the property statement
func (b *blk) inWindow(ts int64) bool { return b.ts-b.th < ts && ts <= b.ts+b.th }

func (b *blk) String() string {
	p := -1
	if b.parent != nil {
		p = b.parent.n
	}
	return fmt.Sprintf("B%d(p=B%d h=%d ts=%d th=%d)", b.n, p, b.height, b.ts, b.th)
}

type c11 struct {
	rc    *kit.RunCtx
	t     *kit.Tape
	sc    *sched
	st    *store
	gen   int
	lm    module.LocatorManager
	tim   service.TXIDManager
	tsc   *service.TxTimestampChecker
	group module.TransactionGroup

	family  []byte
	used    map[txKey]bool
	blocks  []*blk
	last    *blk // last finalised
	thMode  int
	thVals  []int64
	relaxed bool // an injected error fired: false rejects / failed commits are tolerated from now on
	broken  bool // the manager reported a flush failure (it is allowed to refuse everything)
	stop    bool // end the run (observation outside the statement)
	faults  bool
	crashes bool

	replayAttempts int
	finalised      int
}

var thresholdChoices = []int64{10, 4, 20, 7, 1, 40, 2}

func runC11(rc *kit.RunCtx) {
	s := &c11{rc: rc, t: rc.Tape, used: map[txKey]bool{}}
	switch rc.Profile {
	case "faults":
		s.faults, s.crashes = true, true
	case "crash":
		s.crashes = true
	case "transitions":
		runC11Transitions(rc)
		return
	}
	defer s.cleanup()
	s.setup()
	n := s.t.Range("nsteps", 8, 40)
	if rc.Tier == "thorough" {
		n += s.t.Range("nsteps+", 0, 40)
	}
	for i := 0; i < n && !rc.Failed() && !s.stop; i++ {
		rc.Steps++
		s.step()
	}
	rc.Metric("blocks", int64(len(s.blocks)))
	rc.Metric("finalised", int64(s.finalised))
	rc.Nontrivial = s.replayAttempts > 0 && s.finalised > 0
}

func (s *c11) cleanup() {
	// let every parked goroutine run to its end so that the bubble can close
	if s.sc != nil && s.sc.v != nil {
		s.releaseView(s.sc.v)
	}
	synctest.Wait()
}

func (s *c11) releaseView(v *view) {
	v.freeRun.Store(true)
	if v.setWaiting.Load() {
		v.setWaiting.Store(false)
		v.setGate <- grant{fail: v.dead.Load()}
	}
	if v.getWaiting.Load() {
		v.getWaiting.Store(false)
		v.getGate <- struct{}{}
	}
	synctest.Wait()
}

func (s *c11) newManager() {
	s.gen++
	v := s.st.newView(s.gen, s.group == module.TransactionGroupNormal)
	lm, err := txlocator.NewManager(v, quietLogger())
	if err != nil {
		panic(err)
	}
	tim, err := service.NewTXIDManager(lm, s.tsc, nil)
	if err != nil {
		panic(err)
	}
	s.lm, s.tim = lm, tim
	if s.sc == nil {
		s.sc = &sched{rc: s.rc}
	}
	s.sc.v = v
}

func (s *c11) setup() {
	t := s.t
	s.family = []byte(fmt.Sprintf("chainsim-family-%d", t.Choose("wallet-family", 4)))
	s.group = module.TransactionGroupNormal
	if t.Weighted("group", 4, 1) == 1 {
		s.group = module.TransactionGroupPatch
	}
	s.thMode = t.Weighted("th-mode", 4, 2, 2, 2) // const, grow, shrink, free
	th0 := thresholdChoices[t.Choose("th0", len(thresholdChoices))]
	s.tsc = service.NewTimestampChecker()
	s.tsc.SetThreshold(time.Duration(th0) * time.Microsecond)
	s.st = newStore()
	s.newManager()
	s.rc.Config["group"] = int(s.group)
	s.rc.Config["th_mode"] = []string{"const", "grow", "shrink", "free"}[s.thMode]
	s.rc.Config["th0"] = th0
	s.rc.Config["profile"] = s.rc.Profile

	// The state every node starts from: a last finalised block whose list is
	// recorded with force=true on a logger made from the root logger, then
	// committed (block.Manager does exactly this on start-up).
	base := &blk{n: 0, height: 10, ts: 1_000_000 + int64(t.Choose("base-ts", 3))*1000, th: th0, state: stAdded}
	s.blocks = append(s.blocks, base)
	nb := t.Range("base-ntx", 0, 3)
	for i := 0; i < nb; i++ {
		ti := s.freshTx(base)
		if !base.inWindow(ti.ts) {
			continue // the start-up state is a valid finalised block
		}
		ti.home = base
		base.txs = append(base.txs, ti)
	}
	s.rc.Event("base %s txs=%s", base, s.listStr(base.txs))
	if !s.recommit(base) {
		return
	}
}

// recommit performs the start-up procedure for the last finalised block.
func (s *c11) recommit(b *blk) bool {
	root := s.tim.NewLogger(s.group, 0, 0)
	b.logger = root.NewLogger(b.height, b.ts, b.th)
	if _, err := b.logger.Add(s.txList(b.txs), true); err != nil {
		s.rc.Violate("startup-record-failed", "add-force", "%s: Add(force) failed: %v", b, err)
		return false
	}
	var err error
	forced, ok := s.sc.runOp(func() { err = b.logger.Commit() }, getPlan{})
	if !ok {
		s.rc.Violate("operation-stuck", "startup-commit", "%s: Commit never returned", b)
		return false
	}
	if err != nil {
		s.rc.Violate("startup-commit-failed", "commit", "%s: Commit failed: %v", b, err)
		return false
	}
	b.state = stFinal
	b.finalGen = s.gen
	s.last = b
	s.rc.Event("startup-commit B%d gen=%d forced=%d flushed=%s", b.n, s.gen, forced, s.flushState())
	return true
}

func (s *c11) txList(txs []*txInfo) module.TransactionList {
	l := make([]module.Transaction, len(txs))
	for i, ti := range txs {
		l[i] = ti.tx
	}
	return transaction.NewTransactionListFromSlice(s.sc.v, l)
}

func (s *c11) listStr(txs []*txInfo) string {
	var sb strings.Builder
	sb.WriteByte('[')
	for i, ti := range txs {
		if i > 0 {
			sb.WriteByte(' ')
		}
		fmt.Fprintf(&sb, "%s@%d", short(ti.id), ti.ts)
	}
	sb.WriteByte(']')
	return sb.String()
}

// flushState: how many locator keys have reached the store through the current view.
func (s *c11) flushState() string {
	return fmt.Sprintf("%d", len(s.sc.v.flushedKeys()))
}

// ---------------------------------------------------------------------------
// generation

func (s *c11) makeTx(ts int64) *txInfo {
	w := s.t.Choose("tx-from", 3)
	k := txKey{w: w, to: (w + 1) % 3, ts: ts, value: 1, stepLimit: 100000}
	for s.used[k] {
		k.nonce++
	}
	s.used[k] = true
	tx := cachedTx(s.family, k)
	return &txInfo{tx: tx, id: string(tx.ID()), ts: ts}
}

// freshTx draws a new transaction for block b with its timestamp on or next to
// a window edge of b or of one of b's ancestors.
func (s *c11) freshTx(b *blk) *txInfo {
	t := s.t
	var ts int64
	var how string
	switch t.Weighted("ts-kind", 5, 10, 6, 4, 1, 1, 6) {
	case 0:
		ts, how = b.ts, "bts"
	case 1:
		ts, how = b.hi(), "bts+th"
	case 2:
		ts, how = b.lo()+1, "bts-th+1"
	case 3:
		ts, how = b.hi()-1, "bts+th-1"
	case 4:
		ts, how = b.lo(), "bts-th"
	case 5:
		ts, how = b.hi()+1, "bts+th+1"
	case 6:
		// an edge of an ancestor's window
		var anc []*blk
		for a := b.parent; a != nil && len(anc) < 5; a = a.parent {
			anc = append(anc, a)
		}
		if len(anc) == 0 {
			ts, how = b.ts, "bts"
			break
		}
		a := anc[t.Choose("ts-anc", len(anc))]
		switch t.Weighted("ts-anc-edge", 4, 2, 2, 1, 1) {
		case 0:
			ts, how = a.hi(), "anc.ts+th"
		case 1:
			ts, how = a.hi()-1, "anc.ts+th-1"
		case 2:
			ts, how = a.lo()+1, "anc.ts-th+1"
		case 3:
			ts, how = a.hi()+1, "anc.ts+th+1"
		case 4:
			ts, how = a.lo(), "anc.ts-th"
		}
		if !b.inWindow(ts) && !t.Permille("ts-anc-keep-invalid", 150) {
			ts, how = b.hi(), "bts+th"
		}
	}
	ti := s.makeTx(ts)
	ti.fresh = how
	return ti
}

func (s *c11) isAncestorOrSelf(a, b *blk) bool {
	for x := b; x != nil; x = x.parent {
		if x == a {
			return true
		}
	}
	return false
}

func (s *c11) alive(b *blk) bool {
	for x := b; x != nil && x != s.last; x = x.parent {
		if x.state == stDead || x.state == stFinal {
			return false // stFinal here: a finalised block other than the head is not a live tip
		}
	}
	return s.isAncestorOrSelf(s.last, b)
}

func (s *c11) nextTh(p *blk) int64 {
	t := s.t
	switch s.thMode {
	case 1:
		th := p.th + []int64{0, 1, 2, p.th, 3 * p.th}[t.Choose("th-grow", 5)]
		if th > 100_000 { // keeps every window edge a positive timestamp (base time is 1e6)
			th = 100_000
		}
		return th
	case 2:
		th := p.th - []int64{0, 1, 2, p.th / 2, p.th - 1}[t.Choose("th-shrink", 5)]
		if th < 1 {
			th = 1
		}
		return th
	case 3:
		return thresholdChoices[t.Choose("th-free", len(thresholdChoices))]
	}
	return p.th
}

func (s *c11) step() {
	t := s.t
	var pending, added []*blk
	for i := len(s.blocks) - 1; i >= 0; i-- { // newest first
		b := s.blocks[i]
		if !s.alive(b) {
			continue
		}
		switch b.state {
		case stPending:
			pending = append(pending, b)
		case stAdded:
			added = append(added, b)
		}
	}
	wCrash, wFlush := 0, 0
	if s.crashes && !s.relaxed { // after a write error the database is not trusted to be complete: no restart from it
		wCrash = 1
	}
	if s.sc.v.setWaiting.Load() {
		wFlush = 4
	}
	wCommit := 0
	if len(added) > 0 {
		wCommit = 5
	}
	wAddPending := 0
	if len(pending) > 0 {
		wAddPending = 6
	}
	switch t.Weighted("op", 8, 3, wAddPending, wCommit, wFlush, wCrash) {
	case 0:
		if b := s.opNewBlock(added); b != nil {
			s.opAdd(b)
		}
	case 1:
		s.opNewBlock(added)
	case 2:
		s.opAdd(pending[t.Choose("which-pending", len(pending))])
	case 3:
		s.opCommit(added)
	case 4:
		s.opFlush()
	case 5:
		s.opCrash()
	}
}

func (s *c11) opNewBlock(added []*blk) *blk {
	t := s.t
	// candidates: unfinalised recorded blocks (newest first), then the finalised head
	cands := append(append([]*blk{}, added...), s.last)
	p := cands[0]
	if t.Weighted("parent-mode", 3, 2) == 1 {
		p = cands[t.Choose("parent", len(cands))]
	}
	th := s.nextTh(p)
	d := []int64{0, 1, p.th / 2, p.th - 1, p.th, p.th + 1, 2*p.th - 1, 2 * p.th, 2*p.th + 1, 3 * p.th, p.th + th, p.th + th + 1}
	delta := d[t.Weighted("ts-delta", 4, 3, 3, 2, 2, 1, 2, 3, 2, 1, 2, 1)]
	if delta < 0 {
		delta = 0
	}
	b := &blk{n: len(s.blocks), parent: p, height: p.height + 1, ts: p.ts + delta, th: th, state: stPending}
	b.parentFinalAtLogger = p.state == stFinal
	b.logger = p.logger.NewLogger(b.height, b.ts, b.th)
	s.blocks = append(s.blocks, b)
	s.rc.Event("new %s parent-final=%v", b, b.parentFinalAtLogger)
	if b.th > p.th {
		s.rc.Probe("th_grow_step")
	} else if b.th < p.th {
		s.rc.Probe("th_shrink_step")
	}
	return b
}

type dupSrc struct {
	ti   *txInfo
	kind string // same-list | unfinalised | finalised | sibling
	hold *blk
}

// overlap: the validation (Add) of a pending block runs while an ancestor is being finalised on
// another goroutine (a block manager finalises under its own lock while transitions validate in
// theirs). exec runs the Commit with add started as soon as the Commit waits for the flusher.
type overlap struct {
	target *blk // the block being finalised
	exec   func(add func(), plan getPlan) (forced int, ok bool)
	finish func()
}

func (s *c11) opAdd(b *blk) { s.opAddDuring(b, nil) }

func (s *c11) opAddDuring(b *blk, ov *overlap) {
	s.addBody(b, ov)
	if ov != nil && !s.rc.Failed() && !s.stop {
		ov.finish()
	}
}

func (s *c11) addBody(b *blk, ov *overlap) {
	t := s.t
	b.parentFinalAtAdd = b.parent.state == stFinal
	// what the chain of b already contains (reference model: a set per chain)
	chain := map[string]*blk{}
	var unfinal, final []dupSrc
	for a := b.parent; a != nil; a = a.parent {
		for _, ti := range a.txs {
			chain[ti.id] = a
			if a.state == stFinal {
				final = append(final, dupSrc{ti, "finalised", a})
			} else {
				unfinal = append(unfinal, dupSrc{ti, "unfinalised", a})
			}
		}
	}
	var sibling []dupSrc
	for _, o := range s.blocks {
		if o.state == stPending || s.isAncestorOrSelf(o, b) {
			continue
		}
		for _, ti := range o.txs {
			if _, in := chain[ti.id]; !in {
				sibling = append(sibling, dupSrc{ti, "sibling", o})
			}
		}
	}
	pick := func(label string, c []dupSrc) *dupSrc {
		if len(c) == 0 {
			return nil
		}
		// prefer transactions that are valid in b: only those are real replay attempts
		var in []dupSrc
		for _, d := range c {
			if b.inWindow(d.ti.ts) {
				in = append(in, d)
			}
		}
		if len(in) > 0 && !t.Permille(label+"-any", 120) {
			c = in
		}
		return &c[t.Choose(label, len(c))]
	}
	n := t.Weighted("ntx", 2, 6, 5, 3, 2)
	var list []*txInfo
	var kinds []string
	for i := 0; i < n; i++ {
		var d *dupSrc
		switch t.Weighted("tx-kind", 6, 4, 4, 1, 1) {
		case 1:
			d = pick("dup-unfinal", unfinal)
			if ov != nil && len(ov.target.txs) > 0 && t.Permille("dup-from-commit-target", 500) {
				ti := ov.target.txs[t.Choose("dup-target-tx", len(ov.target.txs))]
				d = &dupSrc{ti, "unfinalised", ov.target}
			}
		case 2:
			d = pick("dup-final", final)
		case 3:
			if len(list) > 0 {
				d = &dupSrc{list[t.Choose("dup-same", len(list))], "same-list", b}
			}
		case 4:
			d = pick("dup-sibling", sibling)
		}
		if d != nil {
			list = append(list, d.ti)
			kinds = append(kinds, d.kind)
		} else {
			list = append(list, s.freshTx(b))
			kinds = append(kinds, "fresh:"+list[len(list)-1].fresh)
		}
	}

	// ---- reference verdict
	type dupAt struct {
		i    int
		hold *blk
		same bool
	}
	var dups []dupAt
	seen := map[string]bool{}
	allIn := true
	for i, ti := range list {
		if h, ok := chain[ti.id]; ok {
			dups = append(dups, dupAt{i, h, false})
		} else if seen[ti.id] {
			dups = append(dups, dupAt{i, b, true})
		}
		seen[ti.id] = true
		if !b.inWindow(ti.ts) {
			allIn = false
		}
	}
	modelValid := len(dups) == 0 && allIn

	// ---- the code under test: record ids (validation path, force=false), then the window check
	plan := getPlan{}
	if s.sc.v.setWaiting.Load() && t.Permille("yield-in-lookup", 250) {
		plan = getPlan{atGet: 1 + t.Choose("yield-at-get", 3), steps: 1 + t.Choose("yield-steps", 4)}
	}
	s.sc.v.takeGets()
	var addErr error
	var cnt int
	addFn := func() { cnt, addErr = b.logger.Add(s.txList(list), false) }
	var forced int
	var ok bool
	if ov != nil {
		s.rc.Event("add %s starts while an ancestor is being finalised", b)
		forced, ok = ov.exec(addFn, plan)
	} else {
		forced, ok = s.sc.runOp(addFn, plan)
	}
	if !ok {
		s.rc.Violate("operation-stuck", "add", "%s: Add never returned", b)
		return
	}
	gets := s.sc.v.takeGets()
	tsr := service.NewTimestampRange(b.ts, b.th)
	tsOK := true
	var parts []string
	for i, ti := range list {
		err := tsr.CheckTx(ti.tx)
		want := b.inWindow(ti.ts)
		edge := s.edgeName(b, ti.ts)
		if edge != "" {
			s.rc.Probe("ts_edge:" + edge)
		}
		if (err == nil) != want {
			s.rc.Event("add %s list=%s", b, s.listStr(list))
			verdict := "accepted"
			if err != nil {
				verdict = "rejected"
			}
			s.rc.Violate("window-check-wrong", fmt.Sprintf("ts=%s %s", orStr(edge, s.sideName(b, ti.ts)), verdict),
				"%s: CheckTxTimestamp for tx %s ts=%d returned %v, window predicate (%d < ts <= %d) says in=%v",
				b, short(ti.id), ti.ts, err, b.lo(), b.hi(), want)
			return
		}
		if err != nil {
			tsOK = false
		}
		g := gets[ti.id]
		if g == "" {
			g = "-"
		}
		parts = append(parts, fmt.Sprintf("%s@%d:%s:db=%s", short(ti.id), ti.ts, kinds[i], g))
	}
	implValid := addErr == nil && tsOK
	errStr := "ok"
	if addErr != nil {
		errStr = "err:" + errClass(addErr)
	}
	s.rc.Event("add %s parent-final=%v list=[%s] -> add=%s cnt=%d ts-ok=%v forced=%d model-valid=%v",
		b, b.parentFinalAtAdd, strings.Join(parts, " "), errStr, cnt, tsOK, forced, modelValid)

	// ---- probes for what was exercised
	realAttempt := false
	for _, d := range dups {
		ti := list[d.i]
		if !b.inWindow(ti.ts) {
			s.rc.Probe("dup_outside_window")
			continue
		}
		realAttempt = true
		where := s.holderKind(d.hold, d.same, ti, gets)
		if addErr != nil {
			s.rc.Probe("dup_rejected:" + where)
		}
		if !d.same {
			if ti.ts == d.hold.hi() {
				s.rc.Probe("dup_at_holder_upper_edge")
			}
			if d.hold.th > b.parent.th {
				s.rc.Probe("dup_lookup_through_shrunk_threshold")
			} else if d.hold.th < b.th {
				s.rc.Probe("dup_lookup_after_grown_threshold")
			}
		}
	}
	if realAttempt {
		s.replayAttempts++
	}
	if addErr == nil && len(dups) == 0 {
		for i := range list {
			if kinds[i] == "sibling" {
				s.rc.Probe("sibling_branch_tx_accepted")
			}
		}
	}
	if b.parent.state == stFinal {
		switch {
		case b.parentFinalAtLogger:
			s.rc.Probe("parent_committed_before_child_logger")
		default:
			s.rc.Probe("parent_committed_between_child_logger_and_add")
		}
	}

	// ---- oracle
	if implValid && !modelValid {
		// all timestamps are inside the window (tsOK and the window oracle agreed), so there is a duplicate
		d := dups[0]
		ti := list[d.i]
		sig := s.dupSignature(b, d.hold, d.same, ti, gets)
		if sig == "after-flush-error" {
			// C11 is stated over chains, timestamps and thresholds, not over I/O
			// errors: a manager that shut itself down after an *injected* write
			// error and then answers "absent" is outside the statement. It ends the
			// run and is counted (DESIGN.md, observations), never reported.
			s.rc.Probe("observation_duplicate_accepted_after_flush_error")
			s.stop = true
			return
		}
		s.rc.Violate("duplicate-accepted", sig,
			"%s accepted a list containing tx %s (ts=%d) which is already in %s; checked block window (%d,%d], holder window (%d,%d]; parent-final-at-logger=%v at-add=%v; broken-manager=%v",
			b, short(ti.id), ti.ts, holderStr(d.hold, d.same), b.lo(), b.hi(), d.hold.lo(), d.hold.hi(), b.parentFinalAtLogger, b.parentFinalAtAdd, s.broken)
		return
	}
	if addErr != nil && len(dups) == 0 && !s.relaxed {
		s.rc.Violate("valid-list-refused", "add:"+errClass(addErr),
			"%s: Add refused a list without any duplicate: %v", b, addErr)
		return
	}
	if modelValid && implValid {
		b.state = stAdded
		b.txs = list
		for _, ti := range list {
			if ti.home == nil {
				ti.home = b
			}
		}
	} else {
		b.state = stDead // an invalid block is discarded
	}
}

func orStr(a, b string) string {
	if a != "" {
		return a
	}
	return b
}

func (s *c11) edgeName(b *blk, ts int64) string {
	switch ts {
	case b.lo():
		return "bts-th"
	case b.lo() + 1:
		return "bts-th+1"
	case b.hi():
		return "bts+th"
	case b.hi() + 1:
		return "bts+th+1"
	}
	return ""
}

func (s *c11) sideName(b *blk, ts int64) string {
	switch {
	case ts <= b.lo():
		return "below"
	case ts > b.hi():
		return "above"
	}
	return "inside"
}

func holderStr(h *blk, same bool) string {
	if same {
		return "the same list"
	}
	st := "unfinalised"
	if h.state == stFinal {
		st = "finalised"
	}
	return fmt.Sprintf("%s ancestor %s", st, h)
}

// holderKind names where the first inclusion lives, from observations only:
// the block's state in the model, whether its flush is complete (keys seen by
// simdb), and whether the manager went to the database for this id.
func (s *c11) holderKind(h *blk, same bool, ti *txInfo, gets map[string]string) string {
	if same {
		return "same-list"
	}
	if h.state != stFinal {
		return "unfinalised-ancestor"
	}
	if h.finalGen == s.gen && !s.fullyFlushed(h) {
		return "finalised-being-flushed"
	}
	switch gets[ti.id] {
	case "hit":
		if h.finalGen != s.gen {
			return "finalised-in-db-after-restart"
		}
		return "finalised-evicted-in-db"
	case "miss":
		return "finalised-db-miss"
	}
	return "finalised-cached"
}

func (s *c11) fullyFlushed(h *blk) bool {
	keys := map[string]bool{}
	s.st.mu.Lock()
	for _, j := range s.st.journal {
		keys[j.key] = true
	}
	s.st.mu.Unlock()
	for _, ti := range h.txs {
		if !keys[ti.id] {
			return false
		}
	}
	return true
}

// dupSignature describes the failing input shape, stable across seeds.
func (s *c11) dupSignature(b, h *blk, same bool, ti *txInfo, gets map[string]string) string {
	if same {
		return "holder=same-list"
	}
	if s.broken {
		// the manager has shut itself down after a failed flush: one finding, whatever the placement
		return "after-flush-error"
	}
	var sb strings.Builder
	if h.state == stFinal {
		sb.WriteString("holder=finalised")
		switch gets[ti.id] {
		case "hit":
			sb.WriteString(",db-lookup=hit")
		case "miss":
			sb.WriteString(",db-lookup=miss")
		default:
			sb.WriteString(",db-lookup=none")
		}
		if h.finalGen != s.gen {
			sb.WriteString(",holder-flushed-before-restart")
			// The bound a restarted manager keeps for "nothing newer than this is in the database" is
			// learnt only from lists it evicted itself. It can wrongly rule out this timestamp only if
			// some list finalised after the restart has a window that ends before it (block timestamps
			// do not decrease, so that needs a threshold lowered in between). Without such a list the
			// known restart defect cannot explain the miss.
			newer := false
			for _, l := range s.blocks {
				if l != h && l.state == stFinal && l.finalGen == s.gen && l.hi() < ti.ts {
					newer = true
					break
				}
			}
			if newer {
				sb.WriteString(",newer-window-ends-before-ts")
			} else {
				sb.WriteString(",no-newer-window-ends-before-ts")
			}
		}
	} else {
		sb.WriteString("holder=unfinalised")
	}
	if ti.ts == h.hi() {
		sb.WriteString(",ts=holder.ts+th")
	} else {
		sb.WriteString(",ts<holder.ts+th")
	}
	// is there a block strictly between b and the holder (or the holder itself) whose own window ends at or before ts?
	skip := "none"
	for a := b.parent; a != nil; a = a.parent {
		if ti.ts >= a.hi() && a != h {
			skip = "ts>=intermediate.ts+th"
			break
		}
		if a == h {
			break
		}
	}
	sb.WriteString(",intermediate=" + skip)
	return sb.String()
}

func errClass(err error) string {
	msg := err.Error()
	if i := strings.IndexAny(msg, "(:"); i > 0 {
		msg = msg[:i]
	}
	return msg
}

func (s *c11) opCommit(added []*blk) {
	t := s.t
	// default: the oldest unfinalised block on the newest branch (what a block manager finalises next)
	b := added[0]
	for b.parent != nil && b.parent.state != stFinal {
		b = b.parent
	}
	if t.Weighted("commit-mode", 3, 1) == 1 {
		b = added[t.Choose("commit-which", len(added))]
	}
	// a pending descendant of b may be validated while b is being finalised; preferably a commit that
	// takes unfinalised ancestors with it (the longest time inside Commit)
	var child *blk
	if t.Permille("commit-overlap-add", 350) {
		pendingUnder := func(x *blk) (desc []*blk) {
			for _, o := range s.blocks {
				if o.state == stPending && o != x && s.alive(o) && s.isAncestorOrSelf(x, o) {
					desc = append(desc, o)
				}
			}
			return
		}
		var deep []*blk
		for _, a := range added {
			if a.parent != nil && a.parent.state != stFinal && len(pendingUnder(a)) > 0 {
				deep = append(deep, a)
			}
		}
		if len(deep) > 0 && t.Permille("commit-overlap-deep", 700) {
			b = deep[t.Choose("commit-overlap-target", len(deep))]
		}
		if desc := pendingUnder(b); len(desc) > 0 {
			child = desc[t.Choose("commit-overlap-which", len(desc))]
		}
	}
	if !s.sc.v.gated && s.faults && t.Permille("fail-sync-set", 120) {
		s.sc.v.failNextSyncSet = true
	}
	fails0 := s.sc.v.setFails
	var err error
	var forced int
	var ok bool
	exec := func(add func(), plan getPlan) (int, bool) {
		fs := []func(){func() { err = b.logger.Commit() }}
		if add != nil {
			fs = append(fs, add)
		}
		forced, ok = s.sc.runOps(fs, plan)
		s.sc.v.failNextSyncSet = false
		return forced, ok
	}
	if child != nil {
		s.rc.Probe("add_overlaps_commit_of_ancestor")
		if b.parent != nil && b.parent.state != stFinal {
			s.rc.Probe("add_overlaps_recursive_commit")
			if s.sc.v.setWaiting.Load() {
				s.rc.Probe("add_overlaps_recursive_commit_behind_busy_flusher")
			}
		}
		s.opAddDuring(child, &overlap{target: b, exec: exec, finish: func() { s.finishCommit(b, err, forced, ok, fails0) }})
		return
	}
	exec(nil, getPlan{})
	s.finishCommit(b, err, forced, ok, fails0)
}

func (s *c11) finishCommit(b *blk, err error, forced int, ok bool, fails0 int) {
	if !ok {
		s.rc.Violate("operation-stuck", "commit", "%s: Commit never returned", b)
		return
	}
	if s.sc.v.setFails > fails0 {
		s.noteFlushError("sync")
	}
	if err != nil {
		s.rc.Event("commit B%d -> err:%s forced=%d", b.n, errClass(err), forced)
		if !s.relaxed {
			s.rc.Violate("commit-refused", "commit:"+errClass(err), "%s: Commit failed without any injected fault: %v", b, err)
			return
		}
		s.rc.Probe("commit_refused_after_flush_error")
		// the block (and the ancestors it would have finalised) stay unfinalised; a
		// node would stop here. The run goes on to check that nothing is accepted twice.
		b.state = stDead
		return
	}
	var path []*blk
	for x := b; x != nil && x.state != stFinal; x = x.parent {
		path = append(path, x)
	}
	for i := len(path) - 1; i >= 0; i-- {
		path[i].state = stFinal
		path[i].finalGen = s.gen
		s.finalised++
	}
	if len(path) > 1 {
		s.rc.Probe("commit_finalised_ancestors_recursively")
	}
	s.last = b
	dead := 0
	for _, o := range s.blocks {
		if o.state != stFinal && o.state != stDead && !s.isAncestorOrSelf(b, o) {
			o.state = stDead
			dead++
		}
		if o.state == stAdded && o.parent == b {
			s.rc.Probe("parent_committed_after_child_add")
		}
	}
	s.rc.Event("commit B%d -> ok finalised=%d forced=%d pruned=%d flushed=%s", b.n, len(path), forced, dead, s.flushState())
}

func (s *c11) noteFlushError(kind string) {
	s.relaxed = true
	s.rc.Fault("flush_error")
	s.rc.Probe("flush_error")
	if kind == "flusher" {
		s.broken = true
	}
}

func (s *c11) opFlush() {
	t := s.t
	k := []int{1, 2, 3, 8}[t.Choose("flush-steps", 4)]
	done := 0
	failed := false
	for i := 0; i < k; i++ {
		fail := s.faults && t.Permille("fail-set", 60)
		if !s.sc.grantSet(fail) {
			break
		}
		done++
		if fail {
			failed = true
			s.noteFlushError("flusher")
			break
		}
	}
	s.rc.Event("flush steps=%d failed=%v flushed=%s", done, failed, s.flushState())
}

// opCrash: the process dies between two operations (the flusher may be in the
// middle of a list). Everything in memory is gone; the database keeps exactly
// the writes that completed. A new manager is created over it and the start-up
// procedure re-records the last finalised block.
func (s *c11) opCrash() {
	old := s.sc.v
	midFlush := old.setWaiting.Load()
	old.dead.Store(true)
	s.releaseView(old)
	for _, o := range s.blocks {
		if o.state != stFinal {
			o.state = stDead
		}
	}
	s.newManager()
	s.broken = false
	s.rc.Probe("manager_restart")
	if midFlush {
		s.rc.Probe("manager_restart_mid_flush")
	}
	s.rc.Event("crash+restart gen=%d mid-flush=%v journal=%d", s.gen, midFlush, len(s.st.journal))
	s.recommit(s.last)
}
