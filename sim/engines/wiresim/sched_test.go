package wiresim

import (
	"errors"
	"fmt"
	"io"
	"net"
	"os"
	"reflect"
	"runtime"
	"runtime/debug"
	"time"

	"github.com/icon-project/goloop/common"

	"verif/sim/kit"
)

// ---------------------------------------------------------------------------
// cooperative token scheduler (DESIGN 3.6(b)): every task is a goroutine that
// parks inside harness code (simconn Read/Write, explicit yields); the driver
// releases exactly one task at a time, chosen by the tape, and waits until it
// parks again or finishes. Because only one goroutine of the run is ever
// runnable, nothing here needs locks and the Go scheduler decides nothing.
// A task that sleeps (PacketWriter retry delay) keeps the token: the driver is
// blocked on the park channel, the bubble is idle, the fake clock jumps.
// ---------------------------------------------------------------------------

type task struct {
	name     string
	resume   chan struct{}
	cond     func() bool // nil = runnable; otherwise runnable iff cond()
	lockWait bool        // cond waits for a lock of instrumented code: honoured even after abort
	gid      uint64      // goroutine id of the task
	done     bool
	pval     any
	pstack   string
}

type sched struct {
	rc       *kit.RunCtx
	tasks    []*task
	cur      *task
	parkCh   chan struct{}
	steps    int
	maxSteps int
	aborted  bool
	conns    []*simconn
	locks    map[uintptr]*simLock // mutexes of instrumented /repo code, as the scheduler sees them
}

// simLock is the scheduler's view of one sync.Mutex / sync.RWMutex of instrumented goloop code
// (kit/instrument): a task is only released into Lock()/RLock() when the lock is free for it, so the
// real lock never blocks, and every acquisition is a scheduling point chosen by the tape.
type simLock struct {
	writer  *task
	readers map[*task]int
}

func lockKey(l any) uintptr {
	v := reflect.ValueOf(l)
	if v.Kind() != reflect.Ptr || v.IsNil() {
		return 0
	}
	if v.Elem().Kind() == reflect.Ptr { // &x where x is itself a pointer (embedded mutex reached through a pointer receiver)
		if v.Elem().IsNil() {
			return 0
		}
		return v.Elem().Pointer()
	}
	return v.Pointer()
}

// acquire / release are installed as common.SimAcquireHook / SimReleaseHook for the run.
func (s *sched) acquire(l any, mode byte, site string) {
	t := s.cur
	k := lockKey(l)
	if t == nil || k == 0 {
		return // not inside a scheduled task (set-up code on the driver)
	}
	if goid() != t.gid {
		// a goroutine goloop started itself (timer callback, close handler): it is not a task of the
		// scheduler and must not take the token; it simply uses the real lock
		if os.Getenv("VERIF_TRACE_NONTASK") != "" {
			fmt.Fprintf(os.Stderr, "NONTASK lock site %s\n%s\n", site, debug.Stack())
		}
		return
	}
	if s.locks == nil {
		s.locks = map[uintptr]*simLock{}
	}
	lk := s.locks[k]
	if lk == nil {
		lk = &simLock{readers: map[*task]int{}}
		s.locks[k] = lk
	}
	free := func() bool {
		if mode == 'r' {
			return lk.writer == nil
		}
		return lk.writer == nil && len(lk.readers) == 0
	}
	t.lockWait = true
	s.yield(free)
	t.lockWait = false
	if mode == 'r' {
		lk.readers[t]++
	} else {
		lk.writer = t
	}
	s.rc.Metric("lock_sites_scheduled", 1)
}

func (s *sched) release(l any, mode byte, site string) {
	t := s.cur
	k := lockKey(l)
	if t == nil || k == 0 || s.locks == nil || goid() != t.gid {
		return
	}
	lk := s.locks[k]
	if lk == nil {
		return
	}
	if mode == 'r' {
		if lk.readers[t] > 1 {
			lk.readers[t]--
		} else {
			delete(lk.readers, t)
		}
	} else if lk.writer == t {
		lk.writer = nil
	}
}

func goid() uint64 {
	var buf [64]byte
	n := runtime.Stack(buf[:], false)
	var id uint64
	for _, c := range buf[len("goroutine "):n] {
		if c < '0' || c > '9' {
			break
		}
		id = id*10 + uint64(c-'0')
	}
	return id
}

// installLockHooks makes the lock sites of instrumented code scheduling points of this run.
func (s *sched) installLockHooks() func() {
	common.SimAcquireHook, common.SimReleaseHook = s.acquire, s.release
	return func() { common.SimAcquireHook, common.SimReleaseHook = nil, nil }
}

func newSched(rc *kit.RunCtx, maxSteps int) *sched {
	return &sched{rc: rc, parkCh: make(chan struct{}), maxSteps: maxSteps}
}

func (s *sched) spawn(name string, fn func()) *task {
	t := &task{name: name, resume: make(chan struct{})}
	s.tasks = append(s.tasks, t)
	go func() {
		t.gid = goid()
		<-t.resume
		defer func() {
			if r := recover(); r != nil {
				t.pval = r
				t.pstack = string(debug.Stack())
			}
			t.done = true
			s.parkCh <- struct{}{}
		}()
		fn()
	}()
	return t
}

// yield parks the calling task until the driver picks it again; cond (may be
// nil) tells the driver when the task can make progress.
func (s *sched) yield(cond func() bool) {
	t := s.cur
	t.cond = cond
	s.parkCh <- struct{}{}
	<-t.resume
	t.cond = nil
}

// abort closes every connection so that all parked tasks run to completion.
func (s *sched) abort(why string) {
	if s.aborted {
		return
	}
	s.aborted = true
	s.rc.Event("abort: %s", why)
	for _, c := range s.conns {
		c.kill()
	}
}

func (s *sched) run() {
	for {
		var runnable []*task
		live := 0
		for _, t := range s.tasks {
			if t.done {
				continue
			}
			live++
			if t.cond == nil || t.cond() || (s.aborted && !t.lockWait) {
				runnable = append(runnable, t)
			}
		}
		if live == 0 {
			break
		}
		if len(runnable) == 0 {
			if s.aborted {
				// only tasks waiting for a lock held by another waiting task are left
				s.rc.Violate("harness", "lock-wait-deadlock", "%d tasks wait for locks of instrumented code that are never released", live)
				break
			}
			// every live task waits for bytes nobody will send: end of the useful part of the run
			s.abort("quiescent")
			continue
		}
		if s.steps >= s.maxSteps && !s.aborted {
			s.rc.Probe("step_limit")
			s.abort("step limit")
			continue
		}
		i := 0
		if !s.aborted {
			i = s.rc.Tape.Choose("sched", len(runnable))
		}
		t := runnable[i]
		s.cur = t
		t.resume <- struct{}{}
		<-s.parkCh
		s.cur = nil
		s.steps++
	}
	s.rc.Steps += int64(s.steps)
	for _, t := range s.tasks {
		if t.pval != nil {
			s.rc.Violate("panic", kit.PanicSignature(t.pstack), "task %s panicked: %v\n%s", t.name, t.pval, t.pstack)
			break
		}
	}
}

// ---------------------------------------------------------------------------
// simconn: simulated duplex byte stream implementing net.Conn
// ---------------------------------------------------------------------------

type chunkMode int

const (
	chunkAll   chunkMode = iota // a Read gets everything available (up to len(b))
	chunkMixed                  // per Read: all / 1 byte / uniform / small
	chunkOne                    // 1 byte per Read
	chunkSmall                  // 1..16 bytes per Read
)

var chunkModeNames = []string{"all", "mixed", "one", "small"}

var errSimClosed = &net.OpError{Op: "read", Net: "sim", Err: errors.New("use of closed network connection")}
var errSimPipe = &net.OpError{Op: "write", Net: "sim", Err: errors.New("broken pipe")}

// halfpipe is one direction of a link.
type halfpipe struct {
	s    *sched
	name string
	mode chunkMode

	buf     []byte // written, not yet read
	written int64  // bytes accepted from the writer (absolute stream offset)
	read    int64
	wclosed bool // writer side closed: EOF after buf is drained
	rclosed bool // reader side closed its connection
	killed  bool

	quiet bool // do not log every read/write (bulk runs)

	// faults, all decided by the tape (in the engine's generators)
	flipAt   int64 // absolute offset of the byte to alter, -1 = none
	flipMask byte
	flipped  bool
	cutAt    int64 // the link dies when this many bytes have been accepted, -1 = none
	cutDone  bool
	shortPm  int // per-Write probability (permille) of a short write
	shorts   int

	// frame-level man in the middle: every Write call is one frame; returns the frames to forward
	tamper func(frame []byte) [][]byte
	frames int
}

func newHalf(s *sched, name string, mode chunkMode) *halfpipe {
	return &halfpipe{s: s, name: name, mode: mode, flipAt: -1, cutAt: -1}
}

func (h *halfpipe) chooseChunk(max int) int {
	if max <= 1 {
		return max
	}
	t := h.s.rc.Tape
	n := max
	switch h.mode {
	case chunkAll:
	case chunkOne:
		n = 1
	case chunkSmall:
		n = 1 + t.Choose("chunk.small", min(max, 16))
	case chunkMixed:
		switch t.Weighted("chunk", 4, 2, 3, 2) {
		case 1:
			n = 1
		case 2:
			n = max - t.Choose("chunk.uni", max)
		case 3:
			n = 1 + t.Choose("chunk.small", min(max, 16))
		}
	}
	// keep the number of steps bounded for very large backlogs
	if floor := len(h.buf) / 96; n < floor {
		n = min(max, floor)
	}
	return n
}

type simAddr string

func (a simAddr) Network() string { return "sim" }
func (a simAddr) String() string  { return string(a) }

type simconn struct {
	s      *sched
	name   string
	in     *halfpipe
	out    *halfpipe
	closed bool
}

// newLink returns the two ends of a fresh duplex link a<->b.
func (s *sched) newLink(a, b string, mode chunkMode) (*simconn, *simconn) {
	ab := newHalf(s, a+">"+b, mode)
	ba := newHalf(s, b+">"+a, mode)
	ca := &simconn{s: s, name: a, in: ba, out: ab}
	cb := &simconn{s: s, name: b, in: ab, out: ba}
	s.conns = append(s.conns, ca, cb)
	return ca, cb
}

func (c *simconn) Read(b []byte) (int, error) {
	h := c.in
	if len(b) == 0 {
		return 0, nil
	}
	h.s.yield(func() bool { return len(h.buf) > 0 || h.wclosed || h.rclosed || h.killed })
	if h.rclosed {
		return 0, errSimClosed
	}
	if len(h.buf) == 0 {
		if h.wclosed {
			return 0, io.EOF
		}
		return 0, errSimClosed // killed
	}
	n := h.chooseChunk(min(len(b), len(h.buf)))
	copy(b, h.buf[:n])
	h.buf = h.buf[n:]
	h.read += int64(n)
	if !h.quiet {
		h.s.rc.Event("%s read %d/%d", h.name, n, len(b))
	}
	return n, nil
}

func (c *simconn) Write(b []byte) (int, error) {
	h := c.out
	h.s.yield(nil)
	if c.closed || h.wclosed {
		return 0, io.ErrClosedPipe
	}
	if h.rclosed || h.killed {
		return 0, errSimPipe
	}
	n := len(b)
	var err error
	if h.cutAt >= 0 && h.written+int64(n) > h.cutAt {
		n = int(h.cutAt - h.written)
		if n < 0 {
			n = 0
		}
		err = errSimPipe
	} else if h.shortPm > 0 && n > 0 && h.s.rc.Tape.Permille("shortwrite", h.shortPm) {
		n = h.s.rc.Tape.Choose("shortwrite.n", n) // 0..n-1 bytes accepted
		err = io.ErrShortWrite
		h.shorts++
		h.s.rc.Fault("short-write")
	}
	data := append([]byte(nil), b[:n]...)
	if h.flipAt >= h.written && h.flipAt < h.written+int64(n) && !h.flipped {
		data[h.flipAt-h.written] ^= h.flipMask
		h.flipped = true
		h.s.rc.Fault("byte-flip")
	}
	if h.tamper != nil && err == nil {
		for _, f := range h.tamper(data) {
			h.buf = append(h.buf, f...)
		}
	} else {
		h.buf = append(h.buf, data...)
	}
	h.frames++
	h.written += int64(n)
	if !h.quiet {
		if err != nil {
			h.s.rc.Event("%s write %d/%d err=%v", h.name, n, len(b), err)
		} else {
			h.s.rc.Event("%s write %d", h.name, n)
		}
	}
	if err == errSimPipe && !h.cutDone {
		// the link dies at this byte: the reader drains what was accepted, then sees EOF
		h.cutDone = true
		h.wclosed = true
		h.s.rc.Fault("close-at-byte")
	}
	return n, err
}

// inject puts raw bytes into the stream this connection reads from (MITM).
func (c *simconn) inject(b []byte) {
	c.in.buf = append(c.in.buf, b...)
}

// Close closes both directions of this end (like closing a TCP socket).
func (c *simconn) Close() error {
	if c.closed {
		return nil
	}
	c.closed = true
	c.out.wclosed = true
	c.in.rclosed = true
	return nil
}

// CloseWrite half-closes: the remote reader sees EOF after draining.
func (c *simconn) CloseWrite() { c.out.wclosed = true }

func (c *simconn) kill() {
	c.in.killed = true
	c.out.killed = true
}

func (c *simconn) LocalAddr() net.Addr                { return simAddr(c.name) }
func (c *simconn) RemoteAddr() net.Addr               { return simAddr(c.name + "-remote") }
func (c *simconn) SetDeadline(t time.Time) error      { return nil }
func (c *simconn) SetReadDeadline(t time.Time) error  { return nil }
func (c *simconn) SetWriteDeadline(t time.Time) error { return nil }

var _ net.Conn = (*simconn)(nil)

// ---------------------------------------------------------------------------
// small helpers shared by the property runs
// ---------------------------------------------------------------------------

// pattern fills n bytes from a 64-bit seed (xorshift*); payload contents come
// from the tape through the seed without costing one tape entry per 7 bytes.
func pattern(seed uint64, n int) []byte {
	b := make([]byte, n)
	x := seed*0x9e3779b97f4a7c15 + 0x2545f4914f6cdd1d
	for i := 0; i < n; i += 8 {
		x ^= x >> 12
		x ^= x << 25
		x ^= x >> 27
		v := x * 0x2545f4914f6cdd1d
		for k := 0; k < 8 && i+k < n; k++ {
			b[i+k] = byte(v >> (8 * k))
		}
	}
	return b
}

func drawChunkMode(t *kit.Tape, label string) chunkMode {
	return chunkMode(t.Weighted(label, 3, 5, 1, 2))
}

func hexShort(b []byte) string {
	if len(b) > 6 {
		return fmt.Sprintf("%x..(%d)", b[:6], len(b))
	}
	return fmt.Sprintf("%x", b)
}
