package wiresim

import (
	"bytes"
	"encoding/binary"
	"fmt"

	"github.com/icon-project/goloop/common/codec"
	"github.com/icon-project/goloop/module"
	"github.com/icon-project/goloop/network"

	"verif/sim/kit"
)

// ---------------------------------------------------------------------------
// C33: flooded messages reach the application at most once, one-hop messages
// only from their originating peer, originator broadcasts only from peers
// holding the validator role.
//
// Real: one node's network.PeerToPeer (onPeer, onPacket with handleQuery /
// handleQueryResult / handleP2PConnectionRequest for attaching the peers,
// role resolution against the allowed-validator set, PacketPool) and Peer
// objects with the real PacketReader over simconn. The harness plays the
// remote peers (real PacketWriter) and Peer.receiveRoutine.
//
// Vocabulary taken from the public send API (module.ProtocolHandler):
//   flooded  = Broadcast(BroadcastAll) and Multicast(role): ttl 0, destination
//              not "peer"; these are the packets receivers relay;
//   one-hop  = Unicast (destination "peer") and Broadcast(Neighbor|Children)
//              (ttl != 0);
//   originator broadcast = Broadcast(BroadcastAll) arriving from the peer that
//              is its source.
// Reference model: per message a delivery counter; per arrival the verdict
// "must not be delivered" / "must be delivered" / "don't care" computed from
// who sent it, through whom it came, and the current validator set.
// ---------------------------------------------------------------------------

const (
	subQueryReq  = 0x0700
	subQueryResp = 0x0800
	subConnReq   = 0x0900
	roleSeedBit  = 1
	roleRootBit  = 2
	destAny      = 0x00
)

var c33Protos = []module.ProtocolInfo{module.ProtoConsensus, module.ProtoTransaction}

type c33Peer struct {
	idx      int
	id       []byte
	pid      module.PeerID
	inV, inS bool
	claim    byte
	in       bool
	req      byte
	noProto2 bool
	node     *simconn
	remote   *simconn
	p        *network.Peer
	queue    []*c33Send
	joined   bool
	ctlSeen  bool
	ctlEpoch int // validator-set epoch when the node began attaching this peer
}

type c33Msg struct {
	n         int
	at        int // number of distinct flooded messages delivered before this one
	kind      string
	spec      *pktSpec
	flood     bool
	delivered int
	eligible  int
	arrivals  int
}

type c33Send struct {
	msg  *c33Msg
	hint byte
	ext  []byte
}

func c33Payload(n int, size int) []byte {
	b := make([]byte, 12+size)
	copy(b, "C33m")
	binary.BigEndian.PutUint64(b[4:], uint64(n))
	copy(b[12:], pattern(uint64(n)+5, size))
	return b
}

func runC33(rc *kit.RunCtx) {
	t := rc.Tape
	lg := quietLogger()
	bulk := rc.Profile == "bulk"
	mode := drawChunkMode(t, "chunkmode")
	if bulk {
		mode = chunkAll
	}
	steps := 80000
	if bulk {
		steps = 400000
	}
	s := newSched(rc, steps)

	// ---- identities
	nodeID := t.Bytes("id.node", 20)
	nodePID := network.NewPeerID(nodeID)
	extID := t.Bytes("id.ext", 20) // a validator that is not directly connected
	k := t.Range("npeers", 3, 6)
	nodeRole := t.Weighted("node.role", 3, 2, 2) // 0 validator, 1 seed, 2 citizen
	peers := make([]*c33Peer, k)
	seen := map[string]bool{string(nodeID): true, string(extID): true}
	for i := range peers {
		p := &c33Peer{idx: i}
		for {
			p.id = t.Bytes("id.peer", 20)
			if !seen[string(p.id)] {
				break
			}
			p.id[0] ^= byte(i + 1) // exhausted tape: all ids equal -> make them distinct
			if !seen[string(p.id)] {
				break
			}
		}
		seen[string(p.id)] = true
		p.pid = network.NewPeerID(p.id)
		p.in = t.Choose("peer.in", 2) == 0
		if t.Weighted("peer.shape", 7, 3) == 0 {
			// shapes that the topology rules let join
			switch nodeRole {
			case 0:
				if t.Choose("peer.kind", 2) == 0 {
					p.inV, p.claim, p.req = true, roleRootBit, 5
				} else {
					p.inS, p.claim, p.req = true, roleSeedBit, []byte{1, 3}[t.Choose("peer.req", 2)]
				}
			case 1:
				switch t.Weighted("peer.kind", 3, 1, 1) {
				case 0:
					p.req = []byte{1, 3}[t.Choose("peer.req", 2)]
				case 1:
					p.inV, p.claim, p.req = true, roleRootBit, 5
				case 2:
					p.inS, p.claim, p.req = true, roleSeedBit, 5
				}
			case 2:
				p.req = []byte{1, 3}[t.Choose("peer.req", 2)]
			}
		} else {
			p.inV = t.Choose("peer.inV", 2) == 1
			p.inS = t.Choose("peer.inS", 3) == 1
			p.claim = byte(t.Choose("peer.claim", 4))
			p.req = []byte{1, 3, 5, 0, 2, 4, 6, 9}[t.Choose("peer.reqany", 8)]
		}
		if p.claim == 0 && t.Weighted("peer.citizen.in", 4, 1) == 0 {
			p.in = true // an outgoing connection to a peer without any role is closed by the query handshake
		}
		p.noProto2 = t.Permille("peer.noproto2", 80)
		peers[i] = p
	}

	// ---- the node
	p2p := network.VerifNewPeerToPeer("c33", nodePID, lg)
	truthV := map[string]bool{string(extID): true}
	vIDs := []module.PeerID{network.NewPeerID(extID)}
	var sIDs []module.PeerID
	if nodeRole == 0 {
		truthV[string(nodeID)] = true
		vIDs = append(vIDs, nodePID)
	}
	for _, p := range peers {
		if p.inV {
			truthV[string(p.id)] = true
			vIDs = append(vIDs, p.pid)
		}
		if p.inS {
			sIDs = append(sIDs, p.pid)
		}
	}
	if nodeRole == 1 {
		sIDs = append(sIDs, nodePID)
	}
	p2p.VerifAllowed(module.RoleValidator).ClearAndAdd(vIDs...)
	if len(sIDs) > 0 {
		p2p.VerifAllowed(module.RoleSeed).ClearAndAdd(sIDs...)
	}
	switch nodeRole {
	case 0:
		p2p.VerifSetRole(module.RoleValidator)
	case 1:
		p2p.VerifSetRole(module.RoleSeed)
	default:
		p2p.VerifSetRole()
	}

	// ---- application callbacks (observation point)
	// Arrivals through different peers interleave at the lock sites of the instrumented network code
	// (every mutex acquisition in pool.go / set.go / p2p.go is a scheduling point), so the callback
	// accounts per arriving peer, not globally.
	floodDelivered := 0
	cbCount := map[*network.Peer]int{}
	cbLast := map[*network.Peer]*network.Packet{}
	for _, pi := range c33Protos {
		p2p.VerifSetCb(pi, func(pkt *network.Packet, p *network.Peer) {
			cbCount[p]++
			cbLast[p] = pkt
		})
	}
	// even = the validator set is stable, odd = a change is in progress
	setEpoch := 0
	defer s.installLockHooks()()

	// ---- messages
	var msgs []*c33Msg
	newMsg := func(kind string, src []byte, dest, ttl byte, size int) *c33Msg {
		m := &c33Msg{n: len(msgs), kind: kind}
		pi := c33Protos[t.Weighted("msg.proto", 3, 1)]
		m.spec = &pktSpec{pi: pi.Uint16(), spi: uint16(t.Choose("msg.spi", 4)), src: src, dest: dest, ttl: ttl, payload: c33Payload(m.n, size)}
		m.flood = ttl == 0 && dest != destPeer
		msgs = append(msgs, m)
		return m
	}
	pickPeer := func(label string) *c33Peer { return peers[t.Choose(label, k)] }
	enqueue := func(m *c33Msg, via *c33Peer) {
		sd := &c33Send{msg: m}
		if m.flood && t.Weighted("relay.ext", 2, 1) == 1 {
			// relays append their own routing hints: same message, different extension
			sd.hint = byte(1 + t.Choose("relay.hint", 5))
			sd.ext = pattern(uint64(via.idx)+uint64(len(via.queue)), 4*int(sd.hint))
		}
		via.queue = append(via.queue, sd)
		m.arrivals++
	}
	nFlood := t.Range("nflood", 1, 6)
	if bulk {
		nFlood = t.Range("nflood.bulk", 520, 1300)
	}
	for i := 0; i < nFlood; i++ {
		var src []byte
		var direct *c33Peer
		w := []int{4, 4, 1, 1}
		if bulk {
			w = []int{1, 0, 0, 0}
		}
		switch t.Weighted("flood.src", w...) {
		case 0:
			src = extID
		case 1:
			direct = pickPeer("flood.srcpeer")
			src = direct.id
		case 2:
			src = nodeID
		case 3:
			src = t.Bytes("flood.srcrand", 20)
		}
		dest := byte(destAny)
		kind := "broadcast-all"
		switch t.Weighted("flood.kind", 6, 2, 1) {
		case 1:
			dest, kind = byte(module.RoleValidator), "multicast-validator"
		case 2:
			dest, kind = byte(module.RoleSeed), "multicast-seed"
		}
		size := t.Choose("flood.size", 120)
		if t.Permille("flood.big", 30) {
			size = 5000
		}
		m := newMsg(kind, src, dest, module.BroadcastAll.TTL(), size)
		r := 1
		if !bulk {
			r = t.Range("flood.relays", 1, 5)
		}
		for j := 0; j < r; j++ {
			if direct != nil && t.Weighted("flood.direct", 1, 1) == 1 {
				enqueue(m, direct)
			} else {
				enqueue(m, pickPeer("flood.via"))
			}
		}
	}
	if bulk {
		// late duplicates of early messages (the pool has rotated its buckets by then)
		nd := t.Range("bulk.dups", 10, 40)
		for j := 0; j < nd; j++ {
			m := msgs[t.Choose("bulk.dupof", len(msgs)/4+1)]
			enqueue(m, pickPeer("bulk.dupvia"))
		}
	}
	nHop := t.Range("nonehop", 0, 5)
	if bulk {
		nHop = 0
	}
	for i := 0; i < nHop; i++ {
		via := pickPeer("hop.via")
		var src []byte
		switch t.Weighted("hop.src", 5, 2, 2, 1) {
		case 0:
			src = via.id
		case 1:
			src = peers[(via.idx+1+t.Choose("hop.other", k-1))%k].id
		case 2:
			src = extID
		case 3:
			src = nodeID
		}
		var m *c33Msg
		switch t.Weighted("hop.kind", 4, 3, 2, 1, 1, 1) {
		case 0:
			m = newMsg("unicast", src, destPeer, 1, t.Choose("hop.size", 80))
		case 1:
			m = newMsg("broadcast-neighbor", src, destAny, module.BroadcastNeighbor.TTL(), t.Choose("hop.size", 80))
		case 2:
			m = newMsg("broadcast-children", src, destAny, module.BroadcastChildren.TTL(), t.Choose("hop.size", 80))
		case 3:
			m = newMsg("unicast-ttl0", src, destPeer, 0, t.Choose("hop.size", 80))
		case 4:
			m = newMsg("multicast-ttl1", src, byte(module.RoleValidator), 1, t.Choose("hop.size", 80))
		case 5:
			m = newMsg("broadcast-ttl-other", src, destAny, byte(3+t.Choose("hop.ttl", 250)), t.Choose("hop.size", 80))
		}
		for j, r := 0, t.Range("hop.copies", 1, 2); j < r; j++ {
			enqueue(m, via)
		}
	}
	// per-peer order of the application traffic
	for _, p := range peers {
		if !bulk && len(p.queue) > 1 {
			perm := t.Perm("queue.order", len(p.queue))
			q := make([]*c33Send, len(p.queue))
			for i, j := range perm {
				q[i] = p.queue[j]
			}
			p.queue = q
		}
	}

	// a change of the validator set in mid-run (what NetworkManager.SetRole does on a new validator list)
	type vchange struct {
		after int
		set   map[string]bool
	}
	var change *vchange
	if !bulk && t.Weighted("vchange", 2, 1) == 1 {
		change = &vchange{after: t.Choose("vchange.after", 30), set: map[string]bool{string(extID): true}}
		for _, p := range peers {
			if t.Choose("vchange.member", 2) == 1 {
				change.set[string(p.id)] = true
			}
		}
		if truthV[string(nodeID)] {
			change.set[string(nodeID)] = true
		}
	}

	rc.Config["peers"] = k
	rc.Config["node_role"] = []string{"validator", "seed", "citizen"}[nodeRole]
	rc.Config["messages"] = len(msgs)
	rc.Event("C33 %s node=%s peers=%d msgs=%d chunk=%s vchange=%v", rc.Profile, rc.Config["node_role"], k, len(msgs), chunkModeNames[mode], change != nil)
	for _, p := range peers {
		rc.Event(" peer%d in=%v V=%v S=%v claim=%d req=%d noProto2=%v sends=%d", p.idx, p.in, p.inV, p.inS, p.claim, p.req, p.noProto2, len(p.queue))
	}
	if !bulk {
		for _, m := range msgs {
			rc.Event(" msg%d %s src=%s dest=%#02x ttl=%d len=%d arrivals=%d", m.n, m.kind, c33Who(m.spec.src, nodeID, extID, peers), m.spec.dest, m.spec.ttl, len(m.spec.payload), m.arrivals)
		}
	}

	// ---- attach peers and start tasks
	failed := false
	for _, p := range peers {
		p := p
		p.node, p.remote = s.newLink(fmt.Sprintf("N%d", p.idx), fmt.Sprintf("P%d", p.idx), mode)
		if bulk {
			p.node.in.quiet, p.node.out.quiet = true, true
		}
		p.p = network.VerifNewPeer(p.node, p.in, "c33", lg)
		p.p.VerifSetID(p.pid) // done by the authenticator in production
		protos := []module.ProtocolInfo{module.ProtoP2P, c33Protos[0], c33Protos[1]}
		if p.noProto2 {
			protos = protos[:2]
		}
		p.p.VerifSetProtocols(protos...) // done by the channel negotiator in production
		p.p.PutAttr(network.AttrSupportDefaultProtocols, true)

		// remote side: announce role, ask for a connection type, then send the application traffic
		s.spawn(fmt.Sprintf("P%d", p.idx), func() {
			pw := network.NewPacketWriter(p.remote)
			ctl := func(sub uint16, msg any) bool {
				pkt := network.VerifNewPacket(module.ProtoP2P, module.ProtocolInfo(sub), p.pid, destPeer, 1, codec.MP.MustMarshalToBytes(msg), 0, nil)
				return pw.WritePacket(pkt) == nil
			}
			if p.in {
				if !ctl(subQueryReq, &network.QueryMessage{Role: network.PeerRoleFlag(p.claim)}) {
					return
				}
			} else {
				if !ctl(subQueryResp, &network.QueryResultMessage{Role: network.PeerRoleFlag(p.claim)}) {
					return
				}
			}
			if !ctl(subConnReq, &network.P2PConnectionRequest{ConnType: network.PeerConnectionType(p.req)}) {
				return
			}
			for _, sd := range p.queue {
				sp := *sd.msg.spec
				sp.hint, sp.ext = sd.hint, sd.ext
				if pw.WritePacket(sp.build()) != nil {
					return
				}
			}
		})
		// node side: Peer.receiveRoutine
		s.spawn(fmt.Sprintf("N%d", p.idx), func() {
			defer func() {
				if r := recover(); r != nil {
					rc.Probe("handler_panic_recovered")
					p.p.CloseByError(fmt.Errorf("recover from %v", r))
				}
			}()
			network.VerifDispatchPeer(p.p, p2p) // PeerToPeer.onPeer
			for !p.p.IsClosed() && !failed {
				pkt, err := p.p.VerifReadPacket()
				if err != nil {
					p.p.CloseByError(err)
					return
				}
				v := pkt.VerifView()
				if v.Protocol == module.ProtoP2P {
					if !p.ctlSeen {
						p.ctlSeen, p.ctlEpoch = true, setEpoch
					}
					p.p.VerifDeliver(pkt)
					jn := p.p.ConnType() != 0
					if jn != p.joined {
						p.joined = jn
						rc.Event("peer%d conntype=%d role=%d", p.idx, p.p.ConnType(), p.p.Role())
						if jn {
							rc.Probe("peer_joined")
						}
					}
					continue
				}
				// ---- an application packet arrives through peer p
				if len(v.Payload) < 12 || string(v.Payload[:4]) != "C33m" {
					rc.Violate("harness", "c33-foreign-packet", "unrecognised packet read from peer%d", p.idx)
					failed = true
					return
				}
				n := int(binary.BigEndian.Uint64(v.Payload[4:]))
				if n >= len(msgs) || msgs[n].spec.diffNoExt(v) != "" {
					rc.Violate("harness", "c33-packet-altered", "packet of msg%d changed on a clean stream", n)
					failed = true
					return
				}
				m := msgs[n]
				srcIsPeer := bytes.Equal(m.spec.src, p.id)
				selfSrc := bytes.Equal(m.spec.src, nodeID)
				joined := p.p.ConnType() != 0
				validator := truthV[string(p.id)]
				protoKnown := !(p.noProto2 && m.spec.pi == c33Protos[1].Uint16())
				originatorBroadcast := m.flood && m.spec.dest == destAny && srcIsPeer
				before := cbCount[p.p]
				e0, del0 := setEpoch, m.delivered
				p.p.VerifDeliver(pkt)
				d := cbCount[p.p] - before
				// role-dependent verdicts only when the validator set did not change while the packet was being handled
				stable := e0 == setEpoch && e0%2 == 0
				// another arrival of the same message may have been handled in between (then this one is legitimately suppressed)
				overtaken := m.delivered != del0
				if !bulk {
					rc.Event("arr peer%d msg%d %s srcIsPeer=%v joined=%v validator=%v -> delivered=%d", p.idx, m.n, m.kind, srcIsPeer, joined, validator, d)
				}
				if d > 1 || (d == 1 && cbLast[p.p] != pkt) {
					rc.Violate("callback-misuse", m.kind, "callback invoked %d times / with another packet for one arrival", d)
					failed = true
					return
				}
				sig := m.kind
				if d == 1 {
					switch {
					case !m.flood && !srcIsPeer:
						rc.Violate("spoofed-onehop-delivered", sig, "one-hop message msg%d (%s, dest=%#02x ttl=%d) with source %s was delivered although it arrived from peer%d",
							m.n, m.kind, m.spec.dest, m.spec.ttl, c33Who(m.spec.src, nodeID, extID, peers), p.idx)
						failed = true
						return
					case originatorBroadcast && !validator && stable:
						rc.Violate("unauthorized-originator-delivered", sig, "broadcast msg%d arrived directly from its source peer%d, which does not hold the validator role (claimed role %d), and was delivered",
							m.n, p.idx, p.claim)
						failed = true
						return
					case m.flood && m.delivered >= 1:
						rc.Violate("flood-delivered-twice", sig, "flooded message msg%d (%s) was handed to the application a second time (arrival through peer%d, %d distinct messages in the run)",
							m.n, m.kind, p.idx, len(msgs))
						failed = true
						return
					}
					m.delivered++
					if m.flood {
						m.at = floodDelivered
						floodDelivered++
					}
					if m.flood && m.arrivals > 1 {
						rc.Probe("flood_first_of_many_delivered")
					}
				} else {
					// identical copies of a message already delivered are a don't-care here (flooded: must not; one-hop: may)
					must := joined && !selfSrc && protoKnown && m.delivered == 0 && !overtaken && stable
					if m.flood {
						if originatorBroadcast {
							// a peer certainly holds the role if it is in the validator set and announced the role
							must = must && validator && p.claim&roleRootBit != 0
							if must && p.ctlEpoch != setEpoch {
								// the validator set changed while or after this peer was attached: the role the node
								// resolved for it at that time may legitimately be the old one (C33 only forbids
								// deliveries; it does not promise that a role change is seen at once)
								must = false
								rc.Probe("observation_role_resolved_before_set_change")
							}
						}
					} else {
						must = must && srcIsPeer
					}
					if must {
						rc.Violate("legitimate-message-dropped", sig, "msg%d (%s) arrived through joined peer%d (source %s, validator=%v) and was not delivered",
							m.n, m.kind, p.idx, c33Who(m.spec.src, nodeID, extID, peers), validator)
						failed = true
						return
					}
					switch {
					case m.flood && m.delivered >= 1:
						rc.Probe("flood_duplicate_suppressed")
						if floodDelivered-m.at > 500 {
							rc.Probe("duplicate_suppressed_after_pool_rotation")
						}
					case !m.flood && !srcIsPeer:
						rc.Probe("spoofed_onehop_dropped")
					case originatorBroadcast && !validator && joined:
						rc.Probe("unauthorized_originator_dropped")
					case selfSrc:
						rc.Probe("self_sourced_dropped")
					}
				}
			}
		})
	}
	if change != nil {
		s.spawn("validator-set-change", func() {
			for i := 0; i < change.after && !s.aborted; i++ {
				s.yield(nil)
			}
			ids := []module.PeerID{}
			for _, id := range append([][]byte{extID, nodeID}, peerIDs(peers)...) {
				if change.set[string(id)] {
					ids = append(ids, network.NewPeerID(id))
				}
			}
			setEpoch++
			truthV = change.set
			p2p.VerifAllowed(module.RoleValidator).ClearAndAdd(ids...)
			setEpoch++
			rc.Event("validator set changed (%d members)", len(ids))
			rc.Probe("validator_set_changed")
		})
	}
	s.run()
	if rc.Failed() {
		return
	}
	nDel, nMulti := 0, 0
	for _, m := range msgs {
		if m.delivered > 0 {
			nDel++
		}
		if m.flood && m.arrivals > 1 && m.delivered == 1 {
			nMulti++
		}
	}
	rc.Metric("messages", int64(len(msgs)))
	rc.Metric("messages_delivered", int64(nDel))
	rc.Nontrivial = nDel > 0 && (nMulti > 0 || rc.Probes["spoofed_onehop_dropped"] > 0 || rc.Probes["unauthorized_originator_dropped"] > 0)
}

func peerIDs(ps []*c33Peer) [][]byte {
	var r [][]byte
	for _, p := range ps {
		r = append(r, p.id)
	}
	return r
}

func c33Who(id, node, ext []byte, peers []*c33Peer) string {
	switch {
	case bytes.Equal(id, node):
		return "node-itself"
	case bytes.Equal(id, ext):
		return "remote-validator"
	}
	for _, p := range peers {
		if bytes.Equal(id, p.id) {
			return fmt.Sprintf("peer%d", p.idx)
		}
	}
	return "stranger"
}

// diffNoExt compares everything but the extension (relays rewrite it).
func (p *pktSpec) diffNoExt(v network.VerifPacketView) string {
	q := *p
	q.hint, q.ext = v.ExtHint, v.Ext
	return q.diff(v)
}
