package wiresim

import (
	"bytes"
	"encoding/binary"
	"fmt"
	"io"

	"github.com/icon-project/goloop/network"

	"verif/sim/kit"
)

// ---------------------------------------------------------------------------
// C31: the encrypted peer channel is a faithful byte stream.
//
// Reference model: the byte sequence written on one end (position-dependent
// content, so loss, duplication and reordering are all visible as a mismatch);
// what Read returns on the other end must be a prefix of it at all times, the
// whole of it once the writer closed, never more than len(buf) per call.
// Keys: both ends hold the same pair of secrets, crossed (A.out==B.in,
// A.in==B.out) and the two directions use different secrets.
// MITM: exactly one manipulation of the ciphertext frames of direction A->B
// (one conn.Write of the sender = one frame; the 2-byte big-endian prefix of a
// frame is its plaintext length - this is what an adversary on the wire sees);
// no plaintext at or beyond the manipulated frame may be delivered.
// ---------------------------------------------------------------------------

var c31Suites = []network.SecureAeadSuite{network.SecureAeadSuiteChaCha20Poly1305, network.SecureAeadSuiteAes128Gcm, network.SecureAeadSuiteAes256Gcm}
var c31SuiteNames = []string{"chacha", "aes128", "aes256"}

// streamByte is the content of the simulated plaintext stream of direction d at position p.
func streamByte(seed uint64, p int64) byte {
	x := (uint64(p) + seed) * 0x9e3779b97f4a7c15
	return byte(x >> 29)
}

func streamBytes(seed uint64, from int64, n int) []byte {
	b := make([]byte, n)
	for i := range b {
		b[i] = streamByte(seed, from+int64(i))
	}
	return b
}

type c31Dir struct {
	name    string
	seed    uint64
	writes  []int
	total   int64 // bytes the writer wants to send
	written int64 // bytes acknowledged by Write
	werr    error
	wdone   bool

	smallBufs     bool
	arena         []byte // recycled backing array for windowed read buffers
	delivered     int64
	rerr          error
	reads         int
	readsAfterErr int
	limit         int64 // MITM: no plaintext at or beyond this position may be delivered (-1 = no limit)
	limitWhy      string
}

func drawWrites(t *kit.Tape, tier string) []int {
	maxW := 10
	if tier == "thorough" {
		maxW = 24
	}
	n := t.Range("nwrites", 1, maxW)
	ws := make([]int, n)
	for i := range ws {
		switch t.Weighted("wsize", 3, 4, 3, 1) {
		case 0:
			ws[i] = t.Range("wsmall", 1, 16)
		case 1:
			ws[i] = []int{1024, 1023, 1025, 2047, 2048, 2049, 3072, 4096}[t.Choose("wframe", 8)]
		case 2:
			ws[i] = t.Range("wany", 1, 5000)
		case 3:
			ws[i] = t.Range("wlarge", 5000, 20000)
		}
	}
	return ws
}

func drawBuf(t *kit.Tape, small bool) int {
	if !small {
		switch t.Weighted("rbuf.big", 3, 2, 2) {
		case 0:
			return 4096
		case 1:
			return 1024
		default:
			return t.Range("rbuf.bign", 1024, 4096)
		}
	}
	switch t.Weighted("rbuf", 2, 2, 2, 2, 3) {
	case 0:
		return 4096
	case 1:
		return 1
	case 2:
		return t.Range("rbuf.small", 2, 64)
	case 3:
		return []int{1023, 1024, 1025, 512, 2048}[t.Choose("rbuf.frame", 5)]
	default:
		return t.Range("rbuf.any", 1, 4096)
	}
}

func (d *c31Dir) spawnWriter(s *sched, rc *kit.RunCtx, sc *network.SecureConn, raw *simconn) {
	s.spawn("W"+d.name, func() {
		for i, w := range d.writes {
			s.yield(nil)
			n, err := sc.Write(streamBytes(d.seed, d.written, w))
			if n > 0 {
				d.written += int64(n)
			}
			rc.Event("%s Write#%d(%d) = %d %v", d.name, i, w, n, err != nil)
			if err != nil {
				d.werr = err
				break
			}
		}
		d.wdone = true
		raw.CloseWrite()
	})
}

func (d *c31Dir) spawnReader(s *sched, rc *kit.RunCtx, sc *network.SecureConn) {
	s.spawn("R"+d.name, func() {
		for {
			size := drawBuf(rc.Tape, d.smallBufs)
			var buf []byte
			off := -1
			if rc.Tape.Choose("bufmode", 2) == 1 {
				// a short window of a larger, recycled array (cap(buf) > len(buf)): the reader may use
				// only buf[:len(buf)]; everything else in the array is the caller's and is repainted before each Read
				if d.arena == nil {
					d.arena = make([]byte, 3*4096)
				}
				for i := range d.arena {
					d.arena[i] = 0xEE
				}
				off = rc.Tape.Choose("bufoff", len(d.arena)-size+1)
				buf = d.arena[off : off+size]
				rc.Probe("read_into_window_of_larger_array")
			} else {
				buf = make([]byte, size)
			}
			// the application does something between two reads: a scheduling point, so that the other tasks of
			// the process (writers and readers of both directions) can run while a frame is only partly consumed
			s.yield(nil)
			n, err := sc.Read(buf)
			d.reads++
			rc.Event("%s Read(buf %d off %d) = %d err=%v", d.name, size, off, n, err != nil)
			if off >= 0 {
				for i, c := range d.arena {
					if (i < off || i >= off+size) && c != 0xEE {
						rc.Violate("read-wrote-outside-buffer", "SecureConn.Read wrote beyond len(buf)",
							"%s: Read into a %d-byte window at offset %d of a larger array changed byte %d of that array (outside the window)", d.name, size, off, i)
						return
					}
				}
			}
			if n > size {
				rc.Violate("read-overrun", "SecureConn.Read n>len(buf)",
					"%s: Read with a %d-byte buffer returned n=%d (err=%v) at stream position %d: %d decrypted bytes were dropped",
					d.name, size, n, err, d.delivered, n-size)
				return
			}
			if n < 0 {
				rc.Violate("read-negative", "SecureConn.Read n<0", "%s: Read returned n=%d", d.name, n)
				return
			}
			if n > 0 {
				class, sig, detail := "", "", ""
				want := streamBytes(d.seed, d.delivered, n)
				switch {
				case d.limit >= 0 && d.delivered+int64(n) > d.limit && d.rerr == nil:
					// (once the reader has been told about the manipulation by an error, reading on may legitimately
					// yield the genuine continuation - e.g. after a rejected replayed frame; then only the content
					// rule below applies: what is delivered is the written stream, byte for byte, without holes)
					class, sig = "tamper-undetected", d.limitWhy
					detail = fmt.Sprintf("%s: %d plaintext bytes delivered at position %d although the ciphertext was manipulated (%s) at plaintext position %d", d.name, n, d.delivered, d.limitWhy, d.limit)
				case d.delivered+int64(n) > d.written && d.wdone:
					class, sig = "stream-mismatch", "extra-bytes"
					detail = fmt.Sprintf("%s: Read delivered %d bytes at position %d but only %d were ever written", d.name, n, d.delivered, d.written)
				case !bytes.Equal(buf[:n], want):
					k := 0
					for k < n && buf[k] == want[k] {
						k++
					}
					class, sig = "stream-mismatch", "wrong-bytes"
					detail = fmt.Sprintf("%s: Read(buf %d) returned %d bytes at stream position %d that differ from what was written (first difference at +%d: got %#02x want %#02x)",
						d.name, size, n, d.delivered, k, buf[k], want[k])
				}
				if class != "" {
					if err != nil {
						// n>0 together with an error, and the n bytes are not stream data: the caller (io.Reader contract) consumes them first
						rc.Violate("bytes-returned-with-error", "SecureConn.Read n>0 with error", "Read returned n=%d together with error %q but the %d bytes in the buffer are not the next bytes of the stream [%s]", n, err.Error(), n, detail)
						return
					}
					rc.Violate(class, sig, "%s", detail)
					return
				}
				d.delivered += int64(n)
			}
			if err != nil {
				if d.rerr == nil {
					d.rerr = err
				}
				// A reader that keeps reading after an error (a retry loop, a buffered reader) must not be handed
				// later frames either: what was delivered stays a prefix of what was written. A few more reads.
				d.readsAfterErr++
				if d.readsAfterErr > 6 || err == io.EOF || d.limit < 0 {
					return
				}
				rc.Probe("read_again_after_error")
			}
		}
	})
}

func runC31(rc *kit.RunCtx) {
	t := rc.Tape
	si := t.Choose("suite", len(c31Suites))
	sa := c31Suites[si]
	mode := drawChunkMode(t, "chunkmode")
	mitm := rc.Profile == "mitm"
	both := t.Weighted("bidirectional", 2, 1) == 1

	// ---- key agreement (real newSecureKey + setup, as Authenticator.applySecureConn does)
	kA := network.VerifNewSecureKey()
	kB := network.VerifNewSecureKey()
	if err := kA.VerifSetup(sa, kB.VerifPublic(), true, 2); err != nil {
		rc.Violate("key-setup-failed", "secureKey.setup", "A: %v", err)
		return
	}
	if err := kB.VerifSetup(sa, kA.VerifPublic(), false, 2); err != nil {
		rc.Violate("key-setup-failed", "secureKey.setup", "B: %v", err)
		return
	}
	s := newSched(rc, 300000)
	ca, cb := s.newLink("A", "B", mode)
	scA, err := network.NewSecureConn(ca, sa, kA)
	if err != nil {
		rc.Violate("key-setup-failed", "NewSecureConn", "A: %v", err)
		return
	}
	scB, err := network.NewSecureConn(cb, sa, kB)
	if err != nil {
		rc.Violate("key-setup-failed", "NewSecureConn", "B: %v", err)
		return
	}
	inA, outA := scA.VerifSecrets()
	inB, outB := scB.VerifSecrets()
	switch {
	case len(outA) == 0 || len(inA) == 0:
		rc.Violate("keys", "empty-secret", "empty secret")
		return
	case !bytes.Equal(outA, inB) || !bytes.Equal(inA, outB):
		rc.Violate("keys", "ends-disagree", "A.out=%s B.in=%s A.in=%s B.out=%s", hexShort(outA), hexShort(inB), hexShort(inA), hexShort(outB))
		return
	case bytes.Equal(outA, inA):
		rc.Violate("keys", "same-secret-both-directions", "A sends and receives under the same secret %s", hexShort(outA))
		return
	}
	rc.Probe("suite:" + c31SuiteNames[si])

	ab := &c31Dir{name: "A>B", seed: uint64(t.Choose("seed.ab", 1<<30)), writes: drawWrites(t, rc.Tier), limit: -1}
	// long streams: hundreds to thousands of tiny frames in one direction, so that the per-frame
	// state of the cipher (a counter) has carried over several times when the fault or the
	// tampering arrives; the man in the middle then acts on one of the last frames
	long := t.Permille("longstream", 40)
	if long {
		n := 0
		switch t.Weighted("long.len", 3, 2) {
		case 0:
			n = t.Range("long.n", 257, 700)
		case 1:
			n = t.Range("long.n", 3000, 4200)
		}
		w := t.Range("long.w", 1, 3)
		ab.writes = make([]int, n)
		for i := range ab.writes {
			ab.writes[i] = w
		}
		rc.Probe("long_stream")
	}
	ba := &c31Dir{name: "B>A", seed: uint64(t.Choose("seed.ba", 1<<30)) + 1<<31, limit: -1}
	if both {
		ba.writes = drawWrites(t, rc.Tier)
	}
	for _, d := range []*c31Dir{ab, ba} {
		for _, w := range d.writes {
			d.total += int64(w)
		}
	}
	switch rc.Profile {
	case "stream":
		ab.smallBufs, ba.smallBufs = true, true
	case "stream-bigbuf":
	case "mitm":
		sm := t.Weighted("mitm.smallbufs", 7, 3) == 1
		ab.smallBufs, ba.smallBufs = sm, sm
	}
	rc.Config["suite"] = c31SuiteNames[si]
	rc.Config["chunk"] = chunkModeNames[mode]
	if long {
		rc.Config["writes_ab"] = fmt.Sprintf("%d writes of %d bytes", len(ab.writes), ab.writes[0])
	} else {
		rc.Config["writes_ab"] = ab.writes
	}
	rc.Config["writes_ba"] = ba.writes

	// ---- connection fault in the stream profiles: the link A->B dies at an arbitrary ciphertext byte
	cut := false
	if !mitm && t.Weighted("fault", 6, 1) == 1 {
		cut = true
		ca.out.cutAt = int64(t.Choose("cut.at", int(ab.total)+int(ab.total)/32+64))
		rc.Config["cut_at"] = ca.out.cutAt
	}

	// ---- man in the middle on A->B
	kind := "none"
	tampered := false
	if mitm {
		kinds := []string{"flip-body", "flip-tag", "flip-length", "swap", "replay", "drop", "truncate", "reflect", "flip-pad", "replay-later"}
		kind = kinds[t.Weighted("mitm.kind", 3, 2, 2, 2, 2, 2, 1, 2, 1, 1)]
		targetWrite := t.Choose("mitm.write", len(ab.writes))
		if long {
			targetWrite = len(ab.writes) - 1 - t.Choose("mitm.fromend", 40)
		}
		lastOfWrite := t.Weighted("mitm.lastframe", 1, 1) == 1
		var held []byte  // swap: frame waiting for its successor
		var saved []byte // replay-later: copy of an earlier frame
		var plain int64  // plaintext bytes contained in the A>B frames seen so far
		var plainBA int64
		curWrite := -1
		var nextWriteAt int64 // plaintext position where the next application write starts
		h := ca.out
		cb.out.tamper = func(frame []byte) [][]byte { // B>A is only observed
			if len(frame) >= 2 {
				plainBA += int64(binary.BigEndian.Uint16(frame))
			}
			return [][]byte{frame}
		}
		h.tamper = func(frame []byte) [][]byte {
			pl := int64(0)
			if len(frame) >= 2 {
				pl = int64(binary.BigEndian.Uint16(frame))
			}
			start := plain
			plain += pl
			if start == nextWriteAt && curWrite+1 < len(ab.writes) {
				curWrite++
				nextWriteAt += int64(ab.writes[curWrite])
			}
			if held != nil {
				f := held
				held = nil
				rc.Probe("mitm_effective")
				return [][]byte{frame, f}
			}
			if saved != nil {
				f := saved
				saved = nil
				// order kept, the old frame is inserted once more after this one
				ab.limit, ab.limitWhy = plain, kind
				rc.Probe("mitm_effective")
				return [][]byte{frame, f}
			}
			hit := !tampered && curWrite == targetWrite && (!lastOfWrite || plain == nextWriteAt)
			if !hit {
				return [][]byte{frame}
			}
			tampered = true
			rc.Fault("mitm:" + kind)
			rc.Event("MITM %s at frame %d (plaintext %d..%d)", kind, h.frames, start, plain)
			setLimit := func(l int64) {
				ab.limit, ab.limitWhy = l, kind
			}
			f := append([]byte(nil), frame...)
			switch kind {
			case "flip-body":
				if len(f) <= 4+16 {
					return [][]byte{frame}
				}
				f[4+t.Choose("mitm.off", len(f)-4-16)] ^= 1 << t.Choose("mitm.bit", 8)
				setLimit(start)
			case "flip-tag":
				f[len(f)-1-t.Choose("mitm.off", 16)] ^= 1 << t.Choose("mitm.bit", 8)
				setLimit(start)
			case "flip-length":
				f[t.Choose("mitm.off", 2)] ^= 1 << t.Choose("mitm.bit", 8)
				setLimit(start)
			case "flip-pad":
				// bytes 2..3 of the frame prefix carry nothing; altering them is only required not to alter the plaintext
				f[2+t.Choose("mitm.off", 2)] ^= 1 << t.Choose("mitm.bit", 8)
			case "swap":
				held = f
				setLimit(start)
				return nil
			case "replay":
				setLimit(plain)
				return [][]byte{frame, f}
			case "replay-later":
				saved = f
				return [][]byte{frame}
			case "drop":
				setLimit(start)
				return nil
			case "truncate":
				cut := 1 + t.Choose("mitm.cut", len(f)-1)
				h.wclosed = true
				setLimit(start)
				return [][]byte{f[:cut]}
			case "reflect":
				// A's own ciphertext sent back to A, after the frames B has put on the wire so far
				ca.inject(f)
				ba.limit, ba.limitWhy = plainBA, kind
				return [][]byte{frame}
			}
			return [][]byte{f}
		}
	}
	rc.Config["mitm"] = kind
	if long {
		rc.Event("C31 %s suite=%s chunk=%s both=%v writesAB=%dx%d writesBA=%v mitm=%s", rc.Profile, c31SuiteNames[si], chunkModeNames[mode], both, len(ab.writes), ab.writes[0], ba.writes, kind)
	} else {
		rc.Event("C31 %s suite=%s chunk=%s both=%v writesAB=%v writesBA=%v mitm=%s", rc.Profile, c31SuiteNames[si], chunkModeNames[mode], both, ab.writes, ba.writes, kind)
	}

	ab.spawnWriter(s, rc, scA, ca)
	ab.spawnReader(s, rc, scB)
	ba.spawnWriter(s, rc, scB, cb)
	ba.spawnReader(s, rc, scA)
	s.run()
	if rc.Failed() {
		return
	}
	if s.aborted {
		rc.Violate("harness", "c31-run-did-not-drain", "the run had to be aborted (steps=%d)", s.steps)
		return
	}

	// ---- end-of-run oracle
	for _, d := range []*c31Dir{ab, ba} {
		touched := mitm && tampered && (d == ab || kind == "reflect")
		if cut && d == ab && ca.out.cutDone {
			// the connection died: the reader may only have got a prefix (checked read by read) and must not see a clean, complete stream
			rc.Probe("close_mid_stream")
			if d.delivered > d.total {
				rc.Violate("stream-mismatch", "extra-bytes", "%s: %d delivered, %d written", d.name, d.delivered, d.total)
				return
			}
		} else if !touched {
			if d.werr != nil {
				rc.Violate("write-failed-without-fault", "SecureConn.Write", "%s: %v", d.name, d.werr)
				return
			}
			if d.delivered != d.total {
				rc.Violate("stream-truncated", "healthy-stream", "%s: %d bytes written, writer closed, but the reader got only %d before %v", d.name, d.total, d.delivered, d.rerr)
				return
			}
			if d.rerr != io.EOF {
				rc.Violate("spurious-error", "healthy-stream", "%s: reader ended with %v instead of EOF", d.name, d.rerr)
				return
			}
		} else if kind != "flip-pad" && (d == ab) == (kind != "reflect") {
			rc.Probe("tamper_rejected:" + kind)
		}
	}
	if ab.smallBufs {
		rc.Probe("small_read_buffers")
	}
	rc.Metric("plaintext_bytes", ab.delivered+ba.delivered)
	rc.Nontrivial = ab.delivered+ba.delivered > 0 && (!mitm || tampered)
}
