package wiresim

import (
	"bytes"
	"fmt"
	"net"

	"github.com/decred/dcrd/dcrec/secp256k1/v4"
	"github.com/decred/dcrd/dcrec/secp256k1/v4/ecdsa"
	"golang.org/x/crypto/sha3"

	"github.com/icon-project/goloop/common/codec"
	"github.com/icon-project/goloop/module"
	"github.com/icon-project/goloop/network"

	"verif/sim/kit"
)

// ---------------------------------------------------------------------------
// C32: a peer is assigned an identity only if it proved possession of that
// identity's key by signing the secret of THIS session.
//
// Real: network.Authenticator objects of the honest parties A and B with their
// handlers (handleSecureRequest/Response, handleSignatureRequest/Response),
// Peer objects with the real PacketReader/PacketWriter/SecureConn over
// simconn; the harness plays Peer.receiveRoutine (read a packet, hand it to
// the peer's current packet callback) as a scheduler task.
// Adversary M: a scripted party with its own key speaking the wire protocol.
//
// Oracle (independent of Authenticator.VerifySignature): whenever an honest
// party's authenticator hands a peer on as authenticated with identity X, the
// public key presented in that session must be the key of the wallet whose
// address is X, and the presented signature must verify (decred secp256k1,
// SHA3-256) under that key over the session secret held by the verifying peer
// object. Honest proofs must be accepted.
// ---------------------------------------------------------------------------

const (
	c32Channel      = "c32"
	subSecureReq    = 0x0100
	subSecureResp   = 0x0200
	subSignatureReq = 0x0300
	subSignatureRsp = 0x0400
	destPeer        = 0xFF
)

type c32Endpoint struct {
	label       string
	owner       *c32Party
	p           *network.Peer
	authed      bool
	authedID    module.PeerID
	authedBytes []byte // the identity as bytes at the moment of authentication (peer ids are shared objects)
	authCount   int
	// what the remote side presented in this session (set by the adversary script; nil for honest remotes)
	presentedPub, presentedSig []byte
	attack                     string
	expectPeer                 *c32Party // honest remote: the identity that must come out
	mustAuth                   bool
	postPackets                int
	link                       string // connection this endpoint belongs to (both ends of a connection share it)
	mustNotAuth                string // non-empty: this session only replays recorded bytes; being authenticated at all is the violation
}

type c32Party struct {
	name string
	w    module.Wallet
	id   module.PeerID
	auth *network.Authenticator
	eps  map[*network.Peer]*c32Endpoint
	rc   *kit.RunCtx
}

func newParty(rc *kit.RunCtx, name string, real bool) *c32Party {
	pt := &c32Party{name: name, w: walletFrom(rc, name), eps: map[*network.Peer]*c32Endpoint{}, rc: rc}
	pt.id = network.NewPeerIDFromAddress(pt.w.Address())
	if real {
		pt.auth = network.VerifNewAuthenticator(pt.w, quietLogger(), func(p *network.Peer) {
			ep := pt.eps[p]
			if ep == nil {
				rc.Violate("harness", "c32-unknown-peer", "authenticated callback for an unknown peer")
				return
			}
			ep.authed = true
			ep.authCount++
			ep.authedID = p.ID()
			ep.authedBytes = append([]byte(nil), p.ID().Bytes()...)
			rc.Event("%s: %s AUTHENTICATED as %s", pt.name, ep.label, whoIs(rc, p.ID()))
		})
	}
	return pt
}

var c32Names map[string]string // id hex -> party name, per run (only for log lines)

func whoIs(rc *kit.RunCtx, id module.PeerID) string {
	if id == nil {
		return "nil"
	}
	if n, ok := c32Names[string(id.Bytes())]; ok {
		return n
	}
	return "unknown-key"
}

// serve starts the honest side of one connection: the peer object is created
// and dispatched to the authenticator exactly as PeerDispatcher does, then the
// task plays Peer.receiveRoutine.
func (pt *c32Party) serve(s *sched, conn *simconn, in bool, label string) *c32Endpoint {
	ep := &c32Endpoint{label: label, owner: pt}
	ep.p = network.VerifNewPeer(conn, in, c32Channel, quietLogger())
	pt.eps[ep.p] = ep
	rc := pt.rc
	s.spawn(pt.name+"/"+label, func() {
		defer func() {
			// Peer.receiveRoutine recovers, logs and closes the peer
			if r := recover(); r != nil {
				rc.Probe("handler_panic_recovered")
				rc.Event("%s: %s handler panic recovered", pt.name, label)
				ep.p.CloseByError(fmt.Errorf("recover from %v", r))
			}
		}()
		network.VerifDispatchPeer(ep.p, pt.auth)
		for !ep.p.IsClosed() {
			pkt, err := ep.p.VerifReadPacket()
			if err != nil {
				ep.p.CloseByError(err)
				rc.Event("%s: %s read error, closed", pt.name, label)
				return
			}
			v := pkt.VerifView()
			rc.Event("%s: %s got packet sub=%#04x len=%d", pt.name, label, v.SubProtocol.Uint16(), len(v.Payload))
			if ep.authed {
				ep.postPackets++
			}
			ep.p.VerifDeliver(pkt)
		}
		rc.Event("%s: %s closed", pt.name, label)
	})
	return ep
}

// ---- adversary side: a hand-written speaker of the wire protocol

type mSession struct {
	rc   *kit.RunCtx
	self *c32Party
	raw  *simconn
	conn net.Conn
	pr   *network.PacketReader
	pw   *network.PacketWriter
	key  *network.VerifSecureKey
	in   bool // M accepted this connection
	// captured from the remote
	remotePub, remoteSig []byte
	extra                []byte
	traffic              []byte
}

func newMSession(rc *kit.RunCtx, self *c32Party, raw *simconn, in bool) *mSession {
	return &mSession{rc: rc, self: self, raw: raw, conn: raw, in: in, pr: network.NewPacketReader(raw), pw: network.NewPacketWriter(raw)}
}

func (m *mSession) send(sub uint16, msg any) error {
	pkt := network.VerifNewPacket(0, module.ProtocolInfo(sub), m.self.id, destPeer, 1, codec.MP.MustMarshalToBytes(msg), 0, nil)
	err := m.pw.WritePacket(pkt)
	m.rc.Event("M: sent sub=%#04x err=%v", sub, err != nil)
	return err
}

func (m *mSession) recv(wantSub uint16, into any) bool {
	pkt, err := m.pr.ReadPacket()
	if err != nil {
		m.rc.Event("M: recv error (want %#04x)", wantSub)
		return false
	}
	v := pkt.VerifView()
	if v.SubProtocol.Uint16() != wantSub {
		m.rc.Event("M: recv sub=%#04x, wanted %#04x", v.SubProtocol.Uint16(), wantSub)
		return false
	}
	if _, err := codec.MP.UnmarshalFromBytes(v.Payload, into); err != nil {
		m.rc.Event("M: recv undecodable %#04x", wantSub)
		return false
	}
	m.rc.Event("M: recv sub=%#04x", wantSub)
	return true
}

func (m *mSession) secure(ss network.SecureSuite, sa network.SecureAeadSuite, peerParam []byte) bool {
	if ss == network.SecureSuiteNone {
		sa = network.SecureAeadSuiteNone
	}
	if err := m.key.VerifSetup(sa, peerParam, m.in, 2); err != nil {
		m.rc.Event("M: key setup failed")
		return false
	}
	secrets, extra := m.key.VerifSecrets()
	m.extra = extra
	if len(secrets) > 0 {
		m.traffic = secrets[0]
	}
	if ss == network.SecureSuiteEcdhe {
		sc, err := network.NewSecureConn(m.raw, sa, m.key)
		if err != nil {
			return false
		}
		m.conn = sc
		m.pr = network.NewPacketReader(sc)
		m.pw = network.NewPacketWriter(sc)
	}
	return true
}

// dial: M opens the session (remote honest party accepts). Returns after the secure exchange.
func (m *mSession) dial(ss network.SecureSuite, sa network.SecureAeadSuite) bool {
	m.key = network.VerifNewSecureKey()
	if m.send(subSecureReq, &network.SecureRequest{Channel: c32Channel, SecureSuites: []network.SecureSuite{ss},
		SecureAeadSuites: []network.SecureAeadSuite{sa}, SecureParam: m.key.VerifPublic()}) != nil {
		return false
	}
	var rsp network.SecureResponse
	if !m.recv(subSecureResp, &rsp) || rsp.SecureError != "" {
		return false
	}
	return m.secure(rsp.SecureSuite, rsp.SecureAeadSuite, rsp.SecureParam)
}

// accept: the honest party opened the session; M answers its SecureRequest.
func (m *mSession) accept(ss network.SecureSuite, sa network.SecureAeadSuite) bool {
	var rq network.SecureRequest
	if !m.recv(subSecureReq, &rq) {
		return false
	}
	m.key = network.VerifNewSecureKey()
	if ss == network.SecureSuiteNone {
		sa = network.SecureAeadSuiteNone
	}
	if m.send(subSecureResp, &network.SecureResponse{Channel: rq.Channel, SecureSuite: ss, SecureAeadSuite: sa, SecureParam: m.key.VerifPublic()}) != nil {
		return false
	}
	return m.secure(ss, sa, rq.SecureParam)
}

func signOver(w module.Wallet, content []byte) []byte {
	h := sha3.Sum256(content)
	sig, err := w.Sign(h[:])
	if err != nil {
		panic(err)
	}
	return sig
}

// verifyIndependently: does sig (R|S[|V]) verify under pub over SHA3-256(secret)? decred primitives only.
func verifyIndependently(pub, sig, secret []byte) (key *secp256k1.PublicKey, ok bool) {
	k, err := secp256k1.ParsePubKey(pub)
	if err != nil {
		return nil, false
	}
	if len(sig) != 64 && len(sig) != 65 {
		return k, false
	}
	var r, s secp256k1.ModNScalar
	if r.SetByteSlice(sig[:32]) || s.SetByteSlice(sig[32:64]) {
		return k, false
	}
	h := sha3.Sum256(secret)
	return k, ecdsa.NewSignature(&r, &s).Verify(h[:], k)
}

// maybeStripV presents a forged proof in the 64-byte form (R|S without the
// recovery id) half of the time: that form is verified on a different path.
func maybeStripV(rc *kit.RunCtx, sig []byte) []byte {
	if len(sig) == 65 && rc.Tape.Choose("sig64", 2) == 1 {
		rc.Probe("forged_proof_without_recovery_id")
		return append([]byte(nil), sig[:64]...)
	}
	return sig
}

func mutateBytes(t *kit.Tape, label string, b []byte) []byte {
	out := append([]byte(nil), b...)
	switch t.Weighted(label+".how", 5, 1, 1, 1) {
	case 0:
		out[t.Choose(label+".pos", len(out))] ^= byte(1 + t.Choose(label+".mask", 255))
	case 1:
		out = out[:len(out)-1]
	case 2:
		out = append(out, byte(t.Choose(label+".extra", 256)))
	case 3:
		out = out[:0]
	}
	return out
}

var c32Attacks = []string{
	"honest", "honest-uncompressed-key", "relay-other-session", "pubA-sigM", "sigM-other-secret",
	"mutate-public-key", "mutate-signature", "signature-before-secure-exchange", "replay-victims-own-proof", "post-auth-identity-switch",
	"replay-recorded-transcript",
}

func runC32(rc *kit.RunCtx) {
	t := rc.Tape
	A := newParty(rc, "A", true)
	B := newParty(rc, "B", true)
	M := newParty(rc, "M", false)
	c32Names = map[string]string{string(A.id.Bytes()): "A", string(B.id.Bytes()): "B", string(M.id.Bytes()): "M"}
	parties := []*c32Party{A, B, M}
	mode := drawChunkMode(t, "chunkmode")
	s := newSched(rc, 60000)
	var endpoints []*c32Endpoint

	suites := []network.SecureSuite{network.SecureSuiteNone, network.SecureSuiteEcdhe, network.SecureSuiteTls}
	suiteNames := []string{"none", "ecdhe", "tls"}

	// in profile honest both authenticators are configured for exactly one drawn suite/AEAD (so that the negotiated
	// suite is the drawn one); in profile adversary the defaults stay (negotiates the first common suite)
	pairSuite, pairAead := -1, 0
	var tapped [][]byte // attack replay-recorded-transcript: every write of the dialer of the tapped honest session, in order
	forceAtoB, tapDialer := false, false
	var lastAcceptorEp *c32Endpoint
	honestPair := func(tag string, configure bool) {
		// A dials B (or B dials A); both ends are real authenticators
		if configure && pairSuite < 0 {
			pairSuite = t.Weighted("pair.suite", 2, 3, 1)
			pairAead = t.Choose("pair.aead", len(c31Suites))
			for _, pt := range []*c32Party{A, B} {
				_ = pt.auth.SetSecureSuites(c32Channel, []network.SecureSuite{suites[pairSuite]})
				_ = pt.auth.SetSecureAeads(c32Channel, []network.SecureAeadSuite{c31Suites[pairAead]})
			}
		}
		dialer, acceptor := A, B
		if !forceAtoB && t.Choose("pair.dir", 2) == 1 {
			dialer, acceptor = B, A
		}
		cd, ca := s.newLink(dialer.name+tag, acceptor.name+tag, mode)
		if tapDialer {
			// an on-path eavesdropper: records what the dialer writes, forwards it unchanged
			cd.out.tamper = func(frame []byte) [][]byte {
				tapped = append(tapped, append([]byte(nil), frame...))
				return [][]byte{frame}
			}
		}
		e1 := dialer.serve(s, cd, false, "out"+tag)
		e2 := acceptor.serve(s, ca, true, "in"+tag)
		e1.link, e2.link = "pair"+tag, "pair"+tag
		lastAcceptorEp = e2
		e1.expectPeer, e1.mustAuth = acceptor, true
		e2.expectPeer, e2.mustAuth = dialer, true
		e1.attack, e2.attack = "honest-pair", "honest-pair"
		endpoints = append(endpoints, e1, e2)
		if configure {
			rc.Probe("pair_suite:" + suiteNames[pairSuite])
			rc.Event("pair%s %s->%s suite=%s aead=%s", tag, dialer.name, acceptor.name, suiteNames[pairSuite], c31SuiteNames[pairAead])
		} else {
			rc.Event("pair%s %s->%s default suites", tag, dialer.name, acceptor.name)
		}
	}

	if rc.Profile != "adversary" {
		honestPair("", true)
		if t.Weighted("second.pair", 3, 1) == 1 {
			// a second, concurrent session between the same two authenticators
			honestPair("#2", true)
		}
		rc.Event("C32 honest chunk=%s", chunkModeNames[mode])
		s.run()
		c32Judge(rc, parties, endpoints)
		return
	}

	// ---- adversary profile
	attack := c32Attacks[t.Weighted("attack", 2, 1, 4, 3, 3, 3, 3, 2, 2, 2, 4)]
	victimAccepts := t.Choose("victim.role", 2) == 0 // B accepts M's connection / B dials M
	ss := suites[t.Choose("m.suite", 2)]
	sa := c31Suites[t.Choose("m.aead", len(c31Suites))]
	srcAccepts := t.Choose("source.role", 2) == 0
	withPair := t.Weighted("with.pair", 3, 1) == 1
	rc.Config["attack"] = attack
	rc.Config["victim_accepts"] = victimAccepts
	rc.Config["suite"] = suiteNames[int(ss)-1]
	rc.Event("C32 adversary attack=%s victimAccepts=%v suite=%d aead=%d srcAccepts=%v chunk=%s", attack, victimAccepts, ss, sa, srcAccepts, chunkModeNames[mode])
	rc.Probe("attack:" + attack)

	if attack == "replay-recorded-transcript" {
		// A dials B honestly while M listens on the wire; afterwards M opens its own connection to B and
		// replays A's bytes verbatim
		withPair, forceAtoB, tapDialer, victimAccepts = true, true, true, true
	}
	if withPair {
		honestPair("#h", false)
	}
	// connections: X = A<->M (source of an honest proof), Z = B<->M earlier session, Y = M<->B (the attacked session)
	needX := attack == "relay-other-session" || attack == "sigM-other-secret" || attack == "post-auth-identity-switch"
	needZ := attack == "replay-victims-own-proof"
	var epX, epZ *c32Endpoint
	var cxM, czM *simconn
	if needX {
		var cxA *simconn
		cxA, cxM = s.newLink("A.x", "M.x", mode)
		epX = A.serve(s, cxA, srcAccepts, "x")
		epX.attack = "source-session"
		endpoints = append(endpoints, epX)
	}
	if needZ {
		var czB *simconn
		czB, czM = s.newLink("B.z", "M.z", mode)
		epZ = B.serve(s, czB, srcAccepts, "z")
		epZ.attack = "source-session"
		endpoints = append(endpoints, epZ)
	}
	cyB, cyM := s.newLink("B.y", "M.y", mode)
	epY := B.serve(s, cyB, victimAccepts, "y")
	epY.attack = attack
	epY.link = "y"
	if epX != nil {
		epX.link = "x"
	}
	if epZ != nil {
		epZ.link = "z"
	}
	endpoints = append(endpoints, epY)

	s.spawn("M", func() {
		// run a complete honest session as M against an honest party and capture that party's proof
		harvest := func(raw *simconn, remoteAccepts bool, ep *c32Endpoint) *mSession {
			m := newMSession(rc, M, raw, !remoteAccepts)
			if remoteAccepts {
				if !m.dial(ss, sa) {
					return m
				}
				pub, sig := M.w.PublicKey(), signOver(M.w, m.extra)
				ep.presentedPub, ep.presentedSig = pub, sig
				ep.mustAuth = true
				ep.expectPeer = M
				if m.send(subSignatureReq, &network.SignatureRequest{PublicKey: pub, Signature: sig}) != nil {
					return m
				}
				var rsp network.SignatureResponse
				if m.recv(subSignatureRsp, &rsp) {
					m.remotePub, m.remoteSig = rsp.PublicKey, rsp.Signature
				}
			} else {
				if !m.accept(ss, sa) {
					return m
				}
				var rq network.SignatureRequest
				if m.recv(subSignatureReq, &rq) {
					m.remotePub, m.remoteSig = rq.PublicKey, rq.Signature
				}
				// M leaves the honest dialer without an answer: it must not end up authenticated
			}
			return m
		}
		var mx, mz *mSession
		if needX {
			mx = harvest(cxM, srcAccepts, epX)
			if mx.remoteSig == nil {
				rc.Event("M: could not harvest a proof from A")
			} else {
				rc.Probe("proof_harvested")
			}
		}
		if needZ {
			mz = harvest(czM, srcAccepts, epZ)
			if mz.remoteSig != nil {
				rc.Probe("proof_harvested")
			}
		}

		if attack == "replay-recorded-transcript" {
			hp := lastAcceptorEp
			s.yield(func() bool { return hp.authed || hp.p.IsClosed() })
			if !hp.authed || len(tapped) == 0 {
				rc.Event("M: nothing to replay (the honest session did not complete)")
				return
			}
			rc.Probe("transcript_recorded")
			epY.mustNotAuth = "it only replayed, byte for byte, what A sent in an earlier session"
			for _, f := range tapped {
				if _, err := cyM.Write(f); err != nil {
					break
				}
			}
			rc.Event("M: replayed %d recorded writes of A", len(tapped))
			// swallow whatever the victim answers until it gives up
			buf := make([]byte, 4096)
			for i := 0; i < 64; i++ {
				if _, err := cyM.Read(buf); err != nil {
					break
				}
			}
			return
		}
		// ---- the attacked session Y
		my := newMSession(rc, M, cyM, !victimAccepts)
		present := func(pub, sig []byte, errText string) bool {
			epY.presentedPub, epY.presentedSig = pub, sig
			if victimAccepts {
				return my.send(subSignatureReq, &network.SignatureRequest{PublicKey: pub, Signature: sig}) == nil
			}
			return my.send(subSignatureRsp, &network.SignatureResponse{PublicKey: pub, Signature: sig, Error: errText}) == nil
		}
		if attack == "signature-before-secure-exchange" {
			if !victimAccepts {
				var rq network.SecureRequest
				if !my.recv(subSecureReq, &rq) {
					return
				}
			}
			present(M.w.PublicKey(), signOver(M.w, []byte("no session yet")), "")
			var rsp network.SignatureResponse
			my.recv(subSignatureRsp, &rsp)
			return
		}
		ok := false
		if victimAccepts {
			ok = my.dial(ss, sa)
		} else {
			ok = my.accept(ss, sa)
			if ok {
				var rq network.SignatureRequest
				ok = my.recv(subSignatureReq, &rq)
				my.remotePub, my.remoteSig = rq.PublicKey, rq.Signature
			}
		}
		if !ok {
			rc.Event("M: secure exchange with the victim failed")
			return
		}
		rc.Probe("secure_exchange_done")
		pubM := M.w.PublicKey()
		switch attack {
		case "honest", "post-auth-identity-switch":
			epY.mustAuth, epY.expectPeer = true, M
			present(pubM, signOver(M.w, my.extra), "")
		case "honest-uncompressed-key":
			epY.mustAuth, epY.expectPeer = true, M
			k, _ := secp256k1.ParsePubKey(pubM)
			present(k.SerializeUncompressed(), signOver(M.w, my.extra), "")
		case "relay-other-session":
			if mx == nil || mx.remoteSig == nil {
				return
			}
			present(mx.remotePub, maybeStripV(rc, mx.remoteSig), "")
		case "pubA-sigM":
			present(A.w.PublicKey(), maybeStripV(rc, signOver(M.w, my.extra)), "")
		case "sigM-other-secret":
			var other []byte
			switch t.Weighted("othersecret", 2, 1, 1) {
			case 0:
				if mx != nil {
					other = mx.extra
				}
			case 1:
				other = my.traffic // a traffic secret of this very session instead of the session secret
			case 2:
				other = t.Bytes("randsecret", 32)
			}
			if other == nil {
				other = []byte{}
			}
			present(pubM, maybeStripV(rc, signOver(M.w, other)), "")
		case "mutate-public-key":
			present(mutateBytes(t, "mutpub", pubM), signOver(M.w, my.extra), "")
		case "mutate-signature":
			present(pubM, mutateBytes(t, "mutsig", signOver(M.w, my.extra)), "")
		case "replay-victims-own-proof":
			if mz == nil || mz.remoteSig == nil {
				return
			}
			present(mz.remotePub, mz.remoteSig, "")
		}
		if victimAccepts {
			var rsp network.SignatureResponse
			if my.recv(subSignatureRsp, &rsp) && rsp.Error != "" {
				rc.Probe("victim_answered_with_error")
			}
		}
		if attack == "post-auth-identity-switch" && mx != nil && mx.remoteSig != nil {
			// already authenticated as M: now claim to be A on the same connection
			rc.Event("M: identity switch attempt")
			if victimAccepts {
				my.send(subSignatureReq, &network.SignatureRequest{PublicKey: mx.remotePub, Signature: mx.remoteSig})
			} else {
				my.send(subSignatureRsp, &network.SignatureResponse{PublicKey: mx.remotePub, Signature: mx.remoteSig})
			}
			my.send(subSignatureReq, &network.SignatureRequest{PublicKey: A.w.PublicKey(), Signature: signOver(A.w, my.extra)[:0]})
		}
	})
	s.run()
	c32Judge(rc, parties, endpoints)
}

func c32Judge(rc *kit.RunCtx, parties []*c32Party, endpoints []*c32Endpoint) {
	if rc.Failed() {
		return
	}
	// Meanwhile the node goes on living: it sees packets from, and handshakes with, many other identities
	// (every packet source and every handshake goes through network.NewPeerID). The identity assigned to an
	// authenticated peer must not drift while that happens.
	if rc.Tape.Permille("id.churn", 400) {
		n := 100 + rc.Tape.Choose("id.churn.n", 160)
		for i := 0; i < n; i++ {
			_ = network.NewPeerID(rc.Tape.Bytes("id.churn.id", 20))
		}
		rc.Probe("identity_churn_after_authentication")
		for _, ep := range endpoints {
			if ep.authed && ep.p.ID() != nil && !bytes.Equal(ep.p.ID().Bytes(), ep.authedBytes) {
				rc.Violate("identity-changed-after-authentication", ep.attack+"/after-id-churn", "%s/%s: authenticated as %x, after the node saw %d other identities the peer's identity reads %x",
					ep.owner.name, ep.label, ep.authedBytes, n, ep.p.ID().Bytes())
				return
			}
		}
	}
	byID := func(id module.PeerID) *c32Party {
		for _, p := range parties {
			if id != nil && p.id.Equal(id) {
				return p
			}
		}
		return nil
	}
	// "The secret of this very session": an honest party never ends up with the same session secret on two
	// different connections (its own contribution to the key exchange is fresh per connection), otherwise a
	// proof made for one session is a proof for the other.
	bySecret := map[string]*c32Endpoint{}
	for _, ep := range endpoints {
		sec := ep.p.VerifSessionSecret()
		if len(sec) == 0 || ep.link == "" {
			continue
		}
		if o, ok := bySecret[string(sec)]; ok && o.link != ep.link {
			rc.Violate("session-secret-reused", "two-connections", "%s/%s and %s/%s are different connections but hold the same session secret", o.owner.name, o.label, ep.owner.name, ep.label)
			return
		} else if !ok {
			bySecret[string(sec)] = ep
		}
	}
	rc.Metric("session_secrets_compared", int64(len(bySecret)))
	nAuth, nRej := 0, 0
	for _, ep := range endpoints {
		where := ep.owner.name + "/" + ep.label
		role := "victim-dials"
		if ep.p.In() {
			role = "victim-accepts"
		}
		sig := ep.attack + "/" + role
		if !ep.authed {
			nRej++
			if ep.mustAuth {
				rc.Violate("honest-proof-rejected", sig, "%s: the remote proved possession of %s's key over this session's secret but was not authenticated (peer closed: %s)",
					where, ep.expectPeer.name, ep.p.CloseInfo())
				return
			}
			if ep.p.ID() != nil {
				// handleSignatureRequest sets the id before it looks at the verification error; the peer is closed right away
				rc.Probe("id_field_set_on_rejected_peer")
			}
			if ep.presentedSig != nil || ep.attack == "signature-before-secure-exchange" {
				rc.Probe("false_proof_rejected")
			}
			continue
		}
		nAuth++
		if ep.mustNotAuth != "" {
			rc.Violate("identity-without-proof", sig, "%s: the connection was authenticated as %s although %s", where, whoIs(rc, ep.authedID), ep.mustNotAuth)
			return
		}
		if ep.authCount > 1 {
			rc.Violate("authenticated-twice", sig, "%s: handed on as authenticated %d times", where, ep.authCount)
			return
		}
		if fin := ep.p.ID(); fin == nil || !fin.Equal(ep.authedID) {
			rc.Violate("identity-changed-after-authentication", sig, "%s: authenticated as %s, identity later %s", where, whoIs(rc, ep.authedID), whoIs(rc, fin))
			return
		}
		if ep.expectPeer != nil && ep.presentedSig == nil {
			// honest remote (real authenticator on the other end)
			if !ep.authedID.Equal(ep.expectPeer.id) {
				rc.Violate("wrong-identity", sig, "%s: remote is %s but was authenticated as %s", where, ep.expectPeer.name, whoIs(rc, ep.authedID))
				return
			}
			continue
		}
		// adversary-driven session: demand an independent proof for the identity that came out
		secret := ep.p.VerifSessionSecret()
		key, ok := verifyIndependently(ep.presentedPub, ep.presentedSig, secret)
		owner := byID(ep.authedID)
		switch {
		case len(secret) == 0:
			rc.Violate("identity-without-proof", sig, "%s: authenticated as %s before any session secret existed", where, whoIs(rc, ep.authedID))
			return
		case owner == nil:
			rc.Violate("identity-without-proof", sig, "%s: authenticated with identity %x that belongs to none of the keys in the run (presented key %x)", where, ep.authedID.Bytes(), ep.presentedPub)
			return
		case key == nil || !bytes.Equal(key.SerializeCompressed(), owner.w.PublicKey()):
			rc.Violate("identity-without-proof", sig, "%s: authenticated as %s but the presented public key is not %s's key", where, owner.name, owner.name)
			return
		case !ok:
			rc.Violate("identity-without-proof", sig, "%s: authenticated as %s but the presented signature does not verify under %s's key over this session's secret", where, owner.name, owner.name)
			return
		}
		if ep.expectPeer != nil && !ep.authedID.Equal(ep.expectPeer.id) {
			rc.Violate("wrong-identity", sig, "%s: expected %s, authenticated as %s", where, ep.expectPeer.name, owner.name)
			return
		}
		rc.Probe("authenticated_with_valid_proof")
	}
	rc.Metric("authenticated", int64(nAuth))
	rc.Metric("rejected", int64(nRej))
	rc.Nontrivial = nAuth+nRej > 0
}
