package wiresim

import (
	"bytes"
	"fmt"

	"github.com/icon-project/goloop/module"
	"github.com/icon-project/goloop/network"

	"verif/sim/kit"
)

// ---------------------------------------------------------------------------
// C30: packet framing round-trips under any chunking; altered header/payload
// is rejected.
//
// Reference model: the list of packets handed to WritePacket. Wire layout used
// only to aim the corruption and to classify where it landed (from the
// property's field list): protocol 2, sub-protocol 2, source 20, destination 1,
// TTL 1, payload length 4 | payload | packet hash 8, extension info 2 |
// extension. The layout assumption is verified in every fault-free run
// (bytes on the wire == sum of the sizes computed from it).
// ---------------------------------------------------------------------------

const (
	c30HeaderLen  = 2 + 2 + 20 + 1 + 1 + 4
	c30FooterLen  = 8 + 2
	c30MaxPayload = 1 << 20 // "payload sizes up to the maximum" (1 MiB)
	c30Buffer     = 4096    // buffer size of the reader/writer under test; sizes around it are drawn on purpose
)

type pktSpec struct {
	pi, spi   uint16
	src       []byte
	dest, ttl byte
	payload   []byte
	hint      byte
	ext       []byte
}

func (p *pktSpec) wireLen() int64 {
	return int64(c30HeaderLen + len(p.payload) + c30FooterLen + len(p.ext))
}

func (p *pktSpec) String() string {
	return fmt.Sprintf("pi=%#04x spi=%#04x src=%x dest=%#02x ttl=%d len=%d hint=%d ext=%d", p.pi, p.spi, p.src[:3], p.dest, p.ttl, len(p.payload), p.hint, len(p.ext))
}

func (p *pktSpec) build() *network.Packet {
	return network.VerifNewPacket(module.ProtocolInfo(p.pi), module.ProtocolInfo(p.spi), network.NewPeerID(p.src), p.dest, p.ttl, p.payload, p.hint, p.ext)
}

// diff returns "" when the packet read equals the packet written, else the first differing field.
func (p *pktSpec) diff(v network.VerifPacketView) string {
	switch {
	case v.Protocol.Uint16() != p.pi:
		return "protocol"
	case v.SubProtocol.Uint16() != p.spi:
		return "sub-protocol"
	case v.Src == nil || !bytes.Equal(v.Src.Bytes(), p.src):
		return "source"
	case v.Dest != p.dest:
		return "destination"
	case v.TTL != p.ttl:
		return "ttl"
	case !bytes.Equal(v.Payload, p.payload):
		return "payload"
	case v.ExtHint != p.hint || !bytes.Equal(v.Ext, p.ext):
		return "extension"
	}
	return ""
}

var c30BoundarySizes = []int{
	c30Buffer - c30HeaderLen - c30FooterLen - 1, c30Buffer - c30HeaderLen - c30FooterLen, c30Buffer - c30HeaderLen - c30FooterLen + 1,
	c30Buffer - c30HeaderLen - 1, c30Buffer - c30HeaderLen, c30Buffer - c30HeaderLen + 1,
	c30Buffer - 1, c30Buffer, c30Buffer + 1,
	2*c30Buffer - c30HeaderLen, 2*c30Buffer - 1, 2 * c30Buffer, 2*c30Buffer + 1,
}

func drawPacket(rc *kit.RunCtx, idx int) *pktSpec {
	t := rc.Tape
	p := &pktSpec{}
	p.pi = uint16(t.Choose("pi", 1<<16))
	p.spi = uint16(t.Choose("spi", 1<<16))
	p.src = t.Bytes("src", 20)
	switch t.Weighted("dest", 2, 1, 1, 1, 2) {
	case 0:
		p.dest = 0
	case 1:
		p.dest = 1
	case 2:
		p.dest = 2
	case 3:
		p.dest = 0xFF
	case 4:
		p.dest = byte(t.Choose("destb", 256))
	}
	switch t.Weighted("ttl", 2, 2, 1) {
	case 1:
		p.ttl = 1
	case 2:
		p.ttl = byte(t.Choose("ttlb", 256))
	}
	var n int
	wBig, wMax := 1, 0
	if rc.Tier == "thorough" {
		wBig, wMax = 2, 1
	} else if idx == 0 {
		wMax = 1 // at most the first packet of a quick run may be of maximum size (cost)
	}
	switch t.Weighted("psize", 6, 5, 3, wBig, wMax) {
	case 0:
		n = t.Range("psmall", 0, 64)
	case 1:
		n = c30BoundarySizes[t.Choose("pbound", len(c30BoundarySizes))]
	case 2:
		n = t.Range("pmid", 65, 20000)
	case 3:
		n = []int{65535, 65536, 1 << 18}[t.Choose("pbig", 3)]
		rc.Probe("payload_64k_or_more")
	case 4:
		n = c30MaxPayload - t.Choose("pmax", 2)
		rc.Probe("payload_max")
	}
	p.payload = pattern(uint64(t.Choose("pseed", 1<<32))+1, n)
	if t.Weighted("ext", 3, 2) == 1 {
		p.hint = byte(t.Choose("hint", 64))
		var en int
		switch t.Weighted("extlen", 2, 2, 1, 1) {
		case 0:
			en = 4 * (1 + t.Choose("ext4", 8))
		case 1:
			en = 1 + t.Choose("extn", 1023)
		case 2:
			en = 1023
		case 3:
			en = 0 // hint without bytes
		}
		p.ext = pattern(uint64(idx)+77, en)
		if en > 0 {
			rc.Probe("ext_present")
		}
	}
	return p
}

type c30Region struct {
	name     string
	off, len int64
	covered  bool // alteration here must be rejected according to the statement
}

func (p *pktSpec) regions(base int64) []c30Region {
	pl := int64(len(p.payload))
	r := []c30Region{
		{"header.protocol", base, 2, true},
		{"header.sub-protocol", base + 2, 2, true},
		{"header.source", base + 4, 20, true},
		{"header.destination", base + 24, 1, true},
		{"header.ttl", base + 25, 1, true},
		{"header.length", base + 26, 4, true},
	}
	if pl > 0 {
		r = append(r, c30Region{"payload", base + c30HeaderLen, pl, true})
	}
	r = append(r, c30Region{"footer.hash", base + c30HeaderLen + pl, 8, false},
		c30Region{"footer.extinfo", base + c30HeaderLen + pl + 8, 2, false})
	if len(p.ext) > 0 {
		r = append(r, c30Region{"extension", base + c30HeaderLen + pl + c30FooterLen, int64(len(p.ext)), false})
	}
	return r
}

func runC30(rc *kit.RunCtx) {
	t := rc.Tape
	maxPk := 6
	if rc.Tier == "thorough" {
		maxPk = 14
	}
	n := t.Range("npkts", 1, maxPk)
	mode := drawChunkMode(t, "chunkmode")
	sent := make([]*pktSpec, n)
	var total int64
	starts := make([]int64, n)
	for i := range sent {
		sent[i] = drawPacket(rc, i)
		starts[i] = total
		total += sent[i].wireLen()
	}
	rc.Config["packets"] = n
	rc.Config["chunk"] = chunkModeNames[mode]
	rc.Config["wire_bytes"] = total

	s := newSched(rc, 400000)
	cw, cr := s.newLink("w", "r", mode)
	wire := cw.out

	// ---- fault plan
	fault := "none"
	corruptK := -1
	var corruptRegion c30Region
	switch rc.Profile {
	case "corrupt":
		corruptK = t.Choose("corrupt.pkt", n)
		regs := sent[corruptK].regions(starts[corruptK])
		// weight header fields and payload up, uncovered regions down
		w := make([]int, len(regs))
		for i, r := range regs {
			if r.covered {
				w[i] = 3
			} else {
				w[i] = 1
			}
		}
		corruptRegion = regs[t.Weighted("corrupt.region", w...)]
		off := corruptRegion.off
		switch t.Weighted("corrupt.pos", 2, 1, 1) {
		case 0:
			off += int64(t.Choose("corrupt.off", int(corruptRegion.len)))
		case 1:
			off += corruptRegion.len - 1
		}
		wire.flipAt = off
		if t.Weighted("corrupt.kind", 1, 1) == 0 {
			wire.flipMask = 1 << t.Choose("corrupt.bit", 8)
		} else {
			wire.flipMask = byte(1 + t.Choose("corrupt.mask", 255))
		}
		fault = "flip:" + corruptRegion.name
		rc.Probe("corrupt:" + corruptRegion.name)
	default: // "clean": chunking, short writes, close at an arbitrary byte; content never altered
		switch t.Weighted("fault", 5, 2, 2) {
		case 1:
			wire.shortPm = []int{30, 150, 500}[t.Choose("short.rate", 3)]
			fault = "short-writes"
		case 2:
			wire.cutAt = int64(t.Choose("cut.at", int(total)+1))
			fault = "close-at-byte"
		}
	}
	rc.Config["fault"] = fault
	rc.Event("C30 %s packets=%d chunk=%s fault=%s wire=%d", rc.Profile, n, chunkModeNames[mode], fault, total)
	for i, p := range sent {
		rc.Event(" pkt%d @%d %s", i, starts[i], p)
	}
	if wire.flipAt >= 0 {
		rc.Event(" flip @%d mask=%#02x in pkt%d %s", wire.flipAt, wire.flipMask, corruptK, corruptRegion.name)
	}

	// ---- tasks
	acked := 0
	var werr error
	s.spawn("writer", func() {
		pw := network.NewPacketWriter(cw)
		for i, p := range sent {
			if err := pw.WritePacket(p.build()); err != nil {
				werr = err
				rc.Event("WritePacket %d: error %v", i, err)
				break
			}
			acked++
			rc.Event("WritePacket %d ok", i)
		}
		cw.Close() // like Peer: a failed send closes the connection; a finished sender closes too
	})
	var got []network.VerifPacketView
	var rerr error
	s.spawn("reader", func() {
		pr := network.NewPacketReader(cr)
		for {
			pkt, err := pr.ReadPacket()
			if err != nil {
				rerr = err
				rc.Event("ReadPacket %d: error", len(got))
				return
			}
			v := pkt.VerifView()
			got = append(got, v)
			rc.Event("ReadPacket %d: pi=%#04x len=%d ext=%d", len(got)-1, v.Protocol.Uint16(), len(v.Payload), len(v.Ext))
			if len(got) > n+2 {
				return // more packets than were ever sent: the oracle below reports it
			}
		}
	})
	s.run()
	_ = rerr

	if wire.shorts > 0 {
		rc.Probe("short_write_retry_path")
	}
	if wire.cutDone {
		rc.Probe("close_mid_stream")
	}
	if s.aborted {
		rc.Violate("harness", "c30-run-did-not-drain", "the run had to be aborted (steps=%d)", s.steps)
		return
	}

	// ---- oracle
	rc.Metric("packets_written", int64(acked))
	rc.Metric("packets_read", int64(len(got)))
	if rc.Profile != "corrupt" && wire.shorts == 0 && !wire.cutDone {
		if acked != n || werr != nil {
			rc.Violate("write-failed-without-fault", "WritePacket", "WritePacket failed on a healthy stream: acked %d of %d, err=%v", acked, n, werr)
			return
		}
	}
	limit := acked // number of packets that must come out
	class := "roundtrip"
	if corruptK >= 0 && wire.flipped {
		if corruptRegion.covered {
			limit = corruptK
		} else {
			// outside the statement (hash/extension bytes are not "header or payload"): only the packets before it are judged
			limit = corruptK
			class = "uncovered"
		}
	}
	for i, v := range got {
		if i >= limit {
			break
		}
		if d := sent[i].diff(v); d != "" {
			rc.Violate("packet-altered", d, "packet %d read back with a different %s (fault=%s): wrote %s", i, d, fault, sent[i])
			return
		}
	}
	if len(got) < limit {
		sig := "healthy-stream"
		if corruptK >= 0 {
			sig = "before-corrupted-packet"
		} else if wire.shorts > 0 || wire.cutDone {
			sig = "acknowledged-before-" + fault
		}
		rc.Violate("packet-lost", sig, "%d packets were written successfully before the fault point but only %d were read (fault=%s, reader error: %v)", limit, len(got), fault, rerr)
		return
	}
	if len(got) > limit {
		switch {
		case class == "uncovered":
			rc.Probe("uncovered_corruption_accepted:" + corruptRegion.name)
		case corruptK >= 0 && wire.flipped:
			rc.Violate("corrupt-accepted", corruptRegion.name, "packet %d was returned as valid although its %s byte at stream offset %d was altered (mask %#02x); read: pi=%#04x len=%d",
				corruptK, corruptRegion.name, wire.flipAt, wire.flipMask, got[corruptK].Protocol.Uint16(), len(got[corruptK].Payload))
			return
		default:
			rc.Violate("packet-invented", fault, "%d packets read but only %d were written completely", len(got), limit)
			return
		}
	}
	if rc.Profile != "corrupt" && wire.shorts == 0 && !wire.cutDone && wire.written != total {
		// sanity check of the layout used to aim and classify corruptions (after the content oracle, which reports real differences first)
		rc.Violate("harness", "c30-layout-assumption", "wire bytes %d != %d computed from the field list", wire.written, total)
		return
	}
	if corruptK >= 0 && wire.flipped && corruptRegion.covered {
		rc.Probe("corruption_rejected")
	}
	rc.Nontrivial = len(got) > 0 || (corruptK == 0 && wire.flipped)
}
