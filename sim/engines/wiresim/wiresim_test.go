// Package wiresim simulates the peer-to-peer wire layer of goloop (package
// network: packet framing, the encrypted peer channel, the authentication
// handshake and the flooding filter of PeerToPeer.onPacket) over simulated
// duplex byte streams whose chunking, short writes, byte flips, frame
// reordering/duplication and close-at-arbitrary-byte are decisions of the run's
// tape. Tasks (writers, readers, adversaries) run under a cooperative token
// scheduler inside a testing/synctest bubble. Serves C30, C31, C32, C33.
package wiresim

import (
	"crypto/sha256"
	"io"
	"sync"
	"testing"
	"testing/cryptotest"
	"testing/synctest"
	"time"

	"github.com/icon-project/goloop/common/crypto"
	"github.com/icon-project/goloop/common/log"
	"github.com/icon-project/goloop/common/wallet"
	"github.com/icon-project/goloop/module"

	"verif/sim/kit"
)

type engine struct{ t *testing.T }

func (engine) Name() string { return "wiresim" }

func TestWorker(t *testing.T) {
	if err := kit.WorkerMain(engine{t}); err != nil {
		t.Fatal(err)
	}
}

var (
	logOnce sync.Once
	quietLg log.Logger
)

// quietLogger: goloop's network code logs every dropped packet; nothing of it is observed.
func quietLogger() log.Logger {
	logOnce.Do(func() {
		l := log.New()
		l.SetOutput(io.Discard)
		l.SetLevel(log.PanicLevel)
		l.SetConsoleLevel(log.PanicLevel)
		quietLg = l
	})
	return quietLg
}

// walletFrom derives a secp256k1 wallet from tape bytes (never wallet.New()).
func walletFrom(rc *kit.RunCtx, name string) module.Wallet {
	seed := rc.Tape.Bytes("wallet."+name, 8)
	for ctr := byte(0); ; ctr++ {
		h := sha256.Sum256(append(append([]byte("wiresim/"+name+"/"), seed...), ctr))
		sk, err := crypto.ParsePrivateKey(h[:])
		if err != nil {
			continue
		}
		w, err := wallet.NewFromPrivateKey(sk)
		if err != nil {
			continue
		}
		return w
	}
}

func (e engine) Run(rc *kit.RunCtx) {
	synctest.Test(e.t, func(t *testing.T) {
		// ephemeral ECDH keys (network.newSecureKey) come from crypto/rand: seed it from the tape
		cryptotest.SetGlobalRandom(t, uint64(rc.Tape.Choose("cryptoseed", 1<<40)))
		t0 := time.Now()
		switch rc.Property {
		case "C30":
			runC30(rc)
		case "C31":
			runC31(rc)
		case "C32":
			runC32(rc)
		case "C33":
			runC33(rc)
		default:
			rc.Violate("harness", "unknown-property", "wiresim does not serve %s", rc.Property)
		}
		rc.SimTime = time.Since(t0)
	})
}
