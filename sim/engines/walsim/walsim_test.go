// Package walsim simulates the consensus write-ahead log (consensus/wal.go, real
// code, real files on tmpfs) under append/sync/tick/close histories with crashes
// that keep every byte-level prefix of the not-yet-synced tail.
package walsim

import (
	"bytes"
	"encoding/binary"
	"fmt"
	"os"
	"path/filepath"
	"sort"
	"strconv"
	"strings"
	"testing"
	"testing/synctest"
	"time"

	"github.com/icon-project/goloop/consensus"

	"verif/sim/kit"
)

type engine struct{ t *testing.T }

func (engine) Name() string { return "walsim" }

func TestWorker(t *testing.T) {
	if err := kit.WorkerMain(engine{t}); err != nil {
		t.Fatal(err)
	}
}

type opKind int

const (
	opAppend opKind = iota
	opSync
	opTick
	opReopen
	opCrash
	opShift
)

type op struct {
	kind    opKind
	payload []byte
	ticks   int
}

func (o op) String() string {
	switch o.kind {
	case opAppend:
		return fmt.Sprintf("append(%d)", len(o.payload))
	case opSync:
		return "sync"
	case opTick:
		return fmt.Sprintf("tick(%d)", o.ticks)
	case opReopen:
		return "close+reopen"
	case opCrash:
		return "crash"
	case opShift:
		return "shift"
	}
	return "?"
}

// state of one fork
type fork struct {
	dir      string
	id       string
	w        consensus.WALWriter
	model    [][]byte // records appended so far (those that may legitimately still exist)
	acked    int      // leading records covered by an acknowledged Sync/Close (or recovered from disk)
	floorIdx uint64   // tail segment index at the time of the last acknowledged sync
	floorLen int64    // its size then
	path     string   // fork path, e.g. "c0@137/c1@9"
}

type sim struct {
	rc       *kit.RunCtx
	cfg      consensus.WALConfig
	ops      []op
	forks    int
	maxForks int
	nForkDir int
	counter  uint64
	crashes  int
}

var payloadSizes = []int{9, 0, 1, 7, 8, 24, 100, 4087, 4088, 4089, 4096, 4104, 12300}

func (s *sim) genPayload(t *kit.Tape) []byte {
	var n int
	switch t.Weighted("psize", 6, 6, 2) {
	case 0:
		n = t.Range("psmall", 0, 40)
	case 1:
		n = payloadSizes[t.Choose("pidx", len(payloadSizes))]
	case 2:
		n = t.Range("pbig", 0, 3) * int(s.cfg.FileLimit) / 2
		if n > 20000 {
			n = 20000
		}
	}
	p := make([]byte, n)
	s.counter++
	// unique, attributable content: counter then a counter-derived pattern
	var c [8]byte
	binary.BigEndian.PutUint64(c[:], s.counter)
	for i := range p {
		p[i] = c[i%8] ^ byte(i/8)
	}
	if n >= 8 && t.Permille("pzero", 100) {
		// payload that itself looks like WAL framing (zero crc, zero length)
		for i := range p {
			p[i] = 0
		}
		if n >= 16 {
			copy(p[8:], c[:])
		}
	}
	return p
}

func (s *sim) generate() {
	t := s.rc.Tape
	limits := []int64{256, 64, 1024, 4096, 16384, 0}
	s.cfg.FileLimit = limits[t.Choose("filelimit", len(limits))]
	s.cfg.TotalLimit = 1 << 40 // head deletion is outside the statement (assumption)
	s.cfg.HousekeepingInterval = time.Second
	s.cfg.SyncInterval = []time.Duration{time.Second, 10 * time.Millisecond, time.Hour}[t.Choose("syncint", 3)]
	if t.Permille("manysegs", 150) {
		// warm-up: many small segments, so that the crash happens with segment indexes of different
		// widths (w_9 / w_10, rarely w_99 / w_100) in the directory
		k := 8 + t.Choose("manysegs.k", 6)
		if t.Permille("manysegs.100", 60) {
			k = 97 + t.Choose("manysegs.k100", 6)
			s.maxForks = 300
		}
		for i := 0; i < k; i++ {
			s.ops = append(s.ops, op{kind: opAppend, payload: s.genPayload(t)[:0]}, op{kind: opAppend, payload: s.genPayload(t)}, op{kind: opShift})
		}
		s.rc.Probe("many_segments_warm_up")
	}
	n := t.Range("nops", 3, 24)
	maxCrash := 1 + t.Choose("ncrash", 3)
	for i := 0; i < n; i++ {
		var o op
		switch t.Weighted("op", 10, 5, 3, 1, 4, 1) {
		case 0:
			o = op{kind: opAppend, payload: s.genPayload(t)}
		case 1:
			o = op{kind: opSync}
		case 2:
			o = op{kind: opTick, ticks: 1 + t.Choose("ticks", 3)}
		case 3:
			o = op{kind: opReopen}
		case 4:
			if s.crashes < maxCrash {
				s.crashes++
				o = op{kind: opCrash}
			} else {
				o = op{kind: opSync}
			}
		case 5:
			o = op{kind: opShift}
		}
		s.ops = append(s.ops, o)
	}
	s.rc.Config["file_limit"] = s.cfg.FileLimit
	s.rc.Config["sync_interval_ms"] = s.cfg.SyncInterval.Milliseconds()
	var sb []string
	for _, o := range s.ops {
		sb = append(sb, o.String())
	}
	s.rc.Config["history"] = strings.Join(sb, " ")
}

type seg struct {
	idx  uint64
	name string
	data []byte
}

func readSegs(dir, prefix string) []seg {
	ents, _ := os.ReadDir(dir)
	var segs []seg
	for _, e := range ents {
		if !strings.HasPrefix(e.Name(), prefix+"_") {
			continue
		}
		idx, err := strconv.ParseUint(e.Name()[len(prefix)+1:], 10, 64)
		if err != nil {
			continue
		}
		b, _ := os.ReadFile(filepath.Join(dir, e.Name()))
		segs = append(segs, seg{idx, e.Name(), b})
	}
	sort.Slice(segs, func(i, j int) bool { return segs[i].idx < segs[j].idx })
	return segs
}

func (s *sim) open(f *fork) bool {
	w, err := consensus.OpenWALForWrite(f.id, &s.cfg)
	if err != nil {
		s.rc.Violate("open-for-write-failed", "open", "fork %s: %v", f.path, err)
		return false
	}
	f.w = w
	return true
}

func (s *sim) noteSynced(f *fork) {
	f.acked = len(f.model)
	segs := readSegs(f.dir, "w")
	if len(segs) > 0 {
		last := segs[len(segs)-1]
		f.floorIdx, f.floorLen = last.idx, int64(len(last.data))
	}
}

// recover reads the log the way consensus.applyRoundWAL does and checks the oracle.
func (s *sim) recoverAndCheck(f *fork, what, sig string) bool {
	rc := s.rc
	wr, err := consensus.OpenWALForRead(f.id)
	if err != nil {
		if consensus.IsNotExist(err) {
			// no file at all: the log is empty
			if f.acked > 0 {
				rc.Violate("synced-record-lost", sig, "fork %s %s: log does not exist but %d records were synced", f.path, what, f.acked)
				return false
			}
			f.model = f.model[:0]
			return true
		}
		rc.Violate("open-for-read-failed", sig, "fork %s %s: %v", f.path, what, err)
		return false
	}
	var got [][]byte
	repaired := false
	for {
		bs, err := wr.ReadBytes()
		if consensus.IsEOF(err) {
			break
		} else if consensus.IsCorruptedWAL(err) || consensus.IsUnexpectedEOF(err) {
			repaired = true
			rc.Probe("wal_repair_executed")
			if err := wr.CloseAndRepair(); err != nil {
				rc.Violate("repair-failed", sig, "fork %s %s: CloseAndRepair: %v", f.path, what, err)
				return false
			}
			break
		} else if err != nil {
			rc.Violate("read-failed", sig, "fork %s %s: ReadBytes: %v", f.path, what, err)
			return false
		}
		got = append(got, bs)
	}
	wr.Close()
	for i, g := range got {
		if i >= len(f.model) {
			rc.Violate("phantom-record", sig, "fork %s %s: record #%d (len %d) was never appended", f.path, what, i, len(g))
			return false
		}
		if !bytes.Equal(g, f.model[i]) {
			rc.Violate("corrupted-record", sig, "fork %s %s: record #%d differs from what was appended (len %d vs %d)", f.path, what, i, len(g), len(f.model[i]))
			return false
		}
	}
	if len(got) < f.acked {
		rc.Violate("synced-record-lost", sig, "fork %s %s: %d records were synced, recovery returned %d (repaired=%v)", f.path, what, f.acked, len(got), repaired)
		return false
	}
	if len(got) < len(f.model) {
		rc.Probe("unsynced_records_dropped")
	}
	f.model = f.model[:len(got):len(got)]
	f.acked = len(got)
	// what is on disk now is what a further crash cannot take away
	segs := readSegs(f.dir, "w")
	if len(segs) > 0 {
		last := segs[len(segs)-1]
		f.floorIdx, f.floorLen = last.idx, int64(len(last.data))
	} else {
		f.floorIdx, f.floorLen = 0, 0
	}
	return true
}

// classify a cut position in the tail segment relative to the frames it contains.
func classifyCut(data []byte, cut int64) string {
	off := int64(0)
	first := true
	for off < int64(len(data)) {
		if int64(len(data))-off < 8 {
			break
		}
		plen := int64(binary.BigEndian.Uint32(data[off+4 : off+8]))
		end := off + 8 + plen
		pos := "mid"
		if first {
			pos = "segfirst"
		}
		switch {
		case cut == off:
			return "boundary"
		case cut < off+8:
			return fmt.Sprintf("header+%d/%s", cut-off, pos)
		case cut == off+8 && plen > 0:
			return "header-only/" + pos
		case cut < end:
			return "payload-partial/" + pos
		}
		off = end
		first = false
	}
	if cut >= off {
		return "boundary"
	}
	return "tail"
}

func (s *sim) cutsFor(tail seg, floor int64, nested bool) []int64 {
	size := int64(len(tail.data))
	span := size - floor
	budget := int64(700)
	if nested {
		budget = 24
	}
	if span+1 <= budget {
		cuts := make([]int64, 0, span+1)
		for c := floor; c <= size; c++ {
			cuts = append(cuts, c)
		}
		return cuts
	}
	// too many: every position within 9 bytes of a frame boundary, then an even sample
	set := map[int64]bool{floor: true, size: true, size - 1: true}
	off := int64(0)
	for off+8 <= size {
		plen := int64(binary.BigEndian.Uint32(tail.data[off+4 : off+8]))
		for d := int64(-1); d <= 9; d++ {
			if c := off + d; c >= floor && c <= size {
				set[c] = true
			}
		}
		off += 8 + plen
	}
	step := span / (budget / 2)
	if step < 1 {
		step = 1
	}
	for c := floor; c <= size; c += step {
		set[c] = true
	}
	cuts := make([]int64, 0, len(set))
	for c := range set {
		cuts = append(cuts, c)
	}
	sort.Slice(cuts, func(i, j int) bool { return cuts[i] < cuts[j] })
	if nested && int64(len(cuts)) > budget {
		// thin deterministically, keeping boundary-adjacent ones first in order
		k := int64(len(cuts)) / budget
		var thin []int64
		for i, c := range cuts {
			if int64(i)%(k+1) == 0 || c == size || c == floor {
				thin = append(thin, c)
			}
		}
		cuts = thin
	}
	s.rc.Probe("crash_prefixes_sampled_not_exhaustive")
	return cuts
}

func (s *sim) closeWriter(f *fork) {
	if f.w != nil {
		_ = f.w.Close()
		f.w = nil
	}
}

func (s *sim) run(f *fork, pos int, depth int) {
	rc := s.rc
	for ; pos < len(s.ops); pos++ {
		if rc.Failed() {
			s.closeWriter(f)
			return
		}
		o := s.ops[pos]
		rc.Steps++
		switch o.kind {
		case opAppend:
			if _, err := f.w.WriteBytes(o.payload); err != nil {
				rc.Violate("write-failed", "write", "fork %s: %v", f.path, err)
				break
			}
			f.model = append(f.model, o.payload)
			if depth == 0 {
				rc.Event("append #%d len=%d", len(f.model)-1, len(o.payload))
			}
		case opSync:
			if err := f.w.Sync(); err != nil {
				rc.Violate("sync-failed", "sync", "fork %s: %v", f.path, err)
				break
			}
			s.noteSynced(f)
			if depth == 0 {
				rc.Event("sync acked=%d", f.acked)
			}
		case opTick:
			before := len(readSegs(f.dir, "w"))
			for i := 0; i < o.ticks; i++ {
				time.Sleep(s.cfg.HousekeepingInterval)
				synctest.Wait()
			}
			after := len(readSegs(f.dir, "w"))
			if after > before {
				rc.Probe("segment_rotated")
			}
			if depth == 0 {
				rc.Event("tick x%d segments=%d", o.ticks, after)
			}
		case opShift:
			if sh, ok := f.w.(interface{ Shift() error }); ok {
				if err := sh.Shift(); err != nil {
					rc.Violate("shift-failed", "shift", "fork %s: %v", f.path, err)
					break
				}
				s.noteSynced(f)
				rc.Probe("segment_rotated")
				if depth == 0 {
					rc.Event("shift acked=%d", f.acked)
				}
			}
		case opReopen:
			if err := f.w.Close(); err != nil {
				rc.Violate("close-failed", "close", "fork %s: %v", f.path, err)
				break
			}
			f.w = nil
			s.noteSynced(f)
			want := len(f.model)
			if !s.recoverAndCheck(f, "clean reopen", "clean-reopen") {
				return
			}
			if len(f.model) != want {
				rc.Violate("synced-record-lost", "clean-reopen", "fork %s: clean close then reopen returned %d of %d records", f.path, len(f.model), want)
				return
			}
			if depth == 0 {
				rc.Event("close+reopen records=%d", want)
			}
			if !s.open(f) {
				return
			}
		case opCrash:
			s.crash(f, pos, depth)
			return // forks continued the history
		}
	}
	if rc.Failed() {
		s.closeWriter(f)
		return
	}
	// end of history: sync, close, final recovery must return everything
	if err := f.w.Close(); err != nil {
		rc.Violate("close-failed", "close", "fork %s: %v", f.path, err)
		return
	}
	f.w = nil
	s.noteSynced(f)
	want := len(f.model)
	if !s.recoverAndCheck(f, "final", "final-read") {
		return
	}
	if len(f.model) != want {
		rc.Violate("synced-record-lost", "final-read", "fork %s: final read returned %d of %d records", f.path, len(f.model), want)
	}
	rc.Metric("records_verified", int64(want))
}

func (s *sim) crash(f *fork, pos int, depth int) {
	rc := s.rc
	// freeze what has reached the OS; bytes still in the writer's buffer are lost
	segs := readSegs(f.dir, "w")
	model := f.model
	acked := f.acked
	floorIdx, floorLen := f.floorIdx, f.floorLen
	s.closeWriter(f) // stops the housekeeping goroutine; its final flush lands in the abandoned directory
	os.RemoveAll(f.dir)
	rc.Fault("crash")
	if len(segs) == 0 {
		return
	}
	tail := segs[len(segs)-1]
	floor := int64(0)
	if tail.idx == floorIdx {
		floor = floorLen
	}
	if floor > int64(len(tail.data)) {
		floor = int64(len(tail.data))
	}
	cuts := s.cutsFor(tail, floor, depth > 0)
	type variant struct {
		cut     int64
		missing bool
		junkAt  int64 // > 0: the file keeps its full length, but from this offset on (just behind the header of an unsynced record) the bytes are junk
	}
	var vs []variant
	for _, c := range cuts {
		vs = append(vs, variant{c, false, 0})
	}
	// Torn sectors (beyond the "prefix" crash model of the statement, but what a checksum is for and what C02
	// calls "torn records"): the header of an unsynced record reached the disk, its payload did not - what is
	// there instead is junk of the right length. First, last and one middle unsynced record.
	{
		var heads []int64
		off := int64(0)
		for off+8 <= int64(len(tail.data)) {
			plen := int64(binary.BigEndian.Uint32(tail.data[off+4 : off+8]))
			if off >= floor && plen > 0 && off+8+plen <= int64(len(tail.data)) {
				heads = append(heads, off)
			}
			off += 8 + plen
		}
		pick := map[int64]bool{}
		if n := len(heads); n > 0 {
			pick[heads[0]], pick[heads[n-1]], pick[heads[n/2]] = true, true, true
		}
		for _, h := range heads {
			if pick[h] {
				vs = append(vs, variant{int64(len(tail.data)), false, h + 8})
			}
		}
	}
	if floor == 0 && len(segs) > 1 {
		vs = append(vs, variant{0, true, 0}) // segment created after the last sync never reached the directory
	}
	if depth == 0 {
		rc.Event("crash segments=%d tail=%d floor=%d size=%d variants=%d", len(segs), tail.idx, floor, len(tail.data), len(vs))
	}
	for _, v := range vs {
		if rc.Failed() {
			return
		}
		if s.forks >= s.maxForks {
			rc.Probe("fork_cap_reached")
			return
		}
		s.forks++
		s.nForkDir++
		dir := filepath.Join(rc.Scratch, fmt.Sprintf("f%d", s.nForkDir))
		os.MkdirAll(dir, 0700)
		for i, sg := range segs {
			data := sg.data
			if i == len(segs)-1 {
				if v.missing {
					continue
				}
				data = data[:v.cut]
				if v.junkAt > 0 {
					data = append([]byte(nil), data...)
					x := uint64(v.junkAt)*0x9e3779b97f4a7c15 + uint64(rc.Seed)
					for k := v.junkAt; k < int64(len(data)); k++ {
						x = x*6364136223846793005 + 1442695040888963407
						data[k] = byte(x>>33) | 1
					}
				}
			}
			os.WriteFile(filepath.Join(dir, sg.name), data, 0600)
		}
		cls := "missing-new-segment"
		if v.junkAt > 0 {
			cls = "junk-payload"
			if len(segs) > 1 {
				cls += "/multiseg"
			}
		} else if !v.missing {
			cls = classifyCut(tail.data, v.cut)
			if len(segs) > 1 {
				cls += "/multiseg"
			}
		}
		rc.Fault("crash_image:" + strings.SplitN(cls, "/", 2)[0])
		nf := &fork{dir: dir, id: filepath.Join(dir, "w"), model: append([][]byte(nil), model...), acked: acked,
			path: fmt.Sprintf("%s/c%d@%d", f.path, pos, v.cut)}
		if v.missing {
			nf.path = fmt.Sprintf("%s/c%d@missing", f.path, pos)
		}
		if v.junkAt > 0 {
			nf.path = fmt.Sprintf("%s/c%d@junk%d", f.path, pos, v.junkAt)
		}
		rc.Metric("forks", 1)
		// recover, check, continue the same remaining history
		if !s.recoverAndCheck(nf, "after crash", "recover:"+cls) {
			os.RemoveAll(dir)
			return
		}
		if len(rc.Violations) == 0 {
			// tag later violations in this fork with the crash image class: the defect is in how this image was recovered
			before := len(rc.Violations)
			if s.open(nf) {
				s.run(nf, pos+1, depth+1)
			}
			if len(rc.Violations) > before {
				v0 := rc.Violations[before]
				v0.Signature = "after:" + cls + ";" + v0.Signature
				v0.Detail = fmt.Sprintf("%s [crash image %s of history position %d]", v0.Detail, cls, pos)
			}
		}
		os.RemoveAll(dir)
	}
}

func (e engine) Run(rc *kit.RunCtx) {
	s := &sim{rc: rc, maxForks: 1500}
	if rc.Tier == "thorough" {
		s.maxForks = 4096
	}
	s.generate()
	synctest.Test(e.t, func(t *testing.T) {
		dir := filepath.Join(rc.Scratch, "root")
		os.MkdirAll(dir, 0700)
		f := &fork{dir: dir, id: filepath.Join(dir, "w"), path: ""}
		if !s.open(f) {
			return
		}
		t0 := time.Now()
		s.run(f, 0, 0)
		rc.SimTime = time.Since(t0)
	})
	rc.Metric("histories", 1)
	rc.Nontrivial = rc.Faults["crash"] > 0 && rc.Metrics["forks"] > 0
}
