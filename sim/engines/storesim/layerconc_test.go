package storesim

import (
	"bytes"
	"fmt"
	"runtime"
	"runtime/debug"
	"sort"
	"strconv"
	"strings"
	"time"

	"github.com/anishathalye/porcupine"
	"github.com/icon-project/goloop/common/db"

	"verif/sim/kit"
)

// ---------------------------------------------------------------------------
// C19, concurrent variant: 2-3 client tasks share one LayerDB.
//
// Cooperative token scheduler: a task only proceeds when the driver releases
// it, and the driver (the only reader of the tape) releases exactly one task
// per step. Tasks park (a) before invoking each operation and (b) inside simdb
// on every access to the underlying store. layer_db.go holds a sync.Mutex
// across the underlying access, so a released task may block on a mutex held by
// a parked task: the driver detects that by goroutine-state introspection
// (runtime.Stack) and treats the task as waiting; it continues, unchosen, when
// the holder is released. Invoke/return events are logged by the driver at
// quiescence in task order and stamped with the global event sequence number;
// per-key histories go to porcupine with a register model.
// ---------------------------------------------------------------------------

type cOpKind int

const (
	coSet cOpKind = iota
	coDelete
	coGet
	coHas
	coCommit
	coDiscard
)

func (k cOpKind) String() string {
	return [...]string{"set", "delete", "get", "has", "commit", "discard"}[k]
}

type cOp struct {
	kind cOpKind
	b    db.BucketID
	k    string
	v    []byte
}

func (o cOp) String() string {
	switch o.kind {
	case coCommit, coDiscard:
		return o.kind.String()
	case coSet:
		return fmt.Sprintf("set %q/%s := %s", string(o.b), o.k, o.v)
	}
	return fmt.Sprintf("%s %q/%s", o.kind, string(o.b), o.k)
}

type cResult struct {
	val lval
	err error
}

type reportKind int

const (
	rpReady reportKind = iota
	rpReturned
	rpDBPark
	rpFinished
	rpPanic
)

type report struct {
	task   int
	kind   reportKind
	res    cResult
	access accessKind
	bucket db.BucketID
	key    string
	goid   int64
	stack  string
	pval   string
}

type taskState int

const (
	tsStarting taskState = iota
	tsIdle
	tsRunning
	tsDBParked
	tsDone
)

type ctask struct {
	id     int
	ops    []cOp
	next   int // index of the operation to invoke next
	state  taskState
	resume chan struct{}
	goid   int64
	// the access the task is parked in
	access      accessKind
	abk         db.BucketID
	akey        string
	lockBlocked bool
}

type histOp struct {
	task      int
	op        cOp
	call, ret int64
	res       cResult
}

type regIn struct {
	kind cOpKind
	val  lval // value written (set), base value (discard)
}

type conc struct {
	rc    *kit.RunCtx
	t     *kit.Tape
	store *simStore
	sdb   *simDB
	ldb   db.LayerDB

	tasks   []*ctask
	byGoid  map[int64]*ctask
	reports chan report
	aborted bool

	base     map[string]lval
	pending  map[int]*histOp
	hist     []*histOp
	stepRets []report

	firstWrite  int64
	lockBlocks  int
	failed      bool
	commitCalls []int64
	commitOK    bool
}

var concBuckets = []db.BucketID{db.BytesByHash, db.ChainProperty}
var concKeys = []string{"a", "b", "c"}

func curGoid() int64 {
	var buf [64]byte
	n := runtime.Stack(buf[:], false)
	// "goroutine 123 [running]:"
	f := strings.Fields(string(buf[:n]))
	if len(f) < 2 {
		return -1
	}
	id, _ := strconv.ParseInt(f[1], 10, 64)
	return id
}

// goroutineStates returns goroutine id -> wait state as printed by the runtime.
func goroutineStates() map[int64]string {
	buf := make([]byte, 1<<16)
	for {
		n := runtime.Stack(buf, true)
		if n < len(buf) {
			buf = buf[:n]
			break
		}
		buf = make([]byte, 2*len(buf))
	}
	st := map[int64]string{}
	for _, line := range strings.Split(string(buf), "\n") {
		if !strings.HasPrefix(line, "goroutine ") {
			continue
		}
		rest := line[len("goroutine "):]
		sp := strings.IndexByte(rest, ' ')
		if sp < 0 {
			continue
		}
		id, err := strconv.ParseInt(rest[:sp], 10, 64)
		if err != nil {
			continue
		}
		lb, rb := strings.IndexByte(rest, '['), strings.LastIndexByte(rest, ']')
		if lb < 0 || rb < lb {
			continue
		}
		s := rest[lb+1 : rb]
		if c := strings.IndexByte(s, ','); c >= 0 {
			s = s[:c]
		}
		st[id] = strings.TrimSpace(s)
	}
	return st
}

// durablyBlocked: wait states in which a task cannot proceed until another task acts.
func durablyBlocked(state string) bool {
	switch state {
	case "sync.Mutex.Lock", "sync.RWMutex.Lock", "sync.RWMutex.RLock", "semacquire", "sync.Cond.Wait", "chan receive", "chan send":
		return true
	}
	return false
}

func (c *conc) violate(class, sig, format string, args ...any) {
	c.failed = true
	c.rc.Violate(class, sig, format, args...)
}

// ---- task side

func (c *conc) taskMain(t *ctask) {
	defer func() {
		if p := recover(); p != nil {
			c.reports <- report{task: t.id, kind: rpPanic, stack: string(debug.Stack()), pval: fmt.Sprint(p)}
			return
		}
		c.reports <- report{task: t.id, kind: rpFinished}
	}()
	c.reports <- report{task: t.id, kind: rpReady, goid: curGoid()}
	for _, op := range t.ops {
		if _, ok := <-t.resume; !ok {
			return
		}
		res := c.exec(op)
		c.reports <- report{task: t.id, kind: rpReturned, res: res}
	}
}

func (c *conc) exec(op cOp) (res cResult) {
	switch op.kind {
	case coCommit:
		res.err = c.ldb.Flush(true)
		return
	case coDiscard:
		res.err = c.ldb.Flush(false)
		return
	}
	bk, err := c.ldb.GetBucket(op.b)
	if err != nil {
		res.err = err
		return
	}
	switch op.kind {
	case coSet:
		res.err = bk.Set([]byte(op.k), op.v)
	case coDelete:
		res.err = bk.Delete([]byte(op.k))
	case coGet:
		v, err := bk.Get([]byte(op.k))
		res.err = err
		res.val = lval{v != nil, string(v)}
	case coHas:
		h, err := bk.Has([]byte(op.k))
		res.err = err
		res.val = lval{present: h}
	}
	return
}

var errAborted = fmt.Errorf("storesim: run aborted")

// hook runs on the goroutine that accesses the underlying store.
func (c *conc) hook(kind accessKind, bucket db.BucketID, key []byte) error {
	t := c.byGoid[curGoid()]
	if t == nil {
		return nil // the driver's own accesses (prefill, final reads)
	}
	c.reports <- report{task: t.id, kind: rpDBPark, access: kind, bucket: bucket, key: string(key)}
	if _, ok := <-t.resume; !ok {
		return errAborted
	}
	return nil
}

// ---- driver side

func (c *conc) apply(r report) {
	t := c.tasks[r.task]
	switch r.kind {
	case rpReady:
		t.goid = r.goid
		t.state = tsIdle
	case rpReturned:
		t.state = tsIdle
		t.lockBlocked = false
		c.stepRets = append(c.stepRets, r)
	case rpDBPark:
		t.state = tsDBParked
		t.lockBlocked = false
		t.access, t.abk, t.akey = r.access, r.bucket, r.key
	case rpFinished:
		t.state = tsDone
	case rpPanic:
		t.state = tsDone
		if !c.aborted {
			c.failed = true
			c.rc.Violate("panic", kit.PanicSignature(r.stack), "panic in client task %d: %s", r.task, r.pval)
		}
	}
}

func (c *conc) drain() {
	for {
		select {
		case r := <-c.reports:
			c.apply(r)
		default:
			return
		}
	}
}

func (c *conc) inflight() []*ctask {
	var fl []*ctask
	for _, t := range c.tasks {
		if t.state == tsRunning || t.state == tsStarting {
			fl = append(fl, t)
		}
	}
	return fl
}

// quiesce returns when every task is parked in the harness, finished, or
// blocked on a lock held by a parked task.
func (c *conc) quiesce() {
	for spins := 0; ; spins++ {
		c.drain()
		fl := c.inflight()
		if len(fl) == 0 {
			return
		}
		runtime.Gosched()
		c.drain()
		fl = c.inflight()
		if len(fl) == 0 {
			return
		}
		st := goroutineStates()
		all := true
		for _, t := range fl {
			if t.state == tsStarting || !durablyBlocked(st[t.goid]) {
				all = false
				break
			}
		}
		if !all {
			continue
		}
		// a task that reported and then blocked on its resume channel also looks blocked: re-drain
		c.drain()
		fl = c.inflight()
		still := true
		for _, t := range fl {
			if !durablyBlocked(st[t.goid]) {
				still = false
			}
		}
		if !still {
			continue
		}
		for _, t := range fl {
			if !t.lockBlocked {
				t.lockBlocked = true
				c.lockBlocks++
			}
		}
		return
	}
}

// flushStep logs what happened since the last step, in task order.
func (c *conc) flushStep() {
	sort.SliceStable(c.stepRets, func(i, j int) bool { return c.stepRets[i].task < c.stepRets[j].task })
	for _, r := range c.stepRets {
		h := c.pending[r.task]
		delete(c.pending, r.task)
		h.res = r.res
		c.rc.Event("t%d return %s -> %v err=%v", r.task, h.op.kind, r.res.val, r.res.err != nil)
		h.ret = c.rc.EventSeq()
		c.hist = append(c.hist, h)
		if h.op.kind == coCommit && r.res.err == nil {
			c.commitOK = true
		}
	}
	c.stepRets = c.stepRets[:0]
	// parked / blocked tasks, in task order
	for _, t := range c.tasks {
		if t.state == tsDBParked {
			c.rc.Event("t%d parked in underlying %s %q/%s", t.id, t.access, string(t.abk), t.akey)
		} else if t.state == tsRunning && t.lockBlocked {
			c.rc.Event("t%d waits for a lock", t.id)
		}
	}
}

func (c *conc) shutdown() {
	c.aborted = true
	for _, t := range c.tasks {
		close(t.resume)
	}
	for {
		c.drain()
		done := true
		for _, t := range c.tasks {
			if t.state != tsDone {
				done = false
			}
		}
		if done {
			return
		}
		runtime.Gosched()
	}
}

var registerModel = porcupine.Model{
	Init: func() interface{} { return lval{} },
	Step: func(state, input, output interface{}) (bool, interface{}) {
		st, in, out := state.(lval), input.(regIn), output.(lval)
		switch in.kind {
		case coSet, coDiscard:
			return true, in.val
		case coDelete:
			return true, lval{}
		case coGet:
			return out == st, st
		case coHas:
			return out.present == st.present, st
		}
		return false, st
	},
}

func runLayerConcurrent(rc *kit.RunCtx) {
	c := &conc{rc: rc, t: rc.Tape, store: newSimStore(), byGoid: map[int64]*ctask{}, reports: make(chan report, 64),
		base: map[string]lval{}, pending: map[int]*histOp{}}
	c.sdb = c.store.open()
	t := c.t
	// underlying base contents
	for _, b := range concBuckets {
		for _, k := range concKeys {
			if t.Choose("base", 2) == 1 {
				v := fmt.Sprintf("base-%s%s", string(b), k)
				bk, _ := c.sdb.GetBucket(b)
				bk.Set([]byte(k), []byte(v))
				c.base[lk(b, k)] = lval{true, v}
			}
		}
	}
	baseJournal := len(c.store.journal)
	c.ldb = db.NewLayerDB(c.sdb)
	ntasks := 2 + t.Choose("ntasks", 2)
	maxOps := 10
	if rc.Tier == "thorough" {
		maxOps = 12
	}
	nkeys := 1 + t.Choose("nkeys", len(concKeys)) // fewer keys = more contention
	for i := 0; i < ntasks; i++ {
		ct := &ctask{id: i, resume: make(chan struct{}, 1), state: tsStarting}
		n := t.Range("task.nops", 2, maxOps)
		for j := 0; j < n; j++ {
			var op cOp
			op.kind = cOpKind(t.Weighted("cop", 32, 14, 26, 10, 4, 5))
			if op.kind != coCommit && op.kind != coDiscard {
				op.b = concBuckets[t.Choose("cbucket", len(concBuckets))]
				op.k = concKeys[t.Choose("ckey", nkeys)]
				if op.kind == coSet {
					op.v = []byte(fmt.Sprintf("t%d.%d", i, j))
				}
			}
			ct.ops = append(ct.ops, op)
		}
		c.tasks = append(c.tasks, ct)
	}
	rc.Config["tasks"] = ntasks
	rc.Config["keys"] = nkeys * len(concBuckets)
	for _, ct := range c.tasks {
		var sb []string
		for _, o := range ct.ops {
			sb = append(sb, o.String())
		}
		rc.Event("t%d script: %s", ct.id, strings.Join(sb, "; "))
	}
	// start tasks, learn their goroutine ids, then install the parking hook
	for _, ct := range c.tasks {
		go c.taskMain(ct)
	}
	c.quiesce()
	for _, ct := range c.tasks {
		c.byGoid[ct.goid] = ct
	}
	c.store.hook = c.hook
	c.store.openHook = func(b db.BucketID) error { return c.hook(kOpen, b, nil) }

	steps := 0
	for !c.failed {
		var cands []*ctask
		for _, ct := range c.tasks {
			if (ct.state == tsIdle && ct.next < len(ct.ops)) || ct.state == tsDBParked {
				cands = append(cands, ct)
			}
		}
		if len(cands) == 0 {
			if fl := c.inflight(); len(fl) > 0 {
				c.violate("layer-deadlock", "concurrent", "%d client task(s) blocked on a lock and no task can be released", len(fl))
			}
			break
		}
		ct := cands[t.Choose("sched", len(cands))]
		steps++
		rc.Steps++
		if ct.state == tsIdle {
			op := ct.ops[ct.next]
			ct.next++
			rc.Event("t%d invoke %s", ct.id, op)
			c.pending[ct.id] = &histOp{task: ct.id, op: op, call: rc.EventSeq()}
			if op.kind == coCommit {
				c.commitCalls = append(c.commitCalls, rc.EventSeq())
			}
		} else {
			rc.Event("t%d continues underlying %s %q/%s", ct.id, ct.access, string(ct.abk), ct.akey)
			if ct.access.isWrite() && c.firstWrite == 0 {
				c.firstWrite = rc.EventSeq()
			}
		}
		ct.state = tsRunning
		ct.resume <- struct{}{}
		c.quiesce()
		c.flushStep()
	}
	c.store.hook = nil
	c.store.openHook = nil
	c.shutdown()
	if c.failed {
		return
	}
	rc.Metric("sched_steps", int64(steps))
	rc.Metric("lock_waits", int64(c.lockBlocks))
	if c.lockBlocks > 0 {
		rc.Probe("task_blocked_on_lock_of_parked_task")
	}

	// ---- oracle 1: no unexpected errors
	discards, commits := 0, 0
	for _, h := range c.hist {
		if h.res.err == nil {
			if h.op.kind == coDiscard {
				discards++
			}
			if h.op.kind == coCommit {
				commits++
			}
			continue
		}
		if h.op.kind == coDiscard {
			// refused discard is legitimate only once a commit has been invoked
			ok := false
			for _, cc := range c.commitCalls {
				if cc < h.ret {
					ok = true
				}
			}
			if ok {
				rc.Probe("discard_refused_after_commit")
				continue
			}
		}
		c.violate("layer-unexpected-error", "concurrent/"+h.op.kind.String(), "t%d %s failed without any injected fault: %v", h.task, h.op, h.res.err)
		return
	}
	// ---- oracle 2: nothing reaches the underlying store before a commit is invoked
	if len(c.store.journal) > baseJournal {
		ok := false
		for _, cc := range c.commitCalls {
			if cc < c.firstWrite {
				ok = true
			}
		}
		if !ok {
			c.violate("layer-write-before-commit", "concurrent", "the underlying store was written (event %d) before any commit was invoked", c.firstWrite)
			return
		}
	}
	// ---- final sequential reads through the layer and of the underlying store
	rc.Event("final reads")
	finalView := map[string]lval{}
	for _, b := range concBuckets {
		for _, k := range concKeys {
			call := rc.EventSeq() + 1
			rc.Event("final get %q/%s", string(b), k)
			res := c.exec(cOp{kind: coGet, b: b, k: k})
			if res.err != nil {
				c.violate("layer-unexpected-error", "concurrent/final", "final read: %v", res.err)
				return
			}
			rc.Event("  -> %v", res.val)
			c.hist = append(c.hist, &histOp{task: ntasks, op: cOp{kind: coGet, b: b, k: k}, call: call, ret: rc.EventSeq(), res: res})
			finalView[lk(b, k)] = res.val
			ubk, _ := c.sdb.GetBucket(b)
			uv, _ := ubk.Get([]byte(k))
			under := lval{uv != nil, string(uv)}
			switch {
			case c.commitOK && under != res.val:
				c.violate("layer-underlying-mismatch", "concurrent/after-commit", "after a successful commit the underlying store holds %v at %q/%s but the layered view is %v", under, string(b), k, res.val)
				return
			case len(c.commitCalls) == 0 && under != c.base[lk(b, k)]:
				c.violate("layer-underlying-mismatch", "concurrent/no-commit", "no commit was invoked but the underlying store holds %v at %q/%s (was %v)", under, string(b), k, c.base[lk(b, k)])
				return
			}
		}
	}
	// ---- oracle 3: per-key linearizability against a register
	perKey := map[string][]porcupine.Operation{}
	for key, bv := range c.base {
		perKey[key] = append(perKey[key], porcupine.Operation{ClientId: ntasks + 1, Input: regIn{kind: coSet, val: bv}, Call: -2, Output: lval{}, Return: -1})
	}
	concurrentOps := 0
	for _, h := range c.hist {
		switch h.op.kind {
		case coCommit:
			continue
		case coDiscard:
			if h.res.err != nil {
				continue
			}
			for _, b := range concBuckets {
				for _, k := range concKeys {
					key := lk(b, k)
					perKey[key] = append(perKey[key], porcupine.Operation{ClientId: h.task, Input: regIn{kind: coDiscard, val: c.base[key]}, Call: h.call, Output: lval{}, Return: h.ret})
				}
			}
			continue
		}
		key := lk(h.op.b, h.op.k)
		in := regIn{kind: h.op.kind}
		if h.op.kind == coSet {
			in.val = lval{true, string(h.op.v)}
		}
		perKey[key] = append(perKey[key], porcupine.Operation{ClientId: h.task, Input: in, Call: h.call, Output: h.res.val, Return: h.ret})
	}
	// overlapping operations (for the non-triviality rule)
	for i, a := range c.hist {
		for _, b := range c.hist[i+1:] {
			if a.task != b.task && a.call < b.ret && b.call < a.ret {
				concurrentOps++
			}
		}
	}
	keys := make([]string, 0, len(perKey))
	for k := range perKey {
		keys = append(keys, k)
	}
	sort.Strings(keys)
	unknown := 0
	for _, key := range keys {
		ops := perKey[key]
		switch porcupine.CheckOperationsTimeout(registerModel, ops, 10*time.Second) {
		case porcupine.Illegal:
			var sb bytes.Buffer
			for _, o := range ops {
				in := o.Input.(regIn)
				fmt.Fprintf(&sb, "[c%d %d..%d %s %v -> %v] ", o.ClientId, o.Call, o.Return, in.kind, in.val, o.Output)
			}
			c.violate("layer-not-linearizable", "concurrent/register", "history of key %s is not linearizable as a register: %s", hxs(key), sb.String())
			return
		case porcupine.Unknown:
			unknown++
		}
	}
	rc.Metric("porcupine_unknown", int64(unknown))
	rc.Metric("porcupine_keys_checked", int64(len(keys)))
	rc.Metric("overlapping_op_pairs", int64(concurrentOps))
	if concurrentOps > 0 {
		rc.Probe("overlapping_operations")
	}
	if commits > 0 {
		rc.Probe("concurrent_commit")
	}
	if discards > 0 {
		rc.Probe("concurrent_discard")
	}
	rc.Nontrivial = len(c.hist) >= 6 && concurrentOps > 0
}
