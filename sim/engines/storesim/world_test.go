package storesim

import (
	"bytes"
	"fmt"
	"golang.org/x/crypto/sha3"
	"math/big"
	"sort"
	"strings"

	"github.com/icon-project/goloop/common"
	"github.com/icon-project/goloop/common/crypto"
	"github.com/icon-project/goloop/common/db"
	"github.com/icon-project/goloop/module"
	"github.com/icon-project/goloop/service/state"

	"verif/sim/kit"
)

// ---------------------------------------------------------------------------
// C14: world-state snapshots are isolated, the state hash is canonical.
//
// Reference model: a small array of account records (balance, storage map,
// contract flag + owner, blocked/disabled flags), copied by value whenever a
// snapshot is taken. State-hash oracle: a world state built from scratch on a
// private plain MapDB from the reference contents in a fixed order, containing
// only the non-empty accounts.
//
// The event log deliberately contains no DB access counts: worldstate.go walks
// its account cache in Go map order, so the *sequence* of trie/DB operations is
// not a function of the tape (the results must be — that is the property).
// ---------------------------------------------------------------------------

const nAcc = 4

type acct struct {
	bal      int64
	store    map[string]string // copy-on-write
	contract bool
	owner    int // index into owners, -1 = none
	blocked  bool
	disabled bool
	// contract life cycle (only on contract accounts); values, not pointers: acct is copied around freely
	cur, next cmodel
	graph     string // object graph of the current code ("" = none)
	graphNext int
}

// cmodel is the reference view of one deployed code version of a contract account.
type cmodel struct {
	present bool
	code    string
	status  int // state.CSPending / CSActive / CSRejected as int
	deploy  string
	audit   string
}

func (c cmodel) String() string {
	if !c.present {
		return "-"
	}
	return fmt.Sprintf("(code=%s st=%d tx=%s audit=%s)", hx([]byte(c.code)), c.status, hx([]byte(c.deploy)), hx([]byte(c.audit)))
}

func (a acct) empty() bool {
	return a.bal == 0 && len(a.store) == 0 && !a.contract && !a.blocked && !a.disabled
}

func (a acct) String() string {
	ks := make([]string, 0, len(a.store))
	for k := range a.store {
		ks = append(ks, k)
	}
	sort.Strings(ks)
	var sb strings.Builder
	for _, k := range ks {
		fmt.Fprintf(&sb, " %s=%s", hxs(k), hx([]byte(a.store[k])))
	}
	return fmt.Sprintf("{bal=%d contract=%v owner=%d blocked=%v disabled=%v cur=%v next=%v graph=%s/%d store:%s}", a.bal, a.contract, a.owner, a.blocked, a.disabled, a.cur, a.next, hx([]byte(a.graph)), a.graphNext, sb.String())
}

type world [nAcc]acct

func newWorld() world {
	var w world
	for i := range w {
		w[i].owner = -1
	}
	return w
}

type worldSnapRec struct {
	id      int
	s       state.WorldSnapshot
	model   world
	hash    []byte
	hashed  bool
	flushed bool
	agedBy  int
}

type heldAcct struct {
	idx    int
	as     state.AccountSnapshot
	want   acct
	agedBy int
}

type worldSim struct {
	rc     *kit.RunCtx
	t      *kit.Tape
	faults bool

	store *simStore
	db    *simDB
	ws    state.WorldState
	model world

	ids     [nAcc][]byte
	owners  []module.Address
	handles [nAcc]state.AccountState

	snaps []*worldSnapRec
	nsnap int
	held  []*heldAcct

	haveFlushed  bool
	flushedHash  []byte
	flushedModel world

	vcount                int
	mutations, fullChecks int
	failed                bool
	lastMut               string
	txSeq                 int
}

var storageKeys = []string{"\x01", "\x01\x02", "\x01\x03", "\x10", "\xab\xcd\xef", "\x01\x02\x03"}
var balances = []int64{0, 1, 7, 1000000, 1 << 62}

// chooseIDs picks four account ids whose trie keys share prefixes (so the
// account trie has an extension and nested branches, not just a flat root).
func chooseIDs() (ids [nAcc][]byte) {
	mk := func(c int) []byte {
		b := make([]byte, 20)
		b[18], b[19] = byte(c>>8), byte(c)
		return common.NewAccountAddress(b).ID()
	}
	key := func(id []byte) []byte { return crypto.SHA3Sum256(id) }
	ids[0] = mk(1)
	k0 := key(ids[0])
	c := 2
	for ; ; c++ { // same first byte as account 0
		if k := key(mk(c)); k[0] == k0[0] {
			ids[1] = mk(c)
			break
		}
	}
	for c++; ; c++ { // same first nibble, different second nibble
		if k := key(mk(c)); k[0]>>4 == k0[0]>>4 && k[0] != k0[0] {
			ids[2] = mk(c)
			break
		}
	}
	for c++; ; c++ { // different first nibble
		if k := key(mk(c)); k[0]>>4 != k0[0]>>4 {
			ids[3] = mk(c)
			break
		}
	}
	return
}

var worldIDs = chooseIDs()

func (s *worldSim) violate(class, sig, format string, args ...any) {
	s.failed = true
	s.rc.Violate(class, sig, format, args...)
}

// ---- canonical rebuild

func applyAcct(as state.AccountState, a acct, owners []module.Address) {
	if a.bal != 0 {
		as.SetBalance(big.NewInt(a.bal))
	}
	if a.contract {
		var o module.Address
		if a.owner >= 0 {
			o = owners[a.owner]
		}
		as.InitContractAccount(o)
	}
	if a.blocked {
		as.SetBlock(true)
	}
	if a.disabled {
		as.SetDisable(true)
	}
	if a.cur.present {
		if _, err := as.DeployContract([]byte(a.cur.code), state.JavaEE, "application/java", nil, []byte(a.cur.deploy)); err != nil {
			panic(fmt.Sprintf("canonical rebuild: %v", err))
		}
		if err := as.AcceptContract([]byte(a.cur.deploy), []byte(a.cur.audit)); err != nil {
			panic(fmt.Sprintf("canonical rebuild: %v", err))
		}
		if a.graph != "" {
			if err := as.SetObjGraph(as.Contract().CodeID(), true, a.graphNext, []byte(a.graph)); err != nil {
				panic(fmt.Sprintf("canonical rebuild: %v", err))
			}
		}
	}
	if a.next.present {
		if _, err := as.DeployContract([]byte(a.next.code), state.JavaEE, "application/java", nil, []byte(a.next.deploy)); err != nil {
			panic(fmt.Sprintf("canonical rebuild: %v", err))
		}
		if a.next.status == int(state.CSRejected) {
			if err := as.RejectContract([]byte(a.next.deploy), []byte(a.next.audit)); err != nil {
				panic(fmt.Sprintf("canonical rebuild: %v", err))
			}
		}
		if a.next.status == int(state.CSActive) {
			if err := as.ActivateNextContract(); err != nil {
				panic(fmt.Sprintf("canonical rebuild: %v", err))
			}
		}
	}
	ks := make([]string, 0, len(a.store))
	for k := range a.store {
		ks = append(ks, k)
	}
	sort.Strings(ks)
	for _, k := range ks {
		if _, err := as.SetValue([]byte(k), []byte(a.store[k])); err != nil {
			panic(fmt.Sprintf("canonical rebuild: %v", err))
		}
	}
}

func (s *worldSim) canonicalStateHash(w world) []byte {
	ws := state.NewWorldState(db.NewMapDB(), nil, nil, nil, nil)
	for i, a := range w {
		if a.empty() {
			continue // never touched in the canonical history
		}
		applyAcct(ws.GetAccountState(s.ids[i]), a, s.owners)
	}
	return ws.GetSnapshot().StateHash()
}

// ---- observation of one account through the AccountData getters

func (s *worldSim) observe(where string, idx int, ad state.AccountData, want acct, faultyReads bool) bool {
	if ad == nil || isNilAccount(ad) {
		if !want.empty() {
			s.violate("world-account-mismatch", where, "%s: account %d is absent, reference has %v (last mutation: %s)", where, idx, want, s.lastMut)
			return false
		}
		return true
	}
	bad := func(what string, got, exp any) bool {
		s.violate("world-account-mismatch", where, "%s: account %d %s = %v, reference %v; reference account %v (last mutation: %s)", where, idx, what, got, exp, want, s.lastMut)
		return false
	}
	if b := ad.GetBalance(); b == nil || b.Cmp(big.NewInt(want.bal)) != 0 {
		return bad("balance", b, want.bal)
	}
	if ad.IsContract() != want.contract {
		return bad("IsContract", ad.IsContract(), want.contract)
	}
	if ad.IsBlocked() != want.blocked {
		return bad("IsBlocked", ad.IsBlocked(), want.blocked)
	}
	if ad.IsDisabled() != want.disabled {
		return bad("IsDisabled", ad.IsDisabled(), want.disabled)
	}
	var wo module.Address
	if want.contract && want.owner >= 0 {
		wo = s.owners[want.owner]
	}
	if go_ := ad.ContractOwner(); !common.AddressEqual(go_, wo) {
		return bad("ContractOwner", go_, wo)
	}
	// contract life cycle as seen through this view (snapshot or mutable state)
	type cview interface {
		CodeHash() []byte
		Status() state.ContractStatus
		DeployTxHash() []byte
		AuditTxHash() []byte
	}
	var gc, gn cview
	switch v := ad.(type) {
	case state.AccountSnapshot:
		if c := v.Contract(); c != nil {
			gc = c
		}
		if c := v.NextContract(); c != nil {
			gn = c
		}
	case state.AccountState:
		if c := v.Contract(); c != nil {
			gc = c
		}
		if c := v.NextContract(); c != nil {
			gn = c
		}
	}
	for _, pr := range []struct {
		name string
		got  cview
		exp  cmodel
	}{{"Contract()", gc, want.cur}, {"NextContract()", gn, want.next}} {
		if (pr.got != nil) != pr.exp.present {
			return bad(pr.name+" present", pr.got != nil, pr.exp.present)
		}
		if pr.got == nil {
			continue
		}
		h := sha3.Sum256([]byte(pr.exp.code))
		switch {
		case !bytes.Equal(pr.got.CodeHash(), h[:]):
			return bad(pr.name+".CodeHash", hx(pr.got.CodeHash()), hx(h[:]))
		case int(pr.got.Status()) != pr.exp.status:
			return bad(pr.name+".Status", pr.got.Status(), pr.exp.status)
		case string(pr.got.DeployTxHash()) != pr.exp.deploy:
			return bad(pr.name+".DeployTxHash", hx(pr.got.DeployTxHash()), hx([]byte(pr.exp.deploy)))
		case string(pr.got.AuditTxHash()) != pr.exp.audit:
			return bad(pr.name+".AuditTxHash", hx(pr.got.AuditTxHash()), hx([]byte(pr.exp.audit)))
		}
	}
	if want.cur.present && !faultyReads {
		nh, _, g, err := ad.GetObjGraph([]byte(want.cur.deploy), true) // the code id of a deployed contract is its deploy transaction
		if want.graph == "" {
			if err == nil && len(g) > 0 {
				return bad("GetObjGraph", hx(g), "none")
			}
		} else if err != nil || string(g) != want.graph || nh != want.graphNext {
			return bad("GetObjGraph", fmt.Sprintf("%s/%d err=%v", hx(g), nh, err), fmt.Sprintf("%s/%d", hx([]byte(want.graph)), want.graphNext))
		}
	}
	for _, k := range storageKeys {
		inject := faultyReads && s.t.Permille("read.fault", 300)
		if inject {
			s.store.arm(faultPlan{failAll: true})
		}
		v, err := ad.GetValue([]byte(k))
		fired := inject && s.store.getErrs > 0
		if inject {
			if fired {
				s.rc.Fault("db_get_error")
			}
			s.store.disarm()
		}
		if err != nil {
			if fired {
				s.rc.Probe("error_surfaced_after_injection")
				continue
			}
			s.violate("world-unexpected-error", where, "%s: account %d GetValue(%s): %v", where, idx, hxs(k), err)
			return false
		}
		if exp, ok := want.store[k]; string(v) != exp || (v != nil) != ok {
			return bad("GetValue("+hxs(k)+")", hx(v), hx([]byte(exp)))
		}
	}
	if _, isState := ad.(state.AccountState); !isState {
		// IsEmpty is exact on snapshots (a mutable account keeps an empty store object)
		if ad.IsEmpty() != want.empty() {
			return bad("IsEmpty", ad.IsEmpty(), want.empty())
		}
	}
	return true
}

func isNilAccount(ad state.AccountData) bool {
	if as, ok := ad.(state.AccountSnapshot); ok {
		return as == nil
	}
	return false
}

func (s *worldSim) order(label string) []int {
	return s.t.Perm(label, nAcc)
}

func (s *worldSim) checkWorldSnap(where string, wss state.WorldSnapshot, model world, rec *worldSnapRec, faultyReads bool) {
	s.fullChecks++
	viaRO := s.t.Permille("check.readonly", 250)
	var ro state.WorldState
	if viaRO {
		ro = state.NewReadOnlyWorldState(wss)
		s.rc.Probe("read_through_readonly_worldstate")
	}
	for _, i := range s.order("check.order") {
		var ad state.AccountData
		if viaRO {
			ad = ro.GetAccountState(s.ids[i])
		} else {
			as := wss.GetAccountSnapshot(s.ids[i])
			if as == nil {
				ad = nil
			} else {
				ad = as
			}
		}
		if !s.observe(where, i, ad, model[i], faultyReads) {
			return
		}
	}
	h := wss.StateHash()
	canon := s.canonicalStateHash(model)
	if !bytes.Equal(h, canon) {
		s.violate("world-statehash-not-canonical", where, "%s: StateHash %s differs from %s, the hash of a world state built from scratch with the same logical contents %v (last mutation: %s)", where, hx(h), hx(canon), model, s.lastMut)
		return
	}
	if rec != nil {
		if rec.hashed && !bytes.Equal(rec.hash, h) {
			s.violate("world-snapshot-changed", where, "%s: snapshot #%d StateHash was %s, now %s", where, rec.id, hx(rec.hash), hx(h))
			return
		}
		rec.hash, rec.hashed = h, true
		if rec.agedBy > 0 {
			s.rc.Probe("snapshot_compared_after_later_mutation")
		}
	}
	nonEmpty := 0
	for _, a := range model {
		if !a.empty() {
			nonEmpty++
		}
	}
	if nonEmpty >= 2 {
		s.rc.Probe("full_check_nonempty")
	}
}

func (s *worldSim) checkMutable(where string) {
	for _, i := range s.order("check.order") {
		as := s.ws.GetAccountSnapshot(s.ids[i])
		var ad state.AccountData
		if as != nil {
			ad = as
		}
		if !s.observe(where, i, ad, s.model[i], false) {
			return
		}
	}
}

// ---- operations

func (s *worldSim) handle(i int) state.AccountState {
	if h := s.handles[i]; h != nil && s.t.Permille("handle.reuse", 500) {
		s.rc.Probe("account_handle_reused")
		return h
	}
	h := s.ws.GetAccountState(s.ids[i])
	s.handles[i] = h
	return h
}

func (s *worldSim) dropHandles() { s.handles = [nAcc]state.AccountState{} }

func (s *worldSim) mutated(i int, what string, before acct) {
	s.mutations++
	s.lastMut = what
	for _, r := range s.snaps {
		r.agedBy++
	}
	for _, h := range s.held {
		h.agedBy++
	}
	if !before.empty() && s.model[i].empty() {
		s.rc.Probe("account_emptied_again")
	}
}

func (s *worldSim) pickAcct() int { return s.t.Choose("acct", nAcc) }

func (s *worldSim) opBalance() {
	i := s.pickAcct()
	v := balances[s.t.Choose("bal", len(balances))]
	before := s.model[i]
	s.handle(i).SetBalance(big.NewInt(v))
	s.model[i].bal = v
	s.rc.Event("acct %d balance := %d", i, v)
	s.mutated(i, "balance", before)
}

func (s *worldSim) opSetValue() {
	i := s.pickAcct()
	k := storageKeys[s.t.Choose("skey", len(storageKeys))]
	var v []byte
	if s.t.Permille("sval.empty", 60) {
		v = []byte{} // SetValue with an empty value is a delete
		s.rc.Probe("set_empty_value")
	} else {
		s.vcount++
		n := []int{1, 2, 20, 33, 40}[s.t.Choose("sval.size", 5)]
		v = make([]byte, n)
		for j := range v {
			v[j] = byte(s.vcount) + byte(j)*3 + 1
		}
	}
	before := s.model[i]
	old, err := s.handle(i).SetValue([]byte(k), v)
	s.rc.Event("acct %d store[%s] := %s -> old=%s err=%v", i, hxs(k), hx(v), hx(old), err != nil)
	if err != nil {
		s.violate("world-unexpected-error", "account/set-value", "SetValue: %v", err)
		return
	}
	if exp, ok := before.store[k]; string(old) != exp || (old != nil) != ok {
		s.violate("world-account-mismatch", "account/set-value", "account %d SetValue(%s) returned old %s, reference had %s", i, hxs(k), hx(old), hx([]byte(exp)))
		return
	}
	st := make(map[string]string, len(before.store)+1)
	for kk, vv := range before.store {
		st[kk] = vv
	}
	if len(v) == 0 {
		delete(st, k)
	} else {
		st[k] = string(v)
	}
	s.model[i].store = st
	if _, had := before.store[k]; len(v) > 0 || had {
		s.mutated(i, "set-value", before)
	}
}

func (s *worldSim) opDeleteValue() {
	i := s.pickAcct()
	k := storageKeys[s.t.Choose("skey", len(storageKeys))]
	before := s.model[i]
	if len(before.store) > 0 && s.t.Permille("skey.existing", 700) {
		ks := make([]string, 0, len(before.store))
		for kk := range before.store {
			ks = append(ks, kk)
		}
		sort.Strings(ks)
		k = ks[s.t.Choose("skey.idx", len(ks))]
	}
	old, err := s.handle(i).DeleteValue([]byte(k))
	s.rc.Event("acct %d delete store[%s] -> old=%s err=%v", i, hxs(k), hx(old), err != nil)
	if err != nil {
		s.violate("world-unexpected-error", "account/delete-value", "DeleteValue: %v", err)
		return
	}
	if exp, ok := before.store[k]; string(old) != exp || (old != nil) != ok {
		s.violate("world-account-mismatch", "account/delete-value", "account %d DeleteValue(%s) returned old %s, reference had %s", i, hxs(k), hx(old), hx([]byte(exp)))
		return
	}
	if _, ok := before.store[k]; ok {
		st := make(map[string]string, len(before.store))
		for kk, vv := range before.store {
			if kk != k {
				st[kk] = vv
			}
		}
		s.model[i].store = st
		if len(st) == 0 {
			s.rc.Probe("storage_emptied")
		}
		s.mutated(i, "delete-value", before)
	}
}

func (s *worldSim) opContract() {
	i := s.pickAcct()
	o := s.t.Choose("owner", len(s.owners))
	before := s.model[i]
	h := s.handle(i)
	if !before.contract {
		ok := h.InitContractAccount(s.owners[o])
		s.rc.Event("acct %d init contract owner=%d -> %v", i, o, ok)
		if !ok {
			s.violate("world-account-mismatch", "account/init-contract", "InitContractAccount on a non-contract account returned false")
			return
		}
		s.model[i].contract, s.model[i].owner = true, o
		s.mutated(i, "init-contract", before)
		return
	}
	err := h.SetContractOwner(s.owners[o])
	s.rc.Event("acct %d set owner=%d -> err=%v", i, o, err != nil)
	if err != nil {
		s.violate("world-unexpected-error", "account/set-owner", "SetContractOwner on a contract: %v", err)
		return
	}
	s.model[i].owner = o
	s.mutated(i, "set-owner", before)
}

// opDeploy / opAudit / opObjGraph: the contract life cycle of a contract account (deploy a next code
// version, accept or reject it by its deploy transaction, attach an object graph to the current code).
func (s *worldSim) opDeploy() {
	i := s.pickWhere("deploy", func(a acct) bool { return a.contract })
	before := s.model[i]
	h := s.handle(i)
	s.txSeq++
	code := []string{"code-A", "code-B", "code-C-longer-than-the-others"}[s.t.Choose("deploy.code", 3)]
	tx := fmt.Sprintf("deploytx-%04d", s.txSeq)
	old, err := h.DeployContract([]byte(code), state.JavaEE, "application/java", nil, []byte(tx))
	s.rc.Event("acct %d deploy %s tx=%s -> old=%s err=%v", i, code, tx, hx(old), err != nil)
	if !before.contract {
		if err != nil || old != nil {
			s.violate("world-account-mismatch", "account/deploy-on-eoa", "DeployContract on a non-contract account: old=%x err=%v", old, err)
		}
		return
	}
	if before.next.present && before.next.status == int(state.CSActive) {
		// a next version that is being activated (between ActivateNextContract and the audit) cannot be replaced
		if err == nil {
			s.violate("world-account-mismatch", "account/deploy-over-active-next", "DeployContract replaced a next contract that is being activated")
			return
		}
		s.checkMutable("after-refused-deploy")
		return
	}
	if err != nil {
		s.violate("world-unexpected-error", "account/deploy", "DeployContract: %v", err)
		return
	}
	if before.next.present != (old != nil) || (old != nil && string(old) != before.next.deploy) {
		s.violate("world-account-mismatch", "account/deploy-old-tx", "DeployContract returned previous deploy tx %x, reference %v", old, before.next)
		return
	}
	s.model[i].next = cmodel{present: true, code: code, status: int(state.CSPending), deploy: tx}
	s.rc.Probe("contract_deployed")
	s.mutated(i, "deploy", before)
}

// pickWhere prefers an account satisfying pred (3 times out of 4 when one exists).
func (s *worldSim) pickWhere(label string, pred func(a acct) bool) int {
	var c []int
	for i, a := range s.model {
		if pred(a) {
			c = append(c, i)
		}
	}
	if len(c) > 0 && s.t.Permille(label+".prefer", 750) {
		return c[s.t.Choose(label+".which", len(c))]
	}
	return s.pickAcct()
}

// opActivate: the deploy handler activates the pending next version before it runs its on-install /
// on-update call; the audit (AcceptContract) follows later, possibly with snapshots in between.
func (s *worldSim) opActivate() {
	i := s.pickWhere("activate", func(a acct) bool { return a.next.present && a.next.status == int(state.CSPending) })
	before := s.model[i]
	h := s.handle(i)
	err := h.ActivateNextContract()
	s.rc.Event("acct %d activate next -> err=%v", i, err != nil)
	mustFail := !before.next.present || before.next.status != int(state.CSPending)
	if mustFail != (err != nil) {
		s.violate("world-account-mismatch", "account/activate", "ActivateNextContract of %v: err=%v, reference expects failure=%v", before.next, err, mustFail)
		return
	}
	if err != nil {
		s.checkMutable("after-refused-activate")
		return
	}
	s.model[i].next.status = int(state.CSActive)
	if before.cur.present {
		s.model[i].cur.status = int(state.CSInactive)
	}
	s.rc.Probe("contract_next_activated")
	s.mutated(i, "activate", before)
}

func (s *worldSim) opAudit() {
	i := s.pickWhere("audit", func(a acct) bool { return a.next.present })
	before := s.model[i]
	h := s.handle(i)
	accept := s.t.Choose("audit.accept", 3) != 0
	tx := before.next.deploy
	wrong := !before.next.present || s.t.Permille("audit.wrongtx", 150)
	if wrong {
		tx = "deploytx-none"
	}
	s.txSeq++
	audit := fmt.Sprintf("audittx-%04d", s.txSeq)
	var err error
	if accept {
		err = h.AcceptContract([]byte(tx), []byte(audit))
	} else {
		err = h.RejectContract([]byte(tx), []byte(audit))
	}
	s.rc.Event("acct %d audit accept=%v tx=%s -> err=%v", i, accept, tx, err != nil)
	mustFail := !before.contract || !before.next.present || wrong ||
		(accept && before.next.status == int(state.CSRejected)) || (!accept && before.next.status != int(state.CSPending))
	if mustFail != (err != nil) {
		s.violate("world-account-mismatch", "account/audit", "accept=%v of %v with tx %s: err=%v, reference expects failure=%v", accept, before.next, tx, err, mustFail)
		return
	}
	if err != nil {
		s.checkMutable("after-refused-audit") // a refused audit changes nothing
		return
	}
	if accept {
		n := before.next
		n.status, n.audit = int(state.CSActive), audit
		s.model[i].cur, s.model[i].next = n, cmodel{}
		s.model[i].graph, s.model[i].graphNext = "", 0 // the object graph belongs to a code id (= deploy transaction)
		s.rc.Probe("contract_accepted")
	} else {
		s.model[i].next.status, s.model[i].next.audit = int(state.CSRejected), audit
		s.rc.Probe("contract_rejected")
	}
	s.mutated(i, "audit", before)
}

func (s *worldSim) opObjGraph() {
	i := s.pickWhere("graph", func(a acct) bool { return a.cur.present })
	before := s.model[i]
	if !before.cur.present {
		return
	}
	h := s.handle(i)
	g := []string{"graph-1", "graph-two", "g3"}[s.t.Choose("graph.v", 3)]
	nh := 1 + s.t.Choose("graph.next", 9)
	err := h.SetObjGraph(h.Contract().CodeID(), true, nh, []byte(g))
	s.rc.Event("acct %d objgraph %s/%d -> err=%v", i, g, nh, err != nil)
	if err != nil {
		s.violate("world-unexpected-error", "account/objgraph", "SetObjGraph: %v", err)
		return
	}
	s.model[i].graph, s.model[i].graphNext = g, nh
	s.rc.Probe("object_graph_set")
	s.mutated(i, "objgraph", before)
}

func (s *worldSim) opFlag() {
	i := s.pickAcct()
	b := s.t.Choose("flag.v", 2) == 1
	before := s.model[i]
	h := s.handle(i)
	changed := false
	if s.t.Choose("flag.which", 2) == 0 {
		h.SetBlock(b)
		changed = before.blocked != b
		s.model[i].blocked = b
		s.rc.Event("acct %d blocked := %v", i, b)
	} else {
		h.SetDisable(b) // only effective on contract accounts
		if before.contract {
			changed = before.disabled != b
			s.model[i].disabled = b
		}
		s.rc.Event("acct %d disabled := %v (contract=%v)", i, b, before.contract)
	}
	if changed {
		s.mutated(i, "flag", before)
	}
}

func (s *worldSim) opClearAcct() {
	i := s.pickAcct()
	before := s.model[i]
	s.handle(i).Clear()
	s.model[i] = acct{owner: -1}
	s.rc.Event("acct %d clear", i)
	s.mutated(i, "clear", before)
}

func (s *worldSim) opRead() {
	i := s.pickAcct()
	s.rc.Event("read acct %d from the mutable world", i)
	if s.t.Permille("read.viastate", 400) {
		s.observe("mutable/account-state", i, s.handle(i), s.model[i], false)
		return
	}
	as := s.ws.GetAccountSnapshot(s.ids[i])
	var ad state.AccountData
	if as != nil {
		ad = as
	}
	s.observe("mutable", i, ad, s.model[i], false)
}

func (s *worldSim) opTouch() {
	i := s.pickAcct()
	s.handles[i] = s.ws.GetAccountState(s.ids[i])
	s.rc.Event("touch acct %d (no change)", i)
	if s.model[i].empty() {
		s.rc.Probe("touch_empty_account")
	}
}

func (s *worldSim) opSnapshot() *worldSnapRec {
	rec := &worldSnapRec{id: s.nsnap, s: s.ws.GetSnapshot(), model: s.model}
	s.nsnap++
	s.snaps = append(s.snaps, rec)
	if len(s.snaps) > 5 {
		drop := s.t.Choose("snap.drop", len(s.snaps)-1)
		s.snaps = append(s.snaps[:drop], s.snaps[drop+1:]...)
	}
	s.rc.Event("world snapshot #%d", rec.id)
	return rec
}

func (s *worldSim) pickSnap(label string) *worldSnapRec {
	if len(s.snaps) == 0 {
		return s.opSnapshot()
	}
	return s.snaps[s.t.Choose(label, len(s.snaps))]
}

func (s *worldSim) opCheckSnap() {
	rec := s.pickSnap("snap.check")
	s.rc.Event("check world snapshot #%d aged=%d", rec.id, rec.agedBy)
	s.checkWorldSnap("snapshot", rec.s, rec.model, rec, s.faults)
}

func (s *worldSim) opReset() {
	rec := s.pickSnap("snap.reset")
	err := s.ws.Reset(rec.s)
	s.rc.Event("reset world to snapshot #%d aged=%d -> err=%v", rec.id, rec.agedBy, err != nil)
	if err != nil {
		s.violate("world-unexpected-error", "world/reset", "Reset: %v", err)
		return
	}
	s.model = rec.model
	if rec.agedBy > 0 {
		s.rc.Probe("reset_after_mutation")
	}
	if s.t.Permille("reset.verify", 600) {
		s.checkMutable("after-reset")
		if s.failed {
			return
		}
		snap := s.ws.GetSnapshot()
		s.checkWorldSnap("after-reset", snap, s.model, nil, false)
		if !s.failed && rec.hashed && !bytes.Equal(snap.StateHash(), rec.hash) {
			s.violate("world-reset-mismatch", "after-reset", "StateHash after Reset(snapshot #%d) is %s, the snapshot's is %s", rec.id, hx(snap.StateHash()), hx(rec.hash))
		}
	}
}

func (s *worldSim) opClearCache() {
	s.ws.ClearCache()
	s.dropHandles()
	s.rc.Event("clear-cache world")
	s.rc.Probe("clear_cache")
}

func (s *worldSim) flush(rec *worldSnapRec, retry bool) {
	mode := 0
	if s.faults && !retry {
		mode = s.t.Weighted("flush.fault", 70, 15, 15)
	}
	s.store.window()
	root := rec.s.StateHash()
	switch mode {
	case 1: // every write fails
		s.store.hook = func(kind accessKind, _ db.BucketID, _ []byte) error {
			if kind.isWrite() {
				return errInjected
			}
			return nil
		}
	case 2: // only the root node of the account trie cannot be written (everything below it lands)
		s.store.hook = func(kind accessKind, bk db.BucketID, key []byte) error {
			if kind.isWrite() && bk == db.MerkleTrie && bytes.Equal(key, root) {
				return errInjected
			}
			return nil
		}
	}
	err := rec.s.Flush()
	injected := s.store.setErrs > 0
	s.store.disarm()
	if injected {
		s.rc.Fault("db_set_error")
	}
	s.rc.Event("flush world snapshot #%d retry=%v faultmode=%d -> err=%v", rec.id, retry, mode, err != nil)
	if err != nil {
		if !injected {
			s.violate("world-unexpected-error", "snapshot/flush", "Flush failed without any injected fault: %v", err)
			return
		}
		s.rc.Probe("flush_error_returned")
		if !retry && s.t.Permille("flush.retry", 700) {
			s.flush(rec, true)
			if rec.flushed {
				s.rc.Probe("flush_error_then_retry_ok")
			}
		}
		return
	}
	rec.flushed = true
	rec.hash, rec.hashed = root, true
	s.haveFlushed, s.flushedHash, s.flushedModel = true, root, rec.model
	if injected || s.t.Permille("flush.verify", 400) {
		s.rc.Event("  verify flushed state %s through a fresh snapshot object", hx(root))
		s.checkWorldSnap("fresh-view-after-flush", state.NewWorldSnapshot(s.db, root, nil, nil, nil), rec.model, nil, false)
		s.rc.Probe("reload_fresh_view")
	}
}

func (s *worldSim) opFlush() {
	s.flush(s.pickSnap("snap.flush"), false)
}

func (s *worldSim) opReload() {
	var fs []*worldSnapRec
	for _, r := range s.snaps {
		if r.flushed {
			fs = append(fs, r)
		}
	}
	if len(fs) == 0 || s.t.Permille("reload.object", 200) {
		rec := s.pickSnap("snap.from")
		ws, err := state.WorldStateFromSnapshot(rec.s)
		if err != nil {
			s.violate("world-unexpected-error", "world/from-snapshot", "WorldStateFromSnapshot: %v", err)
			return
		}
		s.ws, s.model = ws, rec.model
		s.dropHandles()
		s.rc.Event("world := from snapshot object #%d", rec.id)
		s.rc.Probe("world_from_snapshot_object")
		return
	}
	rec := fs[s.t.Choose("snap.reload", len(fs))]
	if s.t.Choose("reload.how", 2) == 0 {
		s.ws = state.NewWorldState(s.db, rec.hash, nil, nil, nil)
	} else {
		ws, err := state.WorldStateFromSnapshot(state.NewWorldSnapshot(s.db, rec.hash, nil, nil, nil))
		if err != nil {
			s.violate("world-unexpected-error", "world/from-snapshot", "WorldStateFromSnapshot: %v", err)
			return
		}
		s.ws = ws
	}
	s.model = rec.model
	s.dropHandles()
	s.rc.Event("world := reload state %s of snapshot #%d from DB", hx(rec.hash), rec.id)
	s.rc.Probe("reload_world_from_db")
}

func (s *worldSim) opDirtyRestart() {
	s.db = s.store.open()
	s.snaps, s.held = nil, nil
	s.dropHandles()
	var root []byte
	s.model = newWorld()
	if s.haveFlushed {
		root, s.model = s.flushedHash, s.flushedModel
	}
	s.ws = state.NewWorldState(s.db, root, nil, nil, nil)
	s.rc.Event("dirty restart: reopen at last flushed state %s", hx(root))
	s.rc.Probe("dirty_restart")
	if s.haveFlushed {
		s.rc.Probe("dirty_restart_with_flushed_root")
	}
	if s.t.Permille("restart.verify", 600) {
		s.checkWorldSnap("dirty-restart", state.NewWorldSnapshot(s.db, root, nil, nil, nil), s.model, nil, false)
	}
}

func (s *worldSim) opHold() {
	if len(s.held) > 0 && s.t.Permille("hold.check", 500) {
		h := s.held[s.t.Choose("hold.idx", len(s.held))]
		s.rc.Event("check held account snapshot of acct %d aged=%d", h.idx, h.agedBy)
		if s.observe("held-account-snapshot", h.idx, h.as, h.want, s.faults) && h.agedBy > 0 {
			s.rc.Probe("account_snapshot_compared_after_later_mutation")
		}
		return
	}
	i := s.pickAcct()
	as := s.ws.GetAccountSnapshot(s.ids[i])
	if as == nil {
		return
	}
	s.held = append(s.held, &heldAcct{idx: i, as: as, want: s.model[i]})
	if len(s.held) > 6 {
		s.held = s.held[1:]
	}
	s.rc.Event("hold account snapshot of acct %d", i)
}

func runWorld(rc *kit.RunCtx) {
	s := &worldSim{rc: rc, t: rc.Tape, faults: rc.Profile == "faults", store: newSimStore(), model: newWorld(), ids: worldIDs}
	s.db = s.store.open()
	s.ws = state.NewWorldState(s.db, nil, nil, nil, nil)
	s.owners = []module.Address{
		common.MustNewAddressFromString("hx0000000000000000000000000000000000000a01"),
		common.MustNewAddressFromString("hx0000000000000000000000000000000000000a02"),
	}
	nops := opsRange(rc, 15, 60, 30, 140)
	rc.Config["nops"] = nops
	rc.Config["profile"] = rc.Profile
	for n := 0; n < nops && !s.failed; n++ {
		rc.Steps++
		switch s.t.Weighted("op", 14, 14, 8, 7, 5, 2, 6, 9, 7, 6, 5, 7, 5, 3, 4, 3, 9, 9, 6, 6) {
		case 19:
			s.opActivate()
		case 16:
			s.opDeploy()
		case 17:
			s.opAudit()
		case 18:
			s.opObjGraph()
		case 0:
			s.opBalance()
		case 1:
			s.opSetValue()
		case 2:
			s.opDeleteValue()
		case 3:
			s.opContract()
		case 4:
			s.opFlag()
		case 5:
			s.opClearAcct()
		case 6:
			s.opRead()
		case 7:
			s.opSnapshot()
		case 8:
			s.opCheckSnap()
		case 9:
			s.opReset()
		case 10:
			s.opClearCache()
		case 11:
			s.opFlush()
		case 12:
			s.opReload()
		case 13:
			s.opDirtyRestart()
		case 14:
			s.opHold()
		case 15:
			s.opTouch()
		}
	}
	if s.failed {
		return
	}
	rc.Event("final check: mutable world + %d snapshots + %d held account snapshots", len(s.snaps), len(s.held))
	s.checkMutable("mutable")
	last := s.opSnapshot()
	for _, rec := range s.snaps {
		if s.failed {
			return
		}
		where := "snapshot"
		if rec == last {
			where = "mutable"
		}
		s.checkWorldSnap(where, rec.s, rec.model, rec, false)
	}
	for _, h := range s.held {
		if s.failed {
			return
		}
		if s.observe("held-account-snapshot", h.idx, h.as, h.want, false) && h.agedBy > 0 {
			rc.Probe("account_snapshot_compared_after_later_mutation")
		}
	}
	rc.Metric("mutations", int64(s.mutations))
	rc.Metric("full_checks", int64(s.fullChecks))
	rc.Metric("journal_entries", int64(len(s.store.journal)))
	rc.Nontrivial = s.mutations >= 3 && s.fullChecks >= 1
}
