package storesim

import (
	"crypto/sha256"
	"encoding/hex"
	"errors"
	"fmt"
	"sort"
	"sync"

	"github.com/icon-project/goloop/common/db"
)

// simdb is the database seam of storesim: a journaling decorator around
// db.NewMapDB(). Every Set/Delete that reaches the store is a numbered journal
// entry and an error-injection point; Get/Has are error-injection (and, for the
// concurrent C19 variant, parking) points. The store models a process-crash
// durable medium: a completed Set/Delete survives a "dirty restart", nothing
// else does (all goloop objects are thrown away by the engine; the store keeps
// exactly its journal).

var errInjected = errors.New("simdb: injected I/O error")

type accessKind int

const (
	kGet accessKind = iota
	kHas
	kSet
	kDelete
	kOpen // opening a bucket of the underlying store (only reported through openHook)
)

func (k accessKind) String() string {
	return [...]string{"get", "has", "set", "del", "open"}[k]
}

func (k accessKind) isWrite() bool { return k == kSet || k == kDelete }

type journalEntry struct {
	Seq    int
	Bucket db.BucketID
	Kind   accessKind
	Key    string
	Value  []byte
}

// simStore is what survives a dirty restart.
type simStore struct {
	mu      sync.Mutex  // counters and journal (client tasks of the concurrent variant share the store)
	inner   db.Database // db.NewMapDB(): the real map backend of goloop
	journal []journalEntry
	// hook is consulted before every access (after the journal number has been
	// reserved for writes). Returning an error makes the access fail without
	// touching the store. It may also park the calling task (token scheduler).
	hook func(kind accessKind, bucket db.BucketID, key []byte) error
	// openHook is consulted when a bucket of the underlying store is opened (a backend may do I/O
	// there); only the concurrent C19 engine sets it, to park the calling task.
	openHook func(bucket db.BucketID) error
	// counters of the current operation window (reset by the engine)
	gets, sets       int
	getErrs, setErrs int
	touched          map[string]struct{} // bucket|key written in the current window
}

func newSimStore() *simStore {
	return &simStore{inner: db.NewMapDB(), touched: map[string]struct{}{}}
}

func (s *simStore) window() {
	s.gets, s.sets, s.getErrs, s.setErrs = 0, 0, 0, 0
	s.touched = map[string]struct{}{}
}

// touchedDigest is an order-independent digest of the keys written in the window.
func (s *simStore) touchedDigest() string {
	ks := make([]string, 0, len(s.touched))
	for k := range s.touched {
		ks = append(ks, k)
	}
	sort.Strings(ks)
	h := sha256.New()
	for _, k := range ks {
		fmt.Fprintf(h, "%d:%s", len(k), k)
	}
	return fmt.Sprintf("%d/%s", len(ks), hex.EncodeToString(h.Sum(nil)[:4]))
}

// simDB is one incarnation's handle on the store (a new one after each dirty
// restart, like a re-opened database).
type simDB struct {
	store   *simStore
	buckets map[db.BucketID]*simBucket
}

var _ db.Database = (*simDB)(nil)

func (s *simStore) open() *simDB {
	return &simDB{store: s, buckets: map[db.BucketID]*simBucket{}}
}

func (d *simDB) GetBucket(id db.BucketID) (db.Bucket, error) {
	if h := d.store.openHook; h != nil {
		if err := h(id); err != nil { // may park the calling task
			return nil, err
		}
	}
	if b, ok := d.buckets[id]; ok {
		return b, nil
	}
	in, err := d.store.inner.GetBucket(id)
	if err != nil {
		return nil, err
	}
	b := &simBucket{store: d.store, id: id, inner: in}
	d.buckets[id] = b
	return b, nil
}

func (d *simDB) Close() error { return nil }

type simBucket struct {
	store *simStore
	id    db.BucketID
	inner db.Bucket
}

var _ db.Bucket = (*simBucket)(nil)

func (b *simBucket) pre(kind accessKind, key []byte) error {
	s := b.store
	s.mu.Lock()
	if kind.isWrite() {
		s.sets++
	} else {
		s.gets++
	}
	hook := s.hook
	s.mu.Unlock()
	if hook != nil {
		if err := hook(kind, b.id, key); err != nil { // may park the calling task
			s.mu.Lock()
			if kind.isWrite() {
				s.setErrs++
			} else {
				s.getErrs++
			}
			s.mu.Unlock()
			return err
		}
	}
	return nil
}

func (s *simStore) record(e journalEntry) {
	s.mu.Lock()
	e.Seq = len(s.journal)
	s.journal = append(s.journal, e)
	s.touched[string(e.Bucket)+"|"+e.Key] = struct{}{}
	s.mu.Unlock()
}

func (b *simBucket) Get(key []byte) ([]byte, error) {
	if err := b.pre(kGet, key); err != nil {
		return nil, err
	}
	return b.inner.Get(key)
}

func (b *simBucket) Has(key []byte) (bool, error) {
	if err := b.pre(kHas, key); err != nil {
		return false, err
	}
	return b.inner.Has(key)
}

func (b *simBucket) Set(key, value []byte) error {
	if err := b.pre(kSet, key); err != nil {
		return err
	}
	b.store.record(journalEntry{Bucket: b.id, Kind: kSet, Key: string(key), Value: append([]byte(nil), value...)})
	return b.inner.Set(key, value)
}

func (b *simBucket) Delete(key []byte) error {
	if err := b.pre(kDelete, key); err != nil {
		return err
	}
	b.store.record(journalEntry{Bucket: b.id, Kind: kDelete, Key: string(key)})
	return b.inner.Delete(key)
}

// raw reads bypass hooks and counters (oracle use only).
func (s *simStore) rawGet(id db.BucketID, key []byte) []byte {
	bk, _ := s.inner.GetBucket(id)
	v, _ := bk.Get(key)
	return v
}

// replayJournal rebuilds bucket contents from the journal alone (oracle use:
// "the DB keeps exactly what was written to it").
func (s *simStore) replayJournal() map[string][]byte {
	m := map[string][]byte{}
	for _, e := range s.journal {
		k := string(e.Bucket) + "|" + e.Key
		if e.Kind == kSet {
			m[k] = e.Value
		} else {
			delete(m, k)
		}
	}
	return m
}

// faultPlan is the per-operation error-injection plan of the single-client
// engines: drawn once per harness operation (few tape entries, so that
// minimisation can zero a whole fault), executed by the store hook.
type faultPlan struct {
	failGetAt int  // fail the k-th Get/Has of the window (1-based), 0 = none
	failSetAt int  // fail the k-th Set/Delete of the window (1-based), 0 = none
	failAll   bool // every Get/Has fails (store outage)
}

func (p faultPlan) none() bool { return p.failGetAt == 0 && p.failSetAt == 0 && !p.failAll }

func (s *simStore) arm(p faultPlan) {
	s.window()
	if p.none() {
		s.hook = nil
		return
	}
	s.hook = func(kind accessKind, _ db.BucketID, _ []byte) error {
		if kind.isWrite() {
			if p.failSetAt != 0 && s.sets == p.failSetAt {
				return errInjected
			}
			return nil
		}
		if p.failAll || (p.failGetAt != 0 && s.gets == p.failGetAt) {
			return errInjected
		}
		return nil
	}
}

func (s *simStore) disarm() { s.hook = nil }
