// Package storesim simulates goloop's storage layer — the ompt Merkle Patricia
// trie (C17), the world state / accounts on top of it (C14), the layered
// database (C19) and the merkle accumulator (C27) — under tape-drawn operation
// histories with flush / clear-cache / reload-from-DB / dirty-restart and
// injected DB errors, against in-memory reference models written from the
// property statements. The database seam is simdb (simdb_test.go), a journaling
// decorator around goloop's own MapDB.
package storesim

import (
	"encoding/hex"
	"fmt"
	"sort"
	"testing"

	"verif/sim/kit"
)

type engine struct{ t *testing.T }

func (engine) Name() string { return "storesim" }

func TestWorker(t *testing.T) {
	if err := kit.WorkerMain(engine{t}); err != nil {
		t.Fatal(err)
	}
}

func (e engine) Run(rc *kit.RunCtx) {
	switch rc.Property {
	case "C17":
		runTrie(rc)
	case "C14":
		runWorld(rc)
	case "C19":
		if rc.Profile == "concurrent" {
			runLayerConcurrent(rc)
		} else {
			runLayer(rc)
		}
	case "C27":
		runMTA(rc)
	default:
		panic("storesim: unknown property " + rc.Property)
	}
}

// ---- small helpers shared by the sub-engines

func hx(b []byte) string {
	if b == nil {
		return "-"
	}
	if len(b) > 8 {
		return fmt.Sprintf("%s..%d", hex.EncodeToString(b[:6]), len(b))
	}
	return hex.EncodeToString(b)
}

func hxs(s string) string { return hex.EncodeToString([]byte(s)) }

func sortedKeys[V any](m map[string]V) []string {
	ks := make([]string, 0, len(m))
	for k := range m {
		ks = append(ks, k)
	}
	sort.Strings(ks)
	return ks
}

func copyMap(m map[string][]byte) map[string][]byte {
	c := make(map[string][]byte, len(m))
	for k, v := range m {
		c[k] = v
	}
	return c
}

// opsBudget returns the history length range for the tier.
func opsRange(rc *kit.RunCtx, qlo, qhi, tlo, thi int) int {
	if rc.Tier == "thorough" {
		return rc.Tape.Range("nops", tlo, thi)
	}
	return rc.Tape.Range("nops", qlo, qhi)
}

// drawFault draws the per-operation fault plan (faults profile only): fail the
// k-th read (k <= kGet) or the k-th write (k <= kSet) of the operation, or every
// read. kGet/kSet = 0 disables that kind. Value 0 of every choice = no fault.
func drawFault(rc *kit.RunCtx, enabled bool, kGet, kSet int, allowAll bool) faultPlan {
	var p faultPlan
	if !enabled {
		return p
	}
	wg, ws, wa := 0, 0, 0
	if kGet > 0 {
		wg = 7
	}
	if kSet > 0 {
		ws = 7
	}
	if allowAll {
		wa = 2
	}
	switch rc.Tape.Weighted("fault", 84, wg, ws, wa) {
	case 1:
		p.failGetAt = 1 + rc.Tape.Choose("fault.k", kGet)
	case 2:
		p.failSetAt = 1 + rc.Tape.Choose("fault.k", kSet)
	case 3:
		p.failAll = true
	}
	return p
}
