package storesim

import (
	"bytes"
	"fmt"
	"sort"
	"strings"

	"github.com/icon-project/goloop/common/db"

	"verif/sim/kit"
)

// ---------------------------------------------------------------------------
// C19 (single client): db.NewLayerDB over simdb.
//
// Reference model: `under` = contents of the underlying store (map), `over` =
// the layer's own writes (value or tombstone). view(k) = over[k] if present
// else under[k]. Commit: under := view; discard: over := {} and under must be
// byte-identical to before (in particular nothing at all is written).
// ---------------------------------------------------------------------------

var layerBuckets = []db.BucketID{db.MerkleTrie, db.BytesByHash, db.ChainProperty}
var layerKeys = []string{"k0", "k1", "k2", "k", "\x00", "k10"}

type lval struct {
	present bool
	val     string
}

func (v lval) String() string {
	if !v.present {
		return "absent"
	}
	return hx([]byte(v.val))
}

type layerSim struct {
	rc     *kit.RunCtx
	t      *kit.Tape
	faults bool

	store *simStore
	sdb   *simDB
	ldb   db.LayerDB
	lbk   map[db.BucketID]db.Bucket

	under     map[string]lval // key: bucket|key
	over      map[string]lval
	committed bool // the layer is in write-through mode (after Flush(true))
	// after a failed commit: per key the set of values the underlying store may hold
	torn      bool
	tornFrom  map[string][]lval
	vcount    int
	nLayerOps int
	nCommits  int
	nDiscards int
	failed    bool
}

func lk(b db.BucketID, k string) string { return string(b) + "|" + k }

func (s *layerSim) violate(class, sig, format string, args ...any) {
	s.failed = true
	s.rc.Violate(class, sig, format, args...)
}

func (s *layerSim) wthrough() int {
	if s.committed {
		return 1
	}
	return 0
}

func (s *layerSim) view(k string) lval {
	if !s.committed {
		if v, ok := s.over[k]; ok {
			return v
		}
	}
	return s.under[k]
}

func (s *layerSim) newLayer() {
	s.ldb = db.NewLayerDB(s.sdb)
	s.lbk = map[db.BucketID]db.Bucket{}
	s.over = map[string]lval{}
	s.committed = false
	s.rc.Event("new layer over the store")
}

func (s *layerSim) bucket(b db.BucketID) db.Bucket {
	if bk, ok := s.lbk[b]; ok && s.t.Permille("bucket.reuse", 700) {
		return bk
	}
	bk, err := s.ldb.GetBucket(b)
	if err != nil {
		s.violate("layer-unexpected-error", "get-bucket", "GetBucket: %v", err)
		return nil
	}
	s.lbk[b] = bk
	return bk
}

func (s *layerSim) pick() (db.BucketID, string) {
	return layerBuckets[s.t.Choose("bucket", len(layerBuckets))], layerKeys[s.t.Choose("key", len(layerKeys))]
}

func (s *layerSim) newValue() []byte {
	if s.t.Permille("val.empty", 40) {
		s.rc.Probe("empty_value")
		return []byte{}
	}
	s.vcount++
	n := 1 + s.t.Choose("val.len", 12)
	v := make([]byte, n)
	for i := range v {
		v[i] = byte(s.vcount) + byte(i)*5
	}
	v[0] = byte(s.vcount%250) + 1
	return v
}

func (s *layerSim) begin(kGet, kSet int) {
	s.store.arm(drawFault(s.rc, s.faults, kGet, kSet, false))
}

func (s *layerSim) end() (injected bool) {
	injected = s.store.getErrs+s.store.setErrs > 0
	if s.store.getErrs > 0 {
		s.rc.Fault("db_get_error")
	}
	if s.store.setErrs > 0 {
		s.rc.Fault("db_set_error")
	}
	s.store.disarm()
	return
}

func (s *layerSim) opSet() {
	b, k := s.pick()
	bk := s.bucket(b)
	if bk == nil {
		return
	}
	v := s.newValue()
	buf := append([]byte(nil), v...)
	kb := []byte(k)
	s.begin(0, s.wthrough())
	err := bk.Set(kb, buf)
	inj := s.end()
	// the caller owns its buffers again after Set returns
	for i := range buf {
		buf[i] ^= 0xff
	}
	for i := range kb {
		kb[i] ^= 0xff
	}
	s.rc.Event("layer set %q/%s := %s err=%v", string(b), hxs(k), hx(v), err != nil)
	s.nLayerOps++
	if err != nil {
		if !inj {
			s.violate("layer-unexpected-error", "layer/set", "Set: %v", err)
		}
		return
	}
	key := lk(b, k)
	if s.committed {
		s.under[key] = lval{true, string(v)}
	} else {
		if o, ok := s.over[key]; ok && !o.present {
			s.rc.Probe("set_after_delete_in_layer")
		}
		s.over[key] = lval{true, string(v)}
	}
}

func (s *layerSim) opDelete() {
	b, k := s.pick()
	bk := s.bucket(b)
	if bk == nil {
		return
	}
	s.begin(0, s.wthrough())
	err := bk.Delete([]byte(k))
	inj := s.end()
	s.rc.Event("layer delete %q/%s err=%v", string(b), hxs(k), err != nil)
	s.nLayerOps++
	if err != nil {
		if !inj {
			s.violate("layer-unexpected-error", "layer/delete", "Delete: %v", err)
		}
		return
	}
	key := lk(b, k)
	if s.committed {
		delete(s.under, key)
		return
	}
	if o, ok := s.over[key]; ok && o.present {
		s.rc.Probe("delete_after_set_in_layer")
	}
	if !s.view(key).present {
		s.rc.Probe("delete_absent_key")
	} else if _, ok := s.over[key]; !ok {
		s.rc.Probe("delete_shadows_underlying")
	}
	s.over[key] = lval{}
}

func (s *layerSim) readLayer(where string, b db.BucketID, k string, faulty bool) bool {
	bk := s.bucket(b)
	if bk == nil {
		return false
	}
	key := lk(b, k)
	want := s.view(key)
	if faulty {
		s.begin(1, 0)
	} else {
		s.store.arm(faultPlan{})
	}
	var got []byte
	var has bool
	var err error
	useHas := s.t.Choose("read.has", 2) == 1
	if useHas {
		has, err = bk.Has([]byte(k))
	} else {
		got, err = bk.Get([]byte(k))
	}
	inj := s.end()
	if err != nil {
		if inj {
			s.rc.Probe("error_surfaced_after_injection")
			return true
		}
		s.violate("layer-unexpected-error", where, "%s: read %q/%s: %v", where, string(b), hxs(k), err)
		return false
	}
	if useHas {
		if has != want.present {
			s.violate("layer-view-mismatch", where, "%s: layer Has(%q/%s) = %v, reference view is %v", where, string(b), hxs(k), has, want)
			return false
		}
		return true
	}
	if (got != nil && !want.present) || (want.present && !bytes.Equal(got, []byte(want.val))) || (want.present && len(want.val) > 0 && got == nil) {
		s.violate("layer-view-mismatch", where, "%s: layer Get(%q/%s) = %s, reference view is %v", where, string(b), hxs(k), hx(got), want)
		return false
	}
	return true
}

func (s *layerSim) opGet() {
	b, k := s.pick()
	s.rc.Event("layer read %q/%s", string(b), hxs(k))
	s.nLayerOps++
	s.readLayer("layer/read", b, k, s.faults)
}

// underlying reads go through simdb directly (the "underlying DB" observation point)
func (s *layerSim) underGet(b db.BucketID, k string) lval {
	bk, _ := s.sdb.GetBucket(b)
	has, _ := bk.Has([]byte(k))
	v, _ := bk.Get([]byte(k))
	if has != (v != nil) {
		panic("storesim: MapDB Has/Get disagree")
	}
	return lval{has, string(v)}
}

func (s *layerSim) checkUnder(where string) bool {
	s.store.arm(faultPlan{})
	defer s.store.disarm()
	for _, b := range layerBuckets {
		for _, k := range layerKeys {
			key := lk(b, k)
			got := s.underGet(b, k)
			want := s.under[key]
			if s.torn {
				// relaxation after a failed commit: "before" or the layer's pending value
				if got == want {
					continue
				}
				ok := false
				for _, o := range s.tornFrom[key] {
					ok = ok || got == o
				}
				if ok {
					continue
				}
				s.violate("layer-underlying-mismatch", where, "%s: after a failed commit the underlying store holds %v at %q/%s; allowed: the old value %v or the layer's pending write %v", where, got, string(b), hxs(k), want, s.tornFrom[key])
				return false
			}
			if got != want {
				s.violate("layer-underlying-mismatch", where, "%s: underlying store holds %v at %q/%s, reference says %v", where, got, string(b), hxs(k), want)
				return false
			}
		}
	}
	// nothing outside the key universe may have been written
	if !s.torn {
		for jk, v := range s.store.replayJournal() {
			if w, ok := s.under[jk]; !ok || !w.present || w.val != string(v) {
				s.violate("layer-underlying-mismatch", where, "%s: journal replay has %s = %s, reference underlying store says %v", where, hxs(jk), hx(v), s.under[jk])
				return false
			}
		}
	}
	return true
}

func (s *layerSim) opFullCheck(where string) {
	s.rc.Event("full check (%s): layer view and underlying store", where)
	for _, b := range layerBuckets {
		for _, k := range layerKeys {
			if !s.readLayer(where, b, k, false) {
				return
			}
		}
	}
	s.checkUnder(where)
}

func (s *layerSim) opUnderWrite() {
	// somebody else writes the underlying store while the layer is open
	b, k := s.pick()
	bk, _ := s.sdb.GetBucket(b)
	key := lk(b, k)
	if s.torn {
		return
	}
	s.store.arm(faultPlan{})
	if s.t.Choose("under.del", 3) == 2 {
		bk.Delete([]byte(k))
		delete(s.under, key)
		s.rc.Event("underlying delete %q/%s", string(b), hxs(k))
	} else {
		v := s.newValue()
		bk.Set([]byte(k), v)
		s.under[key] = lval{true, string(v)}
		s.rc.Event("underlying set %q/%s := %s", string(b), hxs(k), hx(v))
	}
	s.store.disarm()
	if _, ok := s.over[key]; ok && !s.committed {
		s.rc.Probe("underlying_changed_below_layer_write")
	}
}

func (s *layerSim) opCommit(retry bool) {
	jBefore := len(s.store.journal)
	if retry {
		s.store.arm(faultPlan{})
	} else {
		s.begin(0, 6)
	}
	err := s.ldb.Flush(true)
	inj := s.end()
	s.rc.Event("commit retry=%v -> err=%v journal+=%d", retry, err != nil, len(s.store.journal)-jBefore)
	if err != nil {
		if !inj {
			s.violate("layer-unexpected-error", "commit", "Flush(true): %v", err)
			return
		}
		s.rc.Probe("commit_error_returned")
		if !s.committed {
			if !s.torn {
				s.tornFrom = map[string][]lval{}
			}
			s.torn = true
			for k, v := range s.over {
				s.tornFrom[k] = append(s.tornFrom[k], v)
			}
		}
		// the layer itself must still show the same view
		s.opFullCheck("after-failed-commit")
		return
	}
	if inj {
		// an injected write error was swallowed: the commit claims success
		s.violate("layer-commit-swallowed-error", "commit", "Flush(true) returned nil although a write to the underlying store failed")
		return
	}
	if !s.committed {
		for k, v := range s.over {
			if v.present {
				s.under[k] = v
			} else {
				delete(s.under, k)
			}
		}
		if len(s.over) > 0 {
			s.rc.Probe("commit_nonempty_layer")
		}
		s.over = map[string]lval{}
		s.committed = true
		s.nCommits++
	} else {
		s.rc.Probe("commit_again")
	}
	if s.torn {
		s.rc.Probe("commit_error_then_retry_ok")
	}
	s.torn, s.tornFrom = false, nil
	s.opFullCheck("after-commit")
}

func (s *layerSim) opDiscard() {
	jBefore := len(s.store.journal)
	s.store.arm(faultPlan{})
	err := s.ldb.Flush(false)
	s.store.disarm()
	s.rc.Event("discard -> err=%v journal+=%d", err != nil, len(s.store.journal)-jBefore)
	if len(s.store.journal) != jBefore {
		s.violate("layer-discard-wrote", "discard", "Flush(false) wrote %d entries to the underlying store", len(s.store.journal)-jBefore)
		return
	}
	if err != nil {
		if !s.committed {
			s.violate("layer-unexpected-error", "discard", "Flush(false): %v", err)
		}
		return
	}
	if !s.committed {
		if len(s.over) > 0 {
			s.rc.Probe("discard_nonempty_layer")
		}
		s.over = map[string]lval{}
		s.nDiscards++
	}
	s.opFullCheck("after-discard")
}

func (s *layerSim) prepopulate() {
	s.store.arm(faultPlan{})
	n := s.t.Range("prefill", 0, 8)
	for i := 0; i < n; i++ {
		b, k := s.pick()
		v := s.newValue()
		bk, _ := s.sdb.GetBucket(b)
		bk.Set([]byte(k), v)
		s.under[lk(b, k)] = lval{true, string(v)}
	}
	s.store.disarm()
	s.rc.Event("underlying store prefilled with %d writes: %s", n, s.describeUnder())
}

func (s *layerSim) describeUnder() string {
	ks := make([]string, 0, len(s.under))
	for k := range s.under {
		ks = append(ks, k)
	}
	sort.Strings(ks)
	var sb strings.Builder
	for _, k := range ks {
		fmt.Fprintf(&sb, "%s=%v ", hxs(k), s.under[k])
	}
	return sb.String()
}

func runLayer(rc *kit.RunCtx) {
	s := &layerSim{rc: rc, t: rc.Tape, faults: rc.Profile == "faults", store: newSimStore(), under: map[string]lval{}}
	s.sdb = s.store.open()
	s.prepopulate()
	s.newLayer()
	nops := opsRange(rc, 10, 50, 20, 120)
	rc.Config["nops"] = nops
	rc.Config["profile"] = rc.Profile
	for n := 0; n < nops && !s.failed; n++ {
		rc.Steps++
		switch s.t.Weighted("op", 30, 16, 18, 5, 6, 5, 3, 4) {
		case 0:
			s.opSet()
		case 1:
			s.opDelete()
		case 2:
			s.opGet()
		case 3:
			s.opFullCheck("mid-history")
		case 4:
			s.opCommit(false)
		case 5:
			if s.torn {
				s.opCommit(true)
			} else {
				s.opDiscard()
			}
		case 6:
			s.opUnderWrite()
		case 7:
			if s.committed && !s.torn {
				s.newLayer()
			} else {
				s.opGet()
			}
		}
	}
	if s.failed {
		return
	}
	// end of history: commit or discard (tape), then compare everything
	if s.torn || s.t.Choose("end.commit", 2) == 0 {
		s.opCommit(true)
	} else {
		s.opDiscard()
	}
	if !s.failed {
		s.opFullCheck("final")
	}
	rc.Metric("layer_ops", int64(s.nLayerOps))
	rc.Metric("commits", int64(s.nCommits))
	rc.Metric("discards", int64(s.nDiscards))
	rc.Nontrivial = s.nLayerOps >= 3 && (s.nCommits+s.nDiscards) >= 1
}
