package storesim

import (
	"bytes"
	"fmt"
	"strings"

	"github.com/icon-project/goloop/common/db"
	"github.com/icon-project/goloop/common/trie"
	"github.com/icon-project/goloop/common/trie/ompt"

	"verif/sim/kit"
)

// ---------------------------------------------------------------------------
// C17: the ompt Merkle Patricia trie is a canonical map.
//
// Reference model: a Go map per view (mutable, every live snapshot, the last
// flushed root). Root-hash oracle: the hash of a trie built from scratch, on a
// private plain MapDB, by inserting the reference map in ascending key order
// (the canonical form) — compared with the hash reached through the history.
// ---------------------------------------------------------------------------

type snapRec struct {
	id      int
	s       trie.Snapshot
	model   map[string][]byte
	hash    []byte
	hashed  bool
	flushed bool
	agedBy  int // mutations applied to the mutable after this snapshot was taken
}

type trieSim struct {
	rc     *kit.RunCtx
	t      *kit.Tape
	faults bool

	store *simStore
	db    *simDB

	mut   trie.Mutable
	model map[string][]byte
	snaps []*snapRec
	nsnap int

	haveFlushed  bool
	flushedRoot  []byte
	flushedModel map[string][]byte

	pool   [][]byte
	vcount int

	mutations, deletes, fullChecks int
	cold                           bool // the mutable has nodes that are only hashes (reload / clear-cache since the last full touch)
	lastMut                        string
	failed                         bool
}

var trieAlphabet = []byte{0x00, 0x01, 0x10, 0x12, 0xab, 0xff}

func (s *trieSim) genPool() {
	t := s.t
	n := t.Range("pool", 3, 20)
	for i := 0; i < n; i++ {
		var k []byte
		mode := 0
		if len(s.pool) > 0 {
			mode = t.Weighted("key.mode", 3, 4, 2, 2)
		}
		switch mode {
		case 0: // fresh
			l := t.Range("key.len", 0, 6)
			for j := 0; j < l; j++ {
				k = append(k, trieAlphabet[t.Choose("key.b", len(trieAlphabet))])
			}
		case 1: // extend an earlier key
			base := s.pool[t.Choose("key.base", len(s.pool))]
			k = append(k, base...)
			for j, l := 0, 1+t.Choose("key.ext", 2); j < l && len(k) < 6; j++ {
				k = append(k, trieAlphabet[t.Choose("key.b", len(trieAlphabet))])
			}
		case 2: // truncate
			base := s.pool[t.Choose("key.base", len(s.pool))]
			k = append(k, base[:t.Choose("key.cut", len(base)+1)]...)
		case 3: // sibling: change the last byte
			base := s.pool[t.Choose("key.base", len(s.pool))]
			k = append(k, base...)
			if len(k) > 0 {
				k[len(k)-1] = trieAlphabet[t.Choose("key.b", len(trieAlphabet))]
			}
		}
		s.pool = append(s.pool, k)
	}
}

var valueSizes = []int{1, 2, 3, 20, 31, 32, 33, 40, 64, 100}

func (s *trieSim) newValue(key string) []byte {
	if cur, ok := s.model[key]; ok && s.t.Permille("val.same", 80) {
		s.rc.Probe("set_same_value")
		return cur
	}
	n := valueSizes[s.t.Choose("val.size", len(valueSizes))]
	s.vcount++
	v := make([]byte, n)
	for i := range v {
		v[i] = byte(s.vcount) + byte(i)*7 + 1
	}
	v[0] = byte(s.vcount%250) + 1
	if n >= 3 {
		v[1] = byte(s.vcount >> 8)
	}
	return v
}

// ---- structure probes, computed on the reference key set (nibble level), not
// on the implementation: a "branch point" is a nibble prefix with at least two
// distinct continuations (next nibble, or end-of-key).

func nibbles(k string) string {
	b := make([]byte, 0, len(k)*2)
	for i := 0; i < len(k); i++ {
		b = append(b, k[i]>>4, k[i]&0xf)
	}
	return string(b)
}

func branchPoints(keys []string, along string) map[string]int {
	// only prefixes of `along` matter for a single-key update
	res := map[string]int{}
	for l := 0; l <= len(along); l++ {
		p := along[:l]
		conts := map[int]bool{}
		under := 0
		for _, k := range keys {
			if strings.HasPrefix(k, p) {
				under++
				if len(k) == l {
					conts[-1] = true
				} else {
					conts[int(k[l])] = true
				}
			}
		}
		if len(conts) >= 2 {
			res[p] = under
		}
	}
	return res
}

func (s *trieSim) structureProbes(op string, key string, before, after map[string][]byte) {
	nk := nibbles(key)
	var kb, ka []string
	for k := range before {
		kb = append(kb, nibbles(k))
	}
	for k := range after {
		ka = append(ka, nibbles(k))
	}
	bb, ba := branchPoints(kb, nk), branchPoints(ka, nk)
	for p := range ba {
		if _, ok := bb[p]; !ok {
			under := 0
			for _, k := range kb {
				if strings.HasPrefix(k, p) {
					under++
				}
			}
			switch {
			case under >= 2:
				s.rc.Probe("split_extension")
			case under == 1:
				s.rc.Probe("split_leaf")
			}
			if len(p) == len(nk) {
				s.rc.Probe("branch_value_set")
			}
		}
	}
	for p := range bb {
		if _, ok := ba[p]; !ok {
			under := 0
			for _, k := range ka {
				if strings.HasPrefix(k, p) {
					under++
				}
			}
			s.rc.Probe("delete_collapses_branch")
			if under >= 2 {
				s.rc.Probe("collapse_into_extension")
			} else {
				s.rc.Probe("collapse_into_leaf")
			}
			if s.store.gets > 0 {
				s.rc.Probe("collapse_with_db_load")
			}
		}
	}
	_ = op
}

// ---- canonical rebuild

func canonicalTrieHash(model map[string][]byte) []byte {
	m := ompt.NewMutable(db.NewMapDB(), nil)
	for _, k := range sortedKeys(model) {
		if _, err := m.Set([]byte(k), model[k]); err != nil {
			panic(fmt.Sprintf("canonical rebuild: set failed: %v", err))
		}
	}
	return m.GetSnapshot().Hash()
}

// ---- fault window helpers

func (s *trieSim) begin(allowGet, allowSet bool) faultPlan {
	kg, ks := 0, 0
	if allowGet {
		kg = 4
	}
	if allowSet {
		ks = 8
	}
	p := drawFault(s.rc, s.faults, kg, ks, allowGet)
	s.store.arm(p)
	return p
}

func (s *trieSim) end() {
	if s.store.getErrs > 0 {
		s.rc.Fault("db_get_error")
	}
	if s.store.setErrs > 0 {
		s.rc.Fault("db_set_error")
	}
	s.store.disarm()
}

// cls renames an oracle class when an injected error fired inside the current
// operation but goloop reported success: the wrong answer is then a swallowed
// I/O error, which is a different finding than a wrong answer without faults.
func (s *trieSim) cls(base string) string {
	if s.injected() {
		return "trie-injected-error-swallowed"
	}
	return base
}

func (s *trieSim) injected() bool { return s.store.getErrs+s.store.setErrs > 0 }

func (s *trieSim) violate(class, sig, format string, args ...any) {
	s.failed = true
	if class == "trie-injected-error-swallowed" {
		// C17 is stated over operation sequences, not over I/O errors: a trie that
		// answers wrongly only because goloop swallowed an *injected* DB error
		// (known: extension.delete drops its child's error) is outside the
		// statement. It ends the run and is counted, never reported.
		s.rc.Probe("observation_injected_error_swallowed:" + sig)
		return
	}
	s.rc.Violate(class, sig, format, args...)
}

// errOK decides what to do with an error returned by goloop: allowed only if an
// injected error fired inside the current window.
func (s *trieSim) errOK(where string, err error) bool {
	if err == nil {
		return true
	}
	if s.injected() {
		s.rc.Probe("error_surfaced_after_injection")
		return false
	}
	s.violate("trie-unexpected-error", where, "%s: error without any injected fault: %v", where, err)
	return false
}

// ---- full comparison of an immutable view with its reference map

func (s *trieSim) collect(where string, it trie.Iterator) ([][2]string, bool) {
	var out [][2]string
	if it == nil {
		return nil, true
	}
	for n := 0; it.Has(); n++ {
		v, k, err := it.Get()
		if err != nil {
			return nil, s.errOK(where+"/iterate", err) && false
		}
		out = append(out, [2]string{string(k), string(v)})
		if n > 100000 {
			s.violate("trie-iteration-mismatch", where, "%s: iterator does not terminate", where)
			return nil, false
		}
		if err := it.Next(); err != nil {
			return nil, s.errOK(where+"/iterate", err) && false
		}
	}
	return out, true
}

func fmtPairs(ps [][2]string) string {
	var sb strings.Builder
	for i, p := range ps {
		if i > 0 {
			sb.WriteByte(' ')
		}
		if i >= 12 {
			fmt.Fprintf(&sb, "...(%d)", len(ps))
			break
		}
		fmt.Fprintf(&sb, "%s=%s", hxs(p[0]), hx([]byte(p[1])))
	}
	return sb.String()
}

func (s *trieSim) checkView(where string, v trie.Immutable, model map[string][]byte, rec *snapRec) {
	rc := s.rc
	s.fullChecks++
	// 1. point lookups: every pool key and every model key
	seen := map[string]bool{}
	var keys []string
	for _, k := range s.pool {
		if !seen[string(k)] {
			seen[string(k)] = true
			keys = append(keys, string(k))
		}
	}
	for _, k := range sortedKeys(model) {
		if !seen[k] {
			seen[k] = true
			keys = append(keys, k)
		}
	}
	// order of lookups is a tape choice (access order must not matter)
	if s.t.Permille("check.rev", 300) {
		for i, j := 0, len(keys)-1; i < j; i, j = i+1, j-1 {
			keys[i], keys[j] = keys[j], keys[i]
		}
	}
	for _, k := range keys {
		got, err := v.Get([]byte(k))
		if err != nil {
			if !s.errOK(where+"/get", err) && s.failed {
				return
			}
			continue
		}
		want := model[k]
		if !bytes.Equal(got, want) || (got == nil) != (want == nil) {
			s.violate(s.cls("trie-get-mismatch"), where, "%s: Get(%s) = %s, reference map has %s (last mutation: %s)", where, hxs(k), hx(got), hx(want), s.lastMut)
			return
		}
	}
	// 2. iteration = sorted map
	want := make([][2]string, 0, len(model))
	for _, k := range sortedKeys(model) {
		want = append(want, [2]string{k, string(model[k])})
	}
	if got, ok := s.collect(where, v.Iterator()); ok {
		if !pairsEqual(got, want) {
			s.violate(s.cls("trie-iteration-mismatch"), where, "%s: iteration = [%s], sorted reference = [%s] (last mutation: %s)", where, fmtPairs(got), fmtPairs(want), s.lastMut)
			return
		}
	} else if s.failed {
		return
	}
	// 3. prefix filters
	nf := 1 + s.t.Choose("check.nfilter", 3)
	for i := 0; i < nf; i++ {
		var prefix []byte
		switch s.t.Weighted("prefix.mode", 5, 2, 2) {
		case 0:
			base := s.pool[s.t.Choose("prefix.base", len(s.pool))]
			prefix = append(prefix, base[:s.t.Choose("prefix.cut", len(base)+1)]...)
		case 1:
			base := s.pool[s.t.Choose("prefix.base", len(s.pool))]
			prefix = append(append(prefix, base...), trieAlphabet[s.t.Choose("key.b", len(trieAlphabet))])
		case 2:
			for j, l := 0, s.t.Range("prefix.len", 0, 3); j < l; j++ {
				prefix = append(prefix, trieAlphabet[s.t.Choose("key.b", len(trieAlphabet))])
			}
		}
		var wantF [][2]string
		for _, p := range want {
			if strings.HasPrefix(p[0], string(prefix)) {
				wantF = append(wantF, p)
			}
		}
		got, ok := s.collect(where, v.Filter(prefix))
		if !ok {
			if s.failed {
				return
			}
			continue
		}
		if len(wantF) > 0 && len(wantF) < len(want) {
			rc.Probe("filter_proper_subset")
		}
		if !pairsEqual(got, wantF) {
			s.violate(s.cls("trie-filter-mismatch"), where, "%s: Filter(%s) = [%s], reference = [%s]", where, hx(prefix), fmtPairs(got), fmtPairs(wantF))
			return
		}
	}
	// 4. emptiness and canonical root
	if v.Empty() != (len(model) == 0) {
		s.violate("trie-empty-mismatch", where, "%s: Empty() = %v but the reference map has %d pairs", where, v.Empty(), len(model))
		return
	}
	h := v.Hash()
	canon := canonicalTrieHash(model)
	if !bytes.Equal(h, canon) {
		s.violate("trie-root-not-canonical", where, "%s: root %s differs from the root %s of a trie built from scratch in key order from the same %d pairs (last mutation: %s)", where, hx(h), hx(canon), len(model), s.lastMut)
		return
	}
	if rec != nil {
		if rec.hashed && !bytes.Equal(rec.hash, h) {
			s.violate("trie-snapshot-changed", where, "%s: snapshot #%d root was %s, now %s", where, rec.id, hx(rec.hash), hx(h))
			return
		}
		rec.hash, rec.hashed = h, true
		if rec.agedBy > 0 {
			rc.Probe("snapshot_compared_after_later_mutation")
		}
	}
	if len(model) >= 2 {
		rc.Probe("full_check_nonempty")
	}
}

func pairsEqual(a, b [][2]string) bool {
	if len(a) != len(b) {
		return false
	}
	for i := range a {
		if a[i] != b[i] {
			return false
		}
	}
	return true
}

// ---- operations

func (s *trieSim) pickKey(preferExisting bool) string {
	if preferExisting && len(s.model) > 0 && s.t.Permille("key.existing", 800) {
		ks := sortedKeys(s.model)
		return ks[s.t.Choose("key.idx", len(ks))]
	}
	return string(s.pool[s.t.Choose("key.pool", len(s.pool))])
}

func (s *trieSim) poisoned(op string) {
	// Narrow relaxation (faults profile only): a Set/Delete that returned an
	// injected read error leaves the mutable's contents undefined; continue
	// from the newest snapshot (or an empty trie).
	s.rc.Probe("mutation_aborted_by_injected_error")
	if n := len(s.snaps); n > 0 {
		rec := s.snaps[n-1]
		s.mut = ompt.NewMutableFromImmutable(rec.s)
		s.model = copyMap(rec.model)
		s.rc.Event("  %s aborted by injected error: mutable continues from snapshot #%d", op, rec.id)
	} else {
		s.mut = ompt.NewMutable(s.db, nil)
		s.model = map[string][]byte{}
		s.rc.Event("  %s aborted by injected error: mutable continues empty", op)
	}
}

func (s *trieSim) aged() {
	s.mutations++
	for _, r := range s.snaps {
		r.agedBy++
	}
}

func (s *trieSim) opSet() {
	k := s.pickKey(false)
	v := s.newValue(k)
	s.begin(true, false)
	old, err := s.mut.Set([]byte(k), v)
	s.rc.Event("set %s := %s -> old=%s err=%v gets=%d", hxs(k), hx(v), hx(old), err != nil, s.store.gets)
	defer s.end()
	if err != nil {
		if !s.errOK("mutable/set", err) && !s.failed {
			s.poisoned("set")
		}
		return
	}
	want, had := s.model[k]
	if !bytes.Equal(old, want) || (old == nil) != !had {
		s.violate(s.cls("trie-old-value-mismatch"), "mutable/set", "Set(%s) returned old value %s, reference map had %s", hxs(k), hx(old), hx(want))
		return
	}
	before := s.model
	s.model = copyMap(before)
	s.model[k] = v
	if !had {
		s.structureProbes("set", k, before, s.model)
	}
	if s.cold && s.store.gets > 0 {
		s.rc.Probe("mutation_on_reloaded_trie")
	}
	s.lastMut = "set"
	s.aged()
}

func (s *trieSim) opDelete(existing bool) {
	k := s.pickKey(existing)
	s.begin(true, false)
	old, err := s.mut.Delete([]byte(k))
	s.rc.Event("delete %s -> old=%s err=%v gets=%d", hxs(k), hx(old), err != nil, s.store.gets)
	defer s.end()
	if err != nil {
		if !s.errOK("mutable/delete", err) && !s.failed {
			s.poisoned("delete")
		}
		return
	}
	want, had := s.model[k]
	if !bytes.Equal(old, want) || (old == nil) != !had {
		s.violate(s.cls("trie-old-value-mismatch"), "mutable/delete", "Delete(%s) returned old value %s, reference map had %s", hxs(k), hx(old), hx(want))
		return
	}
	if !had {
		s.rc.Probe("delete_absent_key")
		return
	}
	before := s.model
	s.model = copyMap(before)
	delete(s.model, k)
	s.structureProbes("delete", k, before, s.model)
	if len(s.model) == 0 {
		s.rc.Probe("trie_emptied")
	}
	if s.cold && s.store.gets > 0 {
		s.rc.Probe("mutation_on_reloaded_trie")
	}
	s.lastMut = "delete"
	s.deletes++
	s.aged()
}

func (s *trieSim) opGet() {
	k := s.pickKey(true)
	s.begin(true, false)
	defer s.end()
	got, err := s.mut.Get([]byte(k))
	s.rc.Event("get %s -> %s err=%v", hxs(k), hx(got), err != nil)
	if !s.errOK("mutable/get", err) {
		return
	}
	want := s.model[k]
	if !bytes.Equal(got, want) || (got == nil) != (want == nil) {
		s.violate(s.cls("trie-get-mismatch"), "mutable", "mutable Get(%s) = %s, reference map has %s (last mutation: %s)", hxs(k), hx(got), hx(want), s.lastMut)
	}
}

func (s *trieSim) opSnapshot() *snapRec {
	rec := &snapRec{id: s.nsnap, s: s.mut.GetSnapshot(), model: s.model}
	s.nsnap++
	s.snaps = append(s.snaps, rec)
	if len(s.snaps) > 5 {
		drop := s.t.Choose("snap.drop", len(s.snaps)-1)
		s.snaps = append(s.snaps[:drop], s.snaps[drop+1:]...)
	}
	s.rc.Event("snapshot #%d (%d pairs)", rec.id, len(rec.model))
	return rec
}

func (s *trieSim) pickSnap(label string) *snapRec {
	if len(s.snaps) == 0 {
		return s.opSnapshot()
	}
	return s.snaps[s.t.Choose(label, len(s.snaps))]
}

func (s *trieSim) opCheckSnap() {
	rec := s.pickSnap("snap.check")
	s.begin(true, false)
	defer s.end()
	s.rc.Event("check snapshot #%d aged=%d", rec.id, rec.agedBy)
	s.checkView("snapshot", rec.s, rec.model, rec)
}

func (s *trieSim) flush(rec *snapRec, retry bool) {
	if retry {
		s.store.arm(faultPlan{})
	} else {
		s.begin(false, true)
	}
	err := rec.s.Flush()
	s.rc.Event("flush snapshot #%d retry=%v -> err=%v sets=%d", rec.id, retry, err != nil, s.store.sets)
	injected := s.store.setErrs > 0
	s.end()
	if err != nil {
		if !injected {
			s.violate("trie-unexpected-error", "snapshot/flush", "Flush failed without any injected fault: %v", err)
			return
		}
		s.rc.Probe("flush_error_returned")
		if !retry && s.t.Permille("flush.retry", 700) {
			s.flush(rec, true)
			if rec.flushed {
				s.rc.Probe("flush_error_then_retry_ok")
			}
		}
		return
	}
	rec.flushed = true
	s.haveFlushed, s.flushedRoot, s.flushedModel = true, rec.s.Hash(), rec.model
	if !rec.hashed {
		rec.hash, rec.hashed = s.flushedRoot, true
	}
	if injected || s.t.Permille("flush.verify", 400) {
		// an acknowledged flush must be complete: a fresh view on the DB sees the reference contents
		s.store.arm(faultPlan{})
		s.rc.Event("  verify flushed root %s through a fresh view", hx(s.flushedRoot))
		s.checkView("fresh-view-after-flush", ompt.NewImmutable(s.db, s.flushedRoot), rec.model, nil)
		s.store.disarm()
		s.rc.Probe("reload_fresh_view")
	}
}

func (s *trieSim) opFlush() {
	rec := s.pickSnap("snap.flush")
	if rec.flushed {
		s.rc.Probe("flush_again")
	}
	s.flush(rec, false)
}

func (s *trieSim) opClearCache() {
	if len(s.snaps) > 0 && s.t.Permille("clear.snap", 400) {
		rec := s.snaps[s.t.Choose("snap.clear", len(s.snaps))]
		rec.s.ClearCache()
		s.rc.Event("clear-cache snapshot #%d flushed=%v", rec.id, rec.flushed)
		if rec.flushed {
			s.rc.Probe("clear_cache_flushed")
		}
		return
	}
	s.mut.ClearCache()
	s.cold = true
	s.rc.Event("clear-cache mutable")
	s.rc.Probe("clear_cache_mutable")
}

func (s *trieSim) flushedSnaps() []*snapRec {
	var fs []*snapRec
	for _, r := range s.snaps {
		if r.flushed {
			fs = append(fs, r)
		}
	}
	return fs
}

func (s *trieSim) opReload() {
	fs := s.flushedSnaps()
	if len(fs) == 0 {
		// nothing flushed: derive a new mutable from a snapshot object instead
		rec := s.pickSnap("snap.from")
		s.mut = ompt.NewMutableFromImmutable(rec.s)
		s.model = copyMap(rec.model)
		s.rc.Event("mutable := from snapshot #%d (not flushed)", rec.id)
		s.rc.Probe("mutable_from_immutable")
		return
	}
	rec := fs[s.t.Choose("snap.reload", len(fs))]
	s.mut = ompt.NewMutable(s.db, rec.hash)
	s.model = copyMap(rec.model)
	s.cold = true
	s.rc.Event("mutable := reload root %s of snapshot #%d from DB", hx(rec.hash), rec.id)
	s.rc.Probe("reload_mutable_from_db")
}

func (s *trieSim) opReset() {
	rec := s.pickSnap("snap.reset")
	if err := s.mut.Reset(rec.s); err != nil {
		s.violate("trie-unexpected-error", "mutable/reset", "Reset: %v", err)
		return
	}
	s.model = copyMap(rec.model)
	s.rc.Event("reset mutable to snapshot #%d aged=%d", rec.id, rec.agedBy)
	if rec.agedBy > 0 {
		s.rc.Probe("reset_after_mutation")
	}
}

func (s *trieSim) opDirtyRestart() {
	// discard every goloop object; the store keeps exactly its journal
	s.db = s.store.open()
	s.snaps = nil
	root := []byte(nil)
	s.model = map[string][]byte{}
	if s.haveFlushed {
		root = s.flushedRoot
		s.model = copyMap(s.flushedModel)
	}
	s.mut = ompt.NewMutable(s.db, root)
	s.cold = true
	s.rc.Event("dirty restart: reopen at last flushed root %s (%d pairs), journal=%d", hx(root), len(s.model), len(s.store.journal))
	s.rc.Probe("dirty_restart")
	if s.haveFlushed {
		s.rc.Probe("dirty_restart_with_flushed_root")
	}
	if s.t.Permille("restart.verify", 600) {
		s.store.arm(faultPlan{})
		s.checkView("dirty-restart", ompt.NewImmutable(s.db, root), s.model, nil)
		s.store.disarm()
	}
}

func (s *trieSim) opFreshView() {
	fs := s.flushedSnaps()
	if len(fs) == 0 {
		s.rc.Event("fresh view: nothing flushed")
		return
	}
	rec := fs[s.t.Choose("snap.view", len(fs))]
	s.begin(true, false)
	defer s.end()
	s.rc.Event("fresh immutable view of root %s (snapshot #%d)", hx(rec.hash), rec.id)
	s.checkView("fresh-view", ompt.NewImmutable(s.db, rec.hash), rec.model, nil)
	s.rc.Probe("reload_fresh_view")
}

func runTrie(rc *kit.RunCtx) {
	s := &trieSim{rc: rc, t: rc.Tape, faults: rc.Profile == "faults", store: newSimStore(), model: map[string][]byte{}}
	s.db = s.store.open()
	s.mut = ompt.NewMutable(s.db, nil)
	s.genPool()
	nops := opsRange(rc, 15, 70, 30, 160)
	rc.Config["pool"] = len(s.pool)
	rc.Config["nops"] = nops
	rc.Config["profile"] = rc.Profile
	for i := 0; i < nops && !s.failed; i++ {
		rc.Steps++
		switch s.t.Weighted("op", 30, 14, 3, 6, 8, 7, 7, 4, 5, 5, 3, 4) {
		case 0:
			s.opSet()
		case 1:
			s.opDelete(true)
		case 2:
			s.opDelete(false)
		case 3:
			s.opGet()
		case 4:
			s.opSnapshot()
		case 5:
			s.opCheckSnap()
		case 6:
			s.opFlush()
		case 7:
			s.opClearCache()
		case 8:
			s.opReload()
		case 9:
			s.opReset()
		case 10:
			s.opDirtyRestart()
		case 11:
			s.opFreshView()
		}
	}
	if s.failed {
		return
	}
	// final: the mutable (through a snapshot) and every live snapshot, fault-free
	s.store.arm(faultPlan{})
	rc.Event("final check: mutable + %d snapshots", len(s.snaps))
	last := s.opSnapshot()
	for _, rec := range s.snaps {
		if s.failed {
			break
		}
		where := "snapshot"
		if rec == last {
			where = "mutable"
		}
		s.checkView(where, rec.s, rec.model, rec)
	}
	s.store.disarm()
	if !s.failed {
		s.checkStoreIsJournal()
	}
	rc.Metric("mutations", int64(s.mutations))
	rc.Metric("full_checks", int64(s.fullChecks))
	rc.Metric("journal_entries", int64(len(s.store.journal)))
	rc.Nontrivial = s.mutations >= 3 && s.fullChecks >= 1
}

// checkStoreIsJournal is a harness self-check: the map store holds exactly the
// replay of the journal.
func (s *trieSim) checkStoreIsJournal() {
	for k, v := range s.store.replayJournal() {
		i := strings.IndexByte(k, '|')
		if got := s.store.rawGet(db.BucketID(k[:i]), []byte(k[i+1:])); !bytes.Equal(got, v) {
			panic("storesim: simdb store differs from its journal")
		}
	}
}
