package storesim

import (
	"bytes"
	"fmt"
	"math/bits"

	"github.com/icon-project/goloop/common/crypto"
	"github.com/icon-project/goloop/common/db"
	"github.com/icon-project/goloop/common/trie/mta"

	"verif/sim/kit"
)

// ---------------------------------------------------------------------------
// C27: the merkle accumulator works for every length, persists and recovers.
//
// Reference: the list of item hashes. Independent merkle-mountain-range
// computation: for length n the items are covered, oldest first, by one perfect
// binary tree per set bit of n (largest first); the root of a perfect tree is
// H(left||right) recursively. A witness for item i must fold (with the stated
// directions) from the item hash to the root of the mountain containing i and
// must have exactly that mountain's height; goloop's own Verify must agree, and
// must reject the same witness for a different item hash.
// ---------------------------------------------------------------------------

func h2(l, r []byte) []byte {
	buf := make([]byte, 0, len(l)+len(r))
	buf = append(append(buf, l...), r...)
	return crypto.SHA3Sum256(buf)
}

func perfectRoot(leaves [][]byte) []byte {
	if len(leaves) == 1 {
		return leaves[0]
	}
	m := len(leaves) / 2
	return h2(perfectRoot(leaves[:m]), perfectRoot(leaves[m:]))
}

// mountain returns start index and height of the perfect tree that contains item i when n items were appended.
func mountain(n, i int) (start, height int) {
	for h := bits.Len(uint(n)) - 1; h >= 0; h-- {
		if n&(1<<h) == 0 {
			continue
		}
		if i < start+(1<<h) {
			return start, h
		}
		start += 1 << h
	}
	panic("index out of range")
}

type mtaSim struct {
	rc     *kit.RunCtx
	t      *kit.Tape
	faults bool

	store *simStore
	sdb   *simDB
	acc   *mta.Accumulator
	items [][]byte // item hashes, in append order

	flushedLen  int
	haveFlushed bool
	recovered   bool // roots are (partly) hash nodes resolved from the DB
	rootCache   map[[2]int][]byte

	adds, witnessChecks, flushes int
	failed                       bool
}

var mtaStateKey = []byte("acc-state")

func (s *mtaSim) violate(class, sig, format string, args ...any) {
	s.failed = true
	s.rc.Violate(class, sig, format, args...)
}

func (s *mtaSim) newAcc() *mta.Accumulator {
	bk, err := s.sdb.GetBucket(db.MerkleTrie)
	if err != nil {
		panic(err)
	}
	return &mta.Accumulator{KeyForState: mtaStateKey, Bucket: bk}
}

func (s *mtaSim) begin(kGet, kSet int) { s.store.arm(drawFault(s.rc, s.faults, kGet, kSet, false)) }

func (s *mtaSim) end() bool {
	inj := s.store.getErrs+s.store.setErrs > 0
	if s.store.getErrs > 0 {
		s.rc.Fault("db_get_error")
	}
	if s.store.setErrs > 0 {
		s.rc.Fault("db_set_error")
	}
	s.store.disarm()
	return inj
}

func (s *mtaSim) mountainRoot(n, start, height int) []byte {
	key := [2]int{start, height}
	if r, ok := s.rootCache[key]; ok {
		return r
	}
	r := perfectRoot(s.items[start : start+(1<<height)])
	s.rootCache[key] = r
	return r
}

func shapeOf(n int) string {
	// signature of a length: which root slots are empty below the top one
	if n == 0 {
		return "len=0"
	}
	if n&(n+1) == 0 {
		return "all-slots-full"
	}
	if n&(n-1) == 0 {
		return "single-root-with-empty-slots"
	}
	return "mixed-empty-slots"
}

// checkWitness verifies one witness independently and through goloop's Verify.
func (s *mtaSim) checkWitness(where string, i int, w []mta.Witness) bool {
	n := len(s.items)
	start, height := mountain(n, i)
	if len(w) != height {
		s.violate("mta-witness-invalid", where, "%s: length %d (%s): witness for item %d has %d entries, the mountain containing it has height %d", where, n, shapeOf(n), i, len(w), height)
		return false
	}
	h := s.items[i]
	for _, e := range w {
		switch e.Direction {
		case mta.Left:
			h = h2(e.HashValue, h)
		case mta.Right:
			h = h2(h, e.HashValue)
		default:
			s.violate("mta-witness-invalid", where, "%s: witness entry with direction %v", where, e.Direction)
			return false
		}
	}
	if root := s.mountainRoot(n, start, height); !bytes.Equal(h, root) {
		s.violate("mta-witness-invalid", where, "%s: length %d (%s): witness for item %d folds to %s, the independently computed root of its mountain [%d,%d) is %s", where, n, shapeOf(n), i, hx(h), start, start+(1<<height), hx(root))
		return false
	}
	if err := s.acc.Verify(w, s.items[i]); err != nil {
		s.violate("mta-verify-rejects-valid", where, "%s: length %d (%s): Verify rejects the (independently valid) witness of item %d: %v", where, n, shapeOf(n), i, err)
		return false
	}
	wrong := append([]byte(nil), s.items[i]...)
	wrong[0] ^= 1
	if err := s.acc.Verify(w, wrong); err == nil {
		s.violate("mta-verify-accepts-invalid", where, "%s: length %d: Verify accepts the witness of item %d for a different item hash", where, n, i)
		return false
	}
	s.witnessChecks++
	return true
}

func (s *mtaSim) witnessFor(where string, i int, faulty bool) ([]mta.Witness, bool) {
	if faulty {
		s.begin(3, 0)
	} else {
		s.store.arm(faultPlan{})
	}
	w, err := s.acc.WitnessFor(int64(i))
	loaded := s.store.gets > 0
	inj := s.end()
	if err != nil {
		if inj {
			s.rc.Probe("error_surfaced_after_injection")
			return nil, false
		}
		n := len(s.items)
		s.violate("mta-witness-failed", where, "%s: length %d (%s): WitnessFor(%d) failed: %v", where, n, shapeOf(n), i, err)
		return nil, false
	}
	if loaded {
		s.rc.Probe("witness_resolved_from_db")
	}
	return w, true
}

func (s *mtaSim) checkLen(where string) bool {
	if int(s.acc.Len()) != len(s.items) {
		s.violate("mta-length-mismatch", where, "%s: Len() = %d, %d items were appended/recovered", where, s.acc.Len(), len(s.items))
		return false
	}
	return true
}

func (s *mtaSim) opAdd() {
	burst := 1
	switch s.t.Weighted("add.burst", 5, 3, 2) {
	case 1:
		burst = 1 + s.t.Choose("add.n", 8)
	case 2:
		burst = 1 + s.t.Choose("add.big", 64)
	}
	s.rc.Event("add %d items (length %d -> %d)", burst, len(s.items), len(s.items)+burst)
	for j := 0; j < burst && !s.failed; j++ {
		seq := len(s.items)
		d := []byte(fmt.Sprintf("item-%d-%d", seq, s.adds))
		s.adds++
		var w []mta.Witness
		if s.t.Permille("add.hash", 250) {
			hv := crypto.SHA3Sum256(d)
			w = s.acc.AddHash(hv)
			s.items = append(s.items, hv)
			s.rc.Probe("add_hash")
		} else {
			w = s.acc.AddData(d)
			s.items = append(s.items, crypto.SHA3Sum256(d))
		}
		n := len(s.items)
		if tz := bits.TrailingZeros(uint(n)); tz >= 1 {
			s.rc.Probe(fmt.Sprintf("carry_%d", min(tz, 6)))
		}
		if !s.checkLen("add") {
			return
		}
		// the witness returned by the add verifies against the roots after the add
		if !s.checkWitness("add", n-1, w) {
			return
		}
	}
	if n := len(s.items); n >= 128 {
		s.rc.Probe("length_ge_128")
	}
}

func (s *mtaSim) opVerifyAll(where string, faulty bool) {
	n := len(s.items)
	s.rc.Event("verify all %d witnesses (%s)", n, where)
	if !s.checkLen(where) {
		return
	}
	for i := 0; i < n; i++ {
		w, ok := s.witnessFor(where, i, faulty)
		if s.failed {
			return
		}
		if ok && !s.checkWitness(where, i, w) {
			return
		}
	}
	if n > 0 && n&(n+1) != 0 {
		s.rc.Probe("verified_all_with_empty_slot")
	}
	if n > 0 {
		s.rc.Probe("verified_all")
	}
}

func (s *mtaSim) opVerifySome() {
	n := len(s.items)
	if n == 0 {
		if _, err := s.acc.WitnessFor(0); err == nil {
			s.violate("mta-witness-invalid", "empty", "WitnessFor(0) on an empty accumulator succeeded")
		}
		return
	}
	k := 1 + s.t.Choose("verify.k", 4)
	for j := 0; j < k && !s.failed; j++ {
		var i int
		switch s.t.Weighted("verify.which", 2, 2, 2) {
		case 0:
			i = n - 1 - s.t.Choose("verify.back", min(n, 4))
		case 1:
			i = s.t.Choose("verify.front", min(n, 4))
		case 2:
			i = s.t.Choose("verify.any", n)
		}
		s.rc.Event("verify witness of item %d at length %d", i, n)
		if w, ok := s.witnessFor("verify", i, s.faults); ok {
			s.checkWitness("verify", i, w)
		}
	}
}

func (s *mtaSim) flush(retry bool) bool {
	if retry {
		s.store.arm(faultPlan{})
	} else {
		s.begin(0, 6)
	}
	n := len(s.items)
	err := s.acc.Flush()
	sets := s.store.sets
	inj := s.end()
	s.rc.Event("flush at length %d retry=%v -> err=%v sets=%d", n, retry, err != nil, sets)
	if err != nil {
		if !inj {
			s.violate("mta-flush-failed", "flush", "length %d (%s): Flush failed: %v", n, shapeOf(n), err)
			return false
		}
		s.rc.Probe("flush_error_returned")
		if !retry && s.t.Permille("flush.retry", 700) {
			if s.flush(true) {
				s.rc.Probe("flush_error_then_retry_ok")
				return true
			}
		}
		return false
	}
	s.flushes++
	s.flushedLen, s.haveFlushed = n, true
	if n > 0 && n&(n+1) != 0 {
		s.rc.Probe("flush_with_empty_slot")
	}
	return true
}

func (s *mtaSim) recoverAcc(where string) bool {
	// a fresh accumulator object on the same bucket
	acc := s.newAcc()
	for attempt := 0; ; attempt++ {
		if attempt == 0 {
			s.begin(1, 0)
		} else {
			s.store.arm(faultPlan{})
		}
		err := acc.Recover()
		inj := s.end()
		if err == nil {
			break
		}
		if !inj {
			s.violate("mta-recover-failed", where, "Recover failed: %v", err)
			return false
		}
		s.rc.Probe("recover_error_then_retry")
	}
	s.acc = acc
	s.recovered = true
	return true
}

func (s *mtaSim) opFlushRecover() {
	if !s.flush(false) {
		return
	}
	// remember some witnesses, recover into a fresh object, compare
	n := len(s.items)
	var idx []int
	var before [][]mta.Witness
	if n > 0 {
		for j, k := 0, 1+s.t.Choose("fr.k", 3); j < k; j++ {
			i := s.t.Choose("fr.i", n)
			if w, ok := s.witnessFor("before-recover", i, false); ok {
				idx, before = append(idx, i), append(before, w)
			} else if s.failed {
				return
			}
		}
	}
	s.rc.Event("recover into a fresh accumulator at length %d", n)
	if !s.recoverAcc("flush+recover") || !s.checkLen("flush+recover") {
		return
	}
	for j, i := range idx {
		w, ok := s.witnessFor("after-recover", i, false)
		if !ok {
			return
		}
		if !sameWitness(w, before[j]) {
			s.violate("mta-witness-changed", "after-recover", "length %d: witness of item %d differs after Flush+Recover", n, i)
			return
		}
		if !s.checkWitness("after-recover", i, w) {
			return
		}
	}
	s.rc.Probe("flush_recover")
	if n > 0 && n&(n+1) != 0 {
		s.rc.Probe("recover_with_empty_slot")
	}
	if s.t.Permille("fr.all", 400) {
		s.opVerifyAll("after-recover", false)
	}
}

func sameWitness(a, b []mta.Witness) bool {
	if len(a) != len(b) {
		return false
	}
	for i := range a {
		if a[i].Direction != b[i].Direction || !bytes.Equal(a[i].HashValue, b[i].HashValue) {
			return false
		}
	}
	return true
}

func (s *mtaSim) opDirtyRestart() {
	lost := len(s.items) - s.flushedLen
	s.sdb = s.store.open()
	s.items = s.items[:s.flushedLen]
	s.rootCache = map[[2]int][]byte{}
	s.rc.Event("dirty restart: recover the state of the last flush (length %d, %d unflushed items lost)", s.flushedLen, lost)
	if !s.recoverAcc("dirty-restart") || !s.checkLen("dirty-restart") {
		return
	}
	s.rc.Probe("dirty_restart")
	if s.haveFlushed && s.flushedLen > 0 {
		s.rc.Probe("dirty_restart_with_flushed_state")
	}
	if lost > 0 {
		s.rc.Probe("dirty_restart_lost_unflushed")
	}
	if s.t.Permille("restart.verify", 700) {
		s.opVerifyAll("dirty-restart", false)
	}
}

func runMTA(rc *kit.RunCtx) {
	s := &mtaSim{rc: rc, t: rc.Tape, faults: rc.Profile == "faults", store: newSimStore(), rootCache: map[[2]int][]byte{}}
	s.sdb = s.store.open()
	s.acc = s.newAcc()
	nops := opsRange(rc, 2, 40, 10, 80)
	rc.Config["nops"] = nops
	rc.Config["profile"] = rc.Profile
	maxLen := 0
	for n := 0; n < nops && !s.failed; n++ {
		rc.Steps++
		switch s.t.Weighted("op", 30, 12, 6, 8, 8, 4) {
		case 0:
			if len(s.items) < 320 {
				s.opAdd()
			}
		case 1:
			s.opVerifySome()
		case 2:
			s.opVerifyAll("verify-all", s.faults)
		case 3:
			s.flush(false)
		case 4:
			s.opFlushRecover()
		case 5:
			s.opDirtyRestart()
		}
		maxLen = max(maxLen, len(s.items))
	}
	if s.failed {
		return
	}
	s.opVerifyAll("final", false)
	if s.failed {
		return
	}
	// final persist/recover cycle
	if s.flush(true) {
		s.rc.Event("final recover")
		if s.recoverAcc("final") && s.checkLen("final") {
			s.opVerifyAll("final-after-recover", false)
		}
	}
	rc.Config["max_len"] = maxLen
	rc.Metric("adds", int64(s.adds))
	rc.Metric("witness_checks", int64(s.witnessChecks))
	rc.Metric("flushes", int64(s.flushes))
	rc.Nontrivial = maxLen >= 2 && s.witnessChecks >= 2
}
