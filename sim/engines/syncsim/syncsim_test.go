package syncsim

import (
	"bytes"
	"fmt"
	"math/big"
	"reflect"
	"sort"
	"testing"

	"github.com/icon-project/goloop/common"
	"github.com/icon-project/goloop/common/crypto"
	"github.com/icon-project/goloop/common/db"
	"github.com/icon-project/goloop/common/log"
	"github.com/icon-project/goloop/common/merkle"
	"github.com/icon-project/goloop/common/trie"
	"github.com/icon-project/goloop/common/trie/trie_manager"
	"github.com/icon-project/goloop/module"
	"github.com/icon-project/goloop/service/state"

	"verif/sim/kit"
)

type engine struct{ t *testing.T }

func (engine) Name() string { return "syncsim" }

func TestWorker(t *testing.T) {
	log.GlobalLogger().SetLevel(log.FatalLevel)
	log.GlobalLogger().SetConsoleLevel(log.FatalLevel)
	if err := kit.WorkerMain(engine{t}); err != nil {
		t.Fatal(err)
	}
}

func (e engine) Run(rc *kit.RunCtx) {
	switch rc.Profile {
	case "sync2":
		e.runSync2(rc)
	default:
		runLayer1(rc)
	}
}

// ---------------------------------------------------------------------------
// pointer object: a trie value that is the hash of a blob kept in BytesByHash
// (the shape receipts/contract code have: trie leaf -> separately stored data).

type ptrObject struct {
	bk    db.Bucket
	hash  []byte
	data  []byte
	dirty bool
}

var ptrType = reflect.TypeOf((*ptrObject)(nil))

func newPtrObject(d db.Database, data []byte) *ptrObject {
	bk, _ := d.GetBucket(db.BytesByHash)
	return &ptrObject{bk: bk, data: data, hash: crypto.SHA3Sum256(data), dirty: true}
}

func (o *ptrObject) Bytes() []byte { return o.hash }
func (o *ptrObject) Reset(d db.Database, k []byte) error {
	bk, err := d.GetBucket(db.BytesByHash)
	if err != nil {
		return err
	}
	o.bk, o.hash = bk, k
	return nil
}
func (o *ptrObject) Flush() error {
	if o.dirty {
		if err := o.bk.Set(o.hash, o.data); err != nil {
			return err
		}
		o.dirty = false
	}
	return nil
}
func (o *ptrObject) Equal(x trie.Object) bool {
	o2, ok := x.(*ptrObject)
	return ok && bytes.Equal(o.hash, o2.hash)
}
func (o *ptrObject) Resolve(b merkle.Builder) error {
	v, err := o.bk.Get(o.hash)
	if err != nil {
		return err
	}
	if v == nil {
		b.RequestData(db.BytesByHash, o.hash, o)
	} else {
		o.data = v
	}
	return nil
}
func (o *ptrObject) OnData(bs []byte, b merkle.Builder) error { o.data = bs; return nil }
func (o *ptrObject) ClearCache()                              {}
func (o *ptrObject) Data() ([]byte, error) {
	if o.data == nil {
		return o.bk.Get(o.hash)
	}
	return o.data, nil
}

// ---------------------------------------------------------------------------
// source state

type accModel struct {
	id       []byte
	balance  *big.Int
	storage  map[string][]byte
	contract bool
	code     []byte
	nextCode []byte
	graph    []byte
}

type source struct {
	db        *jdb
	accs      []*accModel
	vals      []module.Address
	extra     map[string][]byte
	objs      map[string][]byte
	stateHash []byte
	vlHash    []byte
	extraRoot []byte
	objRoot   []byte
}

var keyAlphabet = []byte{0x00, 0x01, 0x10, 0x11, 0xa0, 0xff}

func drawKey(t *kit.Tape, label string) []byte {
	n := 1 + t.Choose(label+".len", 3)
	k := make([]byte, n)
	for i := range k {
		k[i] = keyAlphabet[t.Choose(label+".b", len(keyAlphabet))]
	}
	return k
}

func drawValue(t *kit.Tape, label string) []byte {
	var n int
	switch t.Weighted(label+".size", 4, 3, 2) {
	case 0:
		n = 1 + t.Choose(label+".s", 8)
	case 1:
		n = 20 + t.Choose(label+".m", 21)
	default:
		n = 50 + t.Choose(label+".l", 71)
	}
	v := t.Bytes(label+".v", n)
	if v[0] == 0 {
		v[0] = 1
	}
	return v
}

func must(err error) {
	if err != nil {
		panic(err)
	}
}

func buildSource(rc *kit.RunCtx) *source {
	t := rc.Tape
	s := &source{db: newJDB(), extra: map[string][]byte{}, objs: map[string][]byte{}}
	ws := state.NewWorldState(s.db, nil, nil, nil, nil)
	nacc := 2 + t.Choose("naccounts", 3)
	for i := 0; i < nacc; i++ {
		a := &accModel{storage: map[string][]byte{}}
		a.id = append([]byte{byte(i + 1)}, t.Bytes("acc.id", 19)...)
		a.balance = new(big.Int).SetBytes(t.Bytes("acc.bal", 1+t.Choose("acc.ballen", 12)))
		nkv := t.Choose("acc.nkv", 11)
		if i > 0 && t.Permille("acc.samestore", 120) {
			// identical storage in two accounts: the same sub-trie is requested twice
			for k, v := range s.accs[i-1].storage {
				a.storage[k] = v
			}
		} else {
			for j := 0; j < nkv; j++ {
				a.storage[string(drawKey(t, "acc.k"))] = drawValue(t, "acc.v")
			}
		}
		if t.Permille("acc.contract", 400) {
			a.contract = true
			if i > 0 && s.accs[i-1].code != nil && t.Permille("acc.samecode", 300) {
				a.code = s.accs[i-1].code
			} else {
				a.code = t.Bytes("acc.code", 40+t.Choose("acc.codelen", 100))
			}
			if t.Permille("acc.next", 300) {
				a.nextCode = t.Bytes("acc.ncode", 40+t.Choose("acc.ncodelen", 60))
			}
			if t.Permille("acc.graph", 400) {
				a.graph = t.Bytes("acc.graph", 10+t.Choose("acc.graphlen", 60))
			}
		}
		s.accs = append(s.accs, a)
	}
	apply := func(a *accModel) {
		as := ws.GetAccountState(a.id)
		as.SetBalance(a.balance)
		keys := make([]string, 0, len(a.storage))
		for k := range a.storage {
			keys = append(keys, k)
		}
		sort.Strings(keys)
		for _, k := range keys {
			_, err := as.SetValue([]byte(k), a.storage[k])
			must(err)
		}
		if a.contract && as.Contract() == nil {
			as.InitContractAccount(common.NewAccountAddress(a.id))
			tx := crypto.SHA3Sum256(append([]byte("deploy"), a.id...))
			_, err := as.DeployContract(a.code, state.JavaEE, "application/java", nil, tx)
			must(err)
			must(as.AcceptContract(tx, crypto.SHA3Sum256(append([]byte("audit"), a.id...))))
			if a.nextCode != nil {
				_, err := as.DeployContract(a.nextCode, state.JavaEE, "application/java", []byte{0x01}, crypto.SHA3Sum256(append([]byte("deploy2"), a.id...)))
				must(err)
			}
			if a.graph != nil {
				must(as.SetObjGraph(as.Contract().CodeID(), true, 7, a.graph))
			}
		}
	}
	for _, a := range s.accs {
		apply(a)
	}
	nval := t.Choose("nvalidators", 4)
	var vl []module.Validator
	for i := 0; i < nval; i++ {
		addr := common.NewAccountAddress(append([]byte{0xee, byte(i)}, t.Bytes("val", 18)...))
		v, err := state.ValidatorFromAddress(addr)
		must(err)
		vl = append(vl, v)
		s.vals = append(s.vals, addr)
	}
	must(ws.GetValidatorState().Set(vl))
	wss := ws.GetSnapshot()
	must(wss.Flush())
	// a second generation on top: leaves stale nodes in the source DB that are
	// NOT part of the trusted state (so "B == reachable" is stricter than "B == A")
	nmut := t.Choose("src.mutations", 4)
	for m := 0; m < nmut; m++ {
		a := s.accs[t.Choose("src.mut.acc", len(s.accs))]
		if len(a.storage) > 0 && t.Permille("src.mut.del", 300) {
			keys := make([]string, 0, len(a.storage))
			for k := range a.storage {
				keys = append(keys, k)
			}
			sort.Strings(keys)
			k := keys[t.Choose("src.mut.key", len(keys))]
			delete(a.storage, k)
			_, err := ws.GetAccountState(a.id).DeleteValue([]byte(k))
			must(err)
		} else {
			k, v := drawKey(t, "src.mut.k"), drawValue(t, "src.mut.v")
			a.storage[string(k)] = v
			_, err := ws.GetAccountState(a.id).SetValue(k, v)
			must(err)
		}
	}
	if nmut > 0 {
		wss = ws.GetSnapshot()
		must(wss.Flush())
	}
	s.stateHash = wss.StateHash()
	s.vlHash = wss.GetValidatorSnapshot().Hash()

	// an extra plain bytes trie with short keys (embedded nodes, extensions, branch values)
	nx := t.Choose("extra.n", 13)
	if nx > 0 {
		mt := trie_manager.NewMutable(s.db, nil)
		for i := 0; i < nx; i++ {
			k, v := drawKey(t, "extra.k"), drawValue(t, "extra.v")
			s.extra[string(k)] = v
			_, err := mt.Set(k, v)
			must(err)
		}
		sn := mt.GetSnapshot()
		must(sn.Flush())
		s.extraRoot = sn.Hash()
	}
	// an object trie whose leaves point at blobs
	no := t.Choose("obj.n", 7)
	if no > 0 {
		mt := trie_manager.NewMutableForObject(s.db, nil, ptrType)
		for i := 0; i < no; i++ {
			k := drawKey(t, "obj.k")
			var v []byte
			if i > 0 && t.Permille("obj.alias", 100) && len(s.db.journal) > 0 {
				// blob equal to the serialisation of a trie node: one hash, two buckets
				for _, e := range s.db.journal {
					if e.bk == db.MerkleTrie && !e.del {
						v = []byte(e.val)
						break
					}
				}
			}
			if v == nil {
				v = drawValue(t, "obj.v")
			}
			s.objs[string(k)] = v
			_, err := mt.Set(k, newPtrObject(s.db, v))
			must(err)
		}
		sn := mt.GetSnapshot()
		must(sn.Flush())
		s.objRoot = sn.Hash()
	}
	return s
}

// foreignPayloads builds another, unrelated trie in its own DB and returns its stored values.
func foreignPayloads(t *kit.Tape) [][]byte {
	d := newJDB()
	mt := trie_manager.NewMutable(d, nil)
	n := 2 + t.Choose("foreign.n", 5)
	for i := 0; i < n; i++ {
		_, err := mt.Set(drawKey(t, "foreign.k"), append([]byte("foreign"), drawValue(t, "foreign.v")...))
		must(err)
	}
	sn := mt.GetSnapshot()
	must(sn.Flush())
	var out [][]byte
	for _, e := range d.journal {
		out = append(out, []byte(e.val))
	}
	return out
}

// ---------------------------------------------------------------------------
// the syncing side + oracle

type pend struct {
	key  string
	bids []db.BucketID
}

type sim struct {
	rc  *kit.RunCtx
	src *source
	ref *walker // reachable set of the trusted state (independent walk of A)
	B   *jdb

	builder merkle.Builder
	wss     state.WorldSnapshot
	extra   trie.Immutable
	objs    trie.ImmutableForObject

	accepted      map[ref]string // what the store may (and must) hold
	acceptedOrder []ref
	universe      map[ref]bool
	universeOrder []ref
	journalSeen   int
	restarts      int
	flushed       bool
	adversarial   int
	rejected      int
	// resumedPartial: the current builder was started over a non-empty, incomplete
	// store (outside the property's "only a trusted root hash"); stuck: such a
	// builder ended with nothing outstanding although the store is incomplete.
	resumedPartial bool
	stuck          bool
	raw            bool // profile rawfaults: builder directly on B, transient write errors injected
	failedWrites   int
	failedPending  map[string]bool // requests whose last delivery was hit by an injected write error
}

func (s *sim) startBuilder() {
	if s.raw && s.rc.Tape.Permille("read.fail.start", 150) {
		// a transient read error while the roots are looked up in the local store
		rinj0 := s.B.injectedReads
		s.B.readFailAt = 1 + s.rc.Tape.Choose("read.fail.start.at", 4)
		err := s.startBuilderOnce()
		s.B.readFailAt = 0
		if s.B.injectedReads > rinj0 {
			s.rc.Fault("read_error")
			if err != nil {
				// the start failed loudly: the caller starts again
				s.rc.Probe("start_failed_on_read_error")
				s.rc.Event("builder start failed: %v (injected read error); starting again", err)
				must(s.startBuilderOnce())
				return
			}
			// what could not be read may be requested although it is present
			if s.failedPending == nil {
				s.failedPending = map[string]bool{}
			}
			for _, p := range s.pending() {
				s.failedPending[p.key] = true
			}
			return
		}
		must(err)
		return
	}
	must(s.startBuilderOnce())
}

func (s *sim) startBuilderOnce() error {
	if s.raw {
		// the builder writes straight into the local store (as sync2 does in its no-buffer mode and the
		// data syncers do): a failing write is visible to it
		s.builder = merkle.NewBuilderWithRawDatabase(s.B)
	} else {
		s.builder = merkle.NewBuilder(s.B)
	}
	wss, err := state.NewWorldSnapshotWithBuilder(s.builder, s.src.stateHash, s.src.vlHash, nil, nil)
	if err != nil {
		return err
	}
	s.wss = wss
	s.extra, s.objs = nil, nil
	if s.src.extraRoot != nil {
		s.extra = trie_manager.NewImmutable(s.builder.Database(), s.src.extraRoot)
		s.extra.Resolve(s.builder)
	}
	if s.src.objRoot != nil {
		s.objs = trie_manager.NewImmutableForObject(s.builder.Database(), s.src.objRoot, ptrType)
		s.objs.Resolve(s.builder)
	}
	s.flushed = false
	return nil
}

func (s *sim) pending() []pend {
	var ps []pend
	it := s.builder.Requests()
	for it.Next() {
		ps = append(ps, pend{string(it.Key()), append([]db.BucketID(nil), it.BucketIDs()...)})
	}
	return ps
}

func (s *sim) touch(r ref) {
	if !s.universe[r] {
		s.universe[r] = true
		s.universeOrder = append(s.universeOrder, r)
	}
}

func (s *sim) viewGet(r ref) []byte {
	bk, err := s.builder.Database().GetBucket(r.bk)
	must(err)
	v, err := bk.Get([]byte(r.key))
	must(err)
	return v
}

func short(k string) string {
	if len(k) > 4 {
		k = k[:4]
	}
	return fmt.Sprintf("%x", k)
}

var buckets = []db.BucketID{db.MerkleTrie, db.BytesByHash}

// deliver hands one payload to the builder and checks the acceptance oracle.
func (s *sim) deliver(kind string, bid db.BucketID, value []byte) {
	rc := s.rc
	ps := s.pending()
	var want *pend
	var h string
	if bid.Hasher() != nil {
		h = string(crypto.SHA3Sum256(value))
		for i := range ps {
			if ps[i].key == h {
				want = &ps[i]
			}
		}
		for _, b := range buckets {
			s.touch(ref{b, h})
		}
	}
	inj0 := s.B.injected
	if s.raw && want != nil && rc.Tape.Permille("write.fail", 120) {
		s.B.failAt = 1 + rc.Tape.Choose("write.fail.at", len(want.bids))
	}
	rinj0 := s.B.injectedReads
	if s.raw && want != nil && s.B.failAt == 0 && rc.Tape.Permille("read.fail", 120) {
		// a transient read error while the delivered node's children are looked up in the local store
		s.B.readFailAt = 1 + rc.Tape.Choose("read.fail.at", 6)
	}
	err := s.builder.OnData(bid, value)
	s.B.failAt, s.B.readFailAt = 0, 0
	if s.B.injectedReads > rinj0 {
		// Narrow relaxation: what could not be read may be requested although it is present; the delivery
		// itself may fail (then its request must stay outstanding). Nothing may be left out.
		rc.Fault("read_error")
		if s.failedPending == nil {
			s.failedPending = map[string]bool{}
		}
		before := map[string]bool{}
		for _, p := range ps {
			before[p.key] = true
		}
		for _, p := range s.pending() {
			if !before[p.key] {
				s.failedPending[p.key] = true
			}
		}
		if want != nil && err != nil {
			rc.Event("deliver %s bk=%q h=%s len=%d -> %v (injected read error)", kind, string(bid), short(h), len(value), err)
			still := false
			for _, p := range s.pending() {
				if p.key == h {
					still = true
				}
			}
			if !still {
				rc.Violate("failed-delivery-dropped-request", kind+"/read-error", "OnData(%q, hash %x) failed with %v (injected read error) and the request is no longer outstanding", string(bid), h, err)
				return
			}
			for _, b := range want.bids {
				if s.B.get(b, h) != nil {
					r := ref{b, h}
					if _, ok := s.accepted[r]; !ok {
						s.acceptedOrder = append(s.acceptedOrder, r)
					}
					s.accepted[r] = string(value)
				}
			}
			s.failedPending[h] = true
			s.check(kind + "/read-error")
			return
		}
	}
	rc.Steps++
	rc.Event("deliver %s bk=%q h=%s len=%d -> %v", kind, string(bid), short(h), len(value), err)
	if want != nil && s.B.injected > inj0 {
		// An injected write error hit this delivery. Narrow relaxation: the delivery may fail and may have
		// stored the value for some of its buckets only; but it must report the failure, and the request
		// must stay outstanding (it can be delivered again) - otherwise "nothing outstanding" would no
		// longer mean "complete". Everything else is judged as usual by check().
		rc.Fault("write_error")
		s.failedWrites++
		if err == nil {
			rc.Violate("write-error-swallowed", kind, "a write of OnData(%q, hash %x) failed but OnData reported success", string(bid), h)
			return
		}
		still := false
		for _, p := range s.pending() {
			if p.key == h {
				still = true
			}
		}
		for _, b := range want.bids {
			r := ref{b, h}
			if s.B.get(b, h) != nil {
				if _, ok := s.accepted[r]; !ok {
					s.acceptedOrder = append(s.acceptedOrder, r)
				}
				s.accepted[r] = string(value)
			}
		}
		if !still {
			rc.Violate("failed-delivery-dropped-request", kind, "OnData(%q, hash %x) failed with %v (injected write error) and the request is no longer outstanding: it can never be delivered again", string(bid), h, err)
			return
		}
		rc.Probe("failed_delivery_kept_request")
		if s.failedPending == nil {
			s.failedPending = map[string]bool{}
		}
		s.failedPending[h] = true
		s.check(kind + "/write-error")
		return
	}
	if want != nil {
		if err == nil {
			delete(s.failedPending, h)
		}
		if err != nil {
			rc.Violate("requested-data-refused", kind, "OnData(%q, %d bytes, hash %x) is pending but was refused: %v", string(bid), len(value), h, err)
			return
		}
		for _, b := range want.bids {
			r := ref{b, h}
			if _, ok := s.accepted[r]; !ok {
				s.acceptedOrder = append(s.acceptedOrder, r)
			}
			s.accepted[r] = string(value)
		}
	} else {
		if err == nil {
			rc.Violate("unrequested-data-accepted", kind, "OnData(%q, %d bytes, hash %x) was accepted although no request for that hash is outstanding", string(bid), len(value), h)
			return
		}
		s.rejected++
		switch kind {
		case "forged":
			rc.Probe("forged_rejected")
		case "foreign", "random", "premature", "nohasher":
			rc.Probe("unrequested_rejected")
		case "duplicate":
			rc.Probe("duplicate_delivery")
		}
		if bid.Hasher() != nil && err != merkle.ErrNoRequester {
			// judge the store first: a refusal that nevertheless stored something is the worse failure
			s.check(kind)
			if !rc.Failed() {
				rc.Violate("unexpected-error", kind, "unrequested data rejected with %v instead of ErrNoRequester", err)
			}
			return
		}
	}
	s.check(kind)
}

// check runs the store and completeness oracles.
func (s *sim) check(where string) {
	rc := s.rc
	if rc.Failed() {
		return
	}
	// (1) the store, as seen through the builder's database, holds exactly the accepted pairs
	for _, r := range s.universeOrder {
		got := s.viewGet(r)
		want, ok := s.accepted[r]
		switch {
		case got != nil && !ok:
			rc.Violate("stored-unrequested", where, "store holds %q/%x (%d bytes) which was never requested", string(r.bk), r.key, len(got))
			return
		case got == nil && ok:
			rc.Violate("accepted-not-stored", where, "accepted %q/%x is not in the store", string(r.bk), r.key)
			return
		case ok && string(got) != want:
			rc.Violate("stored-wrong-value", where, "store holds a different value for %q/%x", string(r.bk), r.key)
			return
		}
	}
	// (2) everything ever written to B itself is an accepted hash->value pair
	for ; s.journalSeen < len(s.B.journal); s.journalSeen++ {
		e := s.B.journal[s.journalSeen]
		r := ref{e.bk, e.key}
		if e.del {
			rc.Violate("stored-unrequested", "delete", "B journal #%d deletes %q/%x", e.n, string(e.bk), e.key)
			return
		}
		if string(crypto.SHA3Sum256([]byte(e.val))) != e.key {
			rc.Violate("stored-unrequested", "key-is-not-hash", "B journal #%d: key %x is not the hash of the stored value", e.n, e.key)
			return
		}
		if v, ok := s.accepted[r]; !ok || v != e.val {
			rc.Violate("stored-unrequested", "journal", "B journal #%d stores %q/%x which was not requested", e.n, string(e.bk), e.key)
			return
		}
	}
	// (3) requests are for parts of the trusted state only, and count == listing
	ps := s.pending()
	if u := s.builder.UnresolvedCount(); u != len(ps) {
		rc.Violate("count-mismatch", where, "UnresolvedCount()=%d but Requests() lists %d", u, len(ps))
		return
	}
	for _, p := range ps {
		for _, b := range p.bids {
			if _, ok := s.ref.val[ref{b, p.key}]; !ok {
				rc.Violate("requested-outside-trusted-state", where, "request %q/%x is not part of the trusted state", string(b), p.key)
				return
			}
		}
	}
	// (4) no outstanding requests <=> the store holds the complete state
	missing := 0
	var firstMissing ref
	for _, r := range s.ref.order {
		if s.viewGet(r) == nil {
			if missing == 0 {
				firstMissing = r
			}
			missing++
		}
	}
	if len(ps) == 0 && missing > 0 && s.resumedPartial {
		// Outside C20 ("starting from only a trusted root hash" = empty local store):
		// a builder resumed over a partially written store finds nodes locally and
		// does not descend below them. Observed, counted, never a violation.
		rc.Probe("resume_over_partial_store_incomplete")
		rc.Event("resume over partial store: nothing outstanding, %d of %d nodes missing (observation only)", missing, len(s.ref.order))
		s.stuck = true
		return
	}
	if len(ps) == 0 && missing > 0 {
		sig := "zero-outstanding-but-incomplete"
		if s.restarts > 0 {
			sig += "-after-restart"
		}
		rc.Violate("completeness", sig, "UnresolvedCount()==0 but %d of %d nodes of the trusted state are missing from the store (first %q/%x)", missing, len(s.ref.order), string(firstMissing.bk), firstMissing.key)
		return
	}
	if len(ps) > 0 && missing == 0 {
		onlyFailed := len(s.failedPending) > 0
		for _, p := range ps {
			if !s.failedPending[p.key] {
				onlyFailed = false
			}
		}
		if onlyFailed {
			// a delivery that failed half-way (injected write error) stored the value for one requester and
			// still owes it to another: the request is rightly outstanding although no node is missing
			rc.Probe("complete_but_failed_delivery_outstanding")
			return
		}
		sig := "complete-but-outstanding"
		if s.restarts > 0 {
			sig += "-after-restart"
		}
		rc.Violate("completeness", sig, "store holds the complete state but %d requests are outstanding", len(ps))
		return
	}
}

func runLayer1(rc *kit.RunCtx) {
	t := rc.Tape
	s := &sim{rc: rc, accepted: map[ref]string{}, universe: map[ref]bool{}}
	s.src = buildSource(rc)
	foreign := foreignPayloads(t)
	s.ref = newWalker(s.src.db)
	must(s.ref.trie(s.src.stateHash, s.ref.accountLeaf))
	must(s.ref.blob(s.src.vlHash))
	must(s.ref.trie(s.src.extraRoot, nil))
	must(s.ref.trie(s.src.objRoot, s.ref.ptrLeaf))
	for _, r := range s.ref.order {
		for _, b := range buckets {
			s.touch(ref{b, r.key})
		}
	}
	rc.Config["accounts"] = len(s.src.accs)
	rc.Config["validators"] = len(s.src.vals)
	rc.Config["extra_entries"] = len(s.src.extra)
	rc.Config["object_entries"] = len(s.src.objs)
	rc.Config["reachable"] = len(s.ref.order)
	rc.Config["source_db_entries"] = len(s.src.db.content())
	rc.Event("source accounts=%d validators=%d extra=%d objs=%d reachable=%d state=%x", len(s.src.accs), len(s.src.vals), len(s.src.extra), len(s.src.objs), len(s.ref.order), s.src.stateHash)

	s.raw = rc.Profile == "rawfaults"
	s.B = newJDB()
	s.startBuilder()
	s.check("start")

	allowRestart := rc.Profile == "restart"
	wRestart, wFlush := 0, 0
	if allowRestart {
		wRestart, wFlush = 4, 4
	}
	maxSteps := 6*len(s.ref.order) + 60
	completeAt := -1
	extraAfter := t.Choose("after.n", 4)
	for step := 0; step < maxSteps && !rc.Failed() && !s.stuck; step++ {
		ps := s.pending()
		if len(ps) == 0 {
			if completeAt < 0 {
				completeAt = step
			}
			if extraAfter == 0 {
				break
			}
			extraAfter--
		}
		wCorrect := 60
		if len(ps) == 0 {
			wCorrect = 0
		}
		switch t.Weighted("action", wCorrect, 8, 6, 4, 6, 8, 2, wFlush, wRestart) {
		case 0: // correct value of a pending request, any order, under any of its buckets
			p := ps[t.Choose("pick", len(ps))]
			bid := p.bids[t.Choose("bid", len(p.bids))]
			v := s.src.db.get(bid, p.key)
			if v == nil {
				rc.Violate("requested-outside-trusted-state", "source-lacks", "request %q/%x cannot be served from the source", string(bid), p.key)
				break
			}
			s.deliver("correct", bid, v)
		case 1: // a value again after it was resolved
			if len(s.acceptedOrder) == 0 {
				continue
			}
			r := s.acceptedOrder[t.Choose("dup", len(s.acceptedOrder))]
			s.adversarial++
			rc.Fault("duplicate")
			s.deliver("duplicate", r.bk, []byte(s.accepted[r]))
		case 2: // a value from another trie
			s.adversarial++
			rc.Fault("foreign")
			s.deliver("foreign", buckets[t.Choose("fbk", 2)], foreign[t.Choose("foreign", len(foreign))])
		case 3: // random bytes
			s.adversarial++
			rc.Fault("random")
			s.deliver("random", buckets[t.Choose("rbk", 2)], t.Bytes("random", 1+t.Choose("rlen", 80)))
		case 4: // a genuine node of the trusted state that nobody asked for yet
			var cand []ref
			pset := map[string]bool{}
			for _, p := range ps {
				pset[p.key] = true
			}
			for _, r := range s.ref.order {
				if _, ok := s.accepted[r]; !ok && !pset[r.key] {
					cand = append(cand, r)
				}
			}
			if len(cand) == 0 {
				continue
			}
			r := cand[t.Choose("premature", len(cand))]
			s.adversarial++
			rc.Fault("premature")
			s.deliver("premature", r.bk, []byte(s.ref.val[r]))
		case 5: // forged value for a pending request: right length, wrong bytes
			if len(ps) == 0 {
				continue
			}
			p := ps[t.Choose("fpick", len(ps))]
			v := append([]byte(nil), s.src.db.get(p.bids[0], p.key)...)
			if len(v) == 0 {
				continue
			}
			i := t.Choose("fpos", len(v))
			v[i] ^= byte(1 + t.Choose("fbit", 255))
			s.adversarial++
			rc.Fault("forged")
			s.deliver("forged", p.bids[0], v)
		case 6: // correct value under a bucket id that has no hash function
			if len(ps) == 0 {
				continue
			}
			p := ps[t.Choose("npick", len(ps))]
			s.adversarial++
			rc.Fault("nohasher")
			s.deliver("nohasher", db.ChainProperty, s.src.db.get(p.bids[0], p.key))
		case 7: // early flush: what was accepted so far goes to B
			rc.Fault("early_flush")
			err := s.builder.Flush(true)
			rc.Event("flush early -> %v", err)
			if err != nil {
				rc.Violate("unexpected-error", "flush", "Flush(true): %v", err)
				break
			}
			s.flushed = true
			rc.Probe("early_flush")
			s.check("flush")
		case 8: // dirty restart: the builder and its buffer are lost, B keeps what it has
			rc.Fault("restart")
			s.restarts++
			mode := t.Choose("restart.mode", 2)
			if mode == 0 {
				// everything local is lost: the new builder starts from only the trusted root again
				s.B = newJDB()
				s.journalSeen = 0
			}
			content := s.B.content()
			s.accepted = map[ref]string{}
			s.acceptedOrder = nil
			for _, r := range sortedRefs(content) {
				s.accepted[r] = content[r]
				s.acceptedOrder = append(s.acceptedOrder, r)
			}
			complete := true
			for _, r := range s.ref.order {
				if _, ok := content[r]; !ok {
					complete = false
				}
			}
			s.resumedPartial = len(content) > 0 && !complete
			rc.Event("restart #%d mode=%d: B holds %d entries", s.restarts, mode, len(content))
			if s.resumedPartial {
				rc.Probe("resume_over_partial_store")
			}
			s.startBuilder()
			rc.Probe("builder_restart")
			s.check("restart")
		}
	}
	if rc.Failed() || s.stuck {
		return
	}
	if len(s.pending()) != 0 {
		rc.Event("step cap reached with %d outstanding", len(s.pending()))
		return
	}
	// ---- end: sync reports complete; flush and compare B with the trusted state
	if err := s.builder.Flush(true); err != nil {
		rc.Violate("unexpected-error", "final-flush", "Flush(true): %v", err)
		return
	}
	s.check("final-flush")
	if rc.Failed() {
		return
	}
	content := s.B.content()
	for _, r := range s.ref.order {
		if v, ok := content[r]; !ok || v != s.ref.val[r] {
			rc.Violate("rebuilt-state-differs", "missing-node", "after a completed sync B lacks (or differs at) %q/%x", string(r.bk), r.key)
			return
		}
	}
	for _, r := range sortedRefs(content) {
		if _, ok := s.ref.val[r]; !ok {
			rc.Violate("stored-unrequested", "extra-node", "after a completed sync B holds %q/%x which is not part of the trusted state", string(r.bk), r.key)
			return
		}
	}
	// independent re-walk of B from the trusted roots
	wb := newWalker(s.B)
	if err := firstErr(wb.trie(s.src.stateHash, wb.accountLeaf), wb.blob(s.src.vlHash), wb.trie(s.src.extraRoot, nil), wb.trie(s.src.objRoot, wb.ptrLeaf)); err != nil {
		rc.Violate("rebuilt-state-differs", "walk", "walking B from the trusted roots: %v", err)
		return
	}
	if len(wb.order) != len(s.ref.order) {
		rc.Violate("rebuilt-state-differs", "walk-size", "B walk visits %d nodes, source %d", len(wb.order), len(s.ref.order))
		return
	}
	// logical contents through goloop's own readers on plain B
	s.compareContents()
	if rc.Failed() {
		return
	}
	rc.Probe("complete_sync")
	rc.Metric("nodes_synced", int64(len(s.ref.order)))
	rc.Metric("rejected", int64(s.rejected))
	rc.Event("complete nodes=%d rejected=%d restarts=%d", len(s.ref.order), s.rejected, s.restarts)
	if allowRestart {
		rc.Nontrivial = s.restarts > 0 || s.flushed
	} else {
		rc.Nontrivial = s.adversarial > 0 && s.rejected > 0
	}
}

func firstErr(es ...error) error {
	for _, e := range es {
		if e != nil {
			return e
		}
	}
	return nil
}

func (s *sim) compareContents() {
	rc := s.rc
	vss, err := state.ValidatorSnapshotFromHash(s.B, s.src.vlHash)
	if err != nil {
		rc.Violate("rebuilt-state-differs", "validators", "validator list unreadable from B: %v", err)
		return
	}
	if vss.Len() != len(s.src.vals) {
		rc.Violate("rebuilt-state-differs", "validators", "validator list has %d entries, source %d", vss.Len(), len(s.src.vals))
		return
	}
	for i, a := range s.src.vals {
		if v, ok := vss.Get(i); !ok || !v.Address().Equal(a) {
			rc.Violate("rebuilt-state-differs", "validators", "validator %d differs", i)
			return
		}
	}
	wss := state.NewWorldSnapshot(s.B, s.src.stateHash, vss, nil, nil)
	if !bytes.Equal(wss.StateHash(), s.src.stateHash) {
		rc.Violate("rebuilt-state-differs", "root", "root differs")
		return
	}
	for _, a := range s.src.accs {
		as := wss.GetAccountSnapshot(a.id)
		if as == nil {
			if a.balance.Sign() == 0 && len(a.storage) == 0 && !a.contract {
				continue // an empty account is not part of the state at all
			}
			rc.Violate("rebuilt-state-differs", "account", "account %x missing", a.id)
			return
		}
		if as.GetBalance().Cmp(a.balance) != 0 {
			rc.Violate("rebuilt-state-differs", "balance", "account %x balance %v != %v", a.id, as.GetBalance(), a.balance)
			return
		}
		keys := make([]string, 0, len(a.storage))
		for k := range a.storage {
			keys = append(keys, k)
		}
		sort.Strings(keys)
		for _, k := range keys {
			v, err := as.GetValue([]byte(k))
			if err != nil || !bytes.Equal(v, a.storage[k]) {
				rc.Violate("rebuilt-state-differs", "storage", "account %x storage[%x] = %x (%v), want %x", a.id, k, v, err, a.storage[k])
				return
			}
		}
		if a.contract {
			c := as.Contract()
			if c == nil {
				rc.Violate("rebuilt-state-differs", "code", "account %x lost its contract", a.id)
				return
			}
			code, err := c.Code()
			if err != nil || !bytes.Equal(code, a.code) {
				rc.Violate("rebuilt-state-differs", "code", "account %x code differs (%v)", a.id, err)
				return
			}
			if a.nextCode != nil {
				n := as.NextContract()
				if n == nil {
					rc.Violate("rebuilt-state-differs", "code", "account %x lost its next contract", a.id)
					return
				}
				code, err := n.Code()
				if err != nil || !bytes.Equal(code, a.nextCode) {
					rc.Violate("rebuilt-state-differs", "code", "account %x next code differs (%v)", a.id, err)
					return
				}
			}
			if a.graph != nil {
				_, _, g, err := as.GetObjGraph(c.CodeID(), true)
				if err != nil || !bytes.Equal(g, a.graph) {
					rc.Violate("rebuilt-state-differs", "graph", "account %x object graph differs (%v)", a.id, err)
					return
				}
			}
		}
	}
	if s.src.extraRoot != nil {
		tr := trie_manager.NewImmutable(s.B, s.src.extraRoot)
		n := 0
		for it := tr.Iterator(); it.Has(); must(it.Next()) {
			v, k, err := it.Get()
			if err != nil || !bytes.Equal(s.src.extra[string(k)], v) {
				rc.Violate("rebuilt-state-differs", "extra-trie", "extra trie entry %x differs (%v)", k, err)
				return
			}
			n++
		}
		if n != len(s.src.extra) {
			rc.Violate("rebuilt-state-differs", "extra-trie", "extra trie has %d entries, source %d", n, len(s.src.extra))
			return
		}
	}
	if s.src.objRoot != nil {
		tr := trie_manager.NewImmutableForObject(s.B, s.src.objRoot, ptrType)
		n := 0
		for it := tr.Iterator(); it.Has(); must(it.Next()) {
			o, k, err := it.Get()
			if err != nil {
				rc.Violate("rebuilt-state-differs", "object-trie", "object trie iteration: %v", err)
				return
			}
			d, err := o.(*ptrObject).Data()
			if err != nil || !bytes.Equal(s.src.objs[string(k)], d) {
				rc.Violate("rebuilt-state-differs", "object-trie", "object trie entry %x differs (%v)", k, err)
				return
			}
			n++
		}
		if n != len(s.src.objs) {
			rc.Violate("rebuilt-state-differs", "object-trie", "object trie has %d entries, source %d", n, len(s.src.objs))
			return
		}
	}
}
