package syncsim

import (
	"fmt"
	"os"
	"strconv"
	"testing"

	"github.com/icon-project/goloop/common/log"
	"verif/sim/kit"
)

// TestDebugDeterminism re-runs one run index of a profile several times in-process and prints the
// first differing event (developer aid; not used by the runner).
func TestDebugDeterminism(t *testing.T) {
	prof := os.Getenv("SYNCSIM_DEBUG_PROFILE")
	if prof == "" {
		t.Skip()
	}
	log.GlobalLogger().SetLevel(log.FatalLevel)
	log.GlobalLogger().SetConsoleLevel(log.FatalLevel)
	idx, _ := strconv.Atoi(os.Getenv("SYNCSIM_DEBUG_IDX"))
	reps, _ := strconv.Atoi(os.Getenv("SYNCSIM_DEBUG_REPS"))
	if reps == 0 {
		reps = 20
	}
	seed := kit.RunSeed(20260921, kit.Salt("syncsim", "C20", prof), idx)
	var first []string
	for r := 0; r < reps; r++ {
		rc := kit.NewRunCtx("C20", "quick", prof, seed, idx, kit.NewTape(seed))
		rc.KeepFull = true
		kit.RunOnce(engine{t}, rc)
		if first == nil {
			first = rc.Full()
			continue
		}
		cur := rc.Full()
		for i := 0; i < len(first) || i < len(cur); i++ {
			var a, b string
			if i < len(first) {
				a = first[i]
			}
			if i < len(cur) {
				b = cur[i]
			}
			if a != b {
				lo := i - 12
				if lo < 0 {
					lo = 0
				}
				for k := lo; k < i; k++ {
					fmt.Println("   ", first[k])
				}
				fmt.Printf("rep %d differs at event %d:\n  A: %s\n  B: %s\n", r, i, a, b)
				return
			}
		}
	}
	fmt.Println("no divergence in", reps, "repetitions of run", idx)
}
