package syncsim

import (
	"bytes"
	"fmt"
	"sort"
	"sync"
	"testing"
	"testing/synctest"
	"time"

	"github.com/icon-project/goloop/common/codec"
	"github.com/icon-project/goloop/common/crypto"
	"github.com/icon-project/goloop/common/db"
	"github.com/icon-project/goloop/common/log"
	"github.com/icon-project/goloop/common/merkle"
	"github.com/icon-project/goloop/module"
	"github.com/icon-project/goloop/service/state"
	"github.com/icon-project/goloop/service/sync2"

	"verif/sim/kit"
)

// Layer 2: the real service/sync2 syncer + sync processor + reactors (client) against 2-4 peers
// that run the real sync2 reactors over the source database; some peers are Byzantine (their
// answers are perverted on the wire). The network is a list of in-flight messages owned by the
// driver: which message is delivered next, and when time advances, are tape decisions. Everything
// runs inside a testing/synctest bubble (request expiry and pool migration timers on the fake clock).

type simPeerID string

func (p simPeerID) Bytes() []byte { return []byte(p) }
func (p simPeerID) Equal(o module.PeerID) bool {
	return o != nil && bytes.Equal([]byte(p), o.Bytes())
}
func (p simPeerID) String() string { return string(p) }

type wireMsg struct {
	seq      int
	from, to simPeerID
	reactor  string
	pi       module.ProtocolInfo
	data     []byte
}

type simNet struct {
	mu       sync.Mutex
	nodes    map[simPeerID]*simNode
	inflight []*wireMsg // ordered, owned by the driver
	fresh    []*wireMsg // sent since the driver last looked (arrival order is not trusted)
	seq      int
}

// collect moves freshly sent messages into the in-flight list in a canonical order, so that
// the order in which goroutines happened to reach Unicast within one step cannot matter.
func (n *simNet) collect() {
	n.mu.Lock()
	fr := n.fresh
	n.fresh = nil
	n.mu.Unlock()
	sort.SliceStable(fr, func(i, j int) bool {
		a, b := fr[i], fr[j]
		if a.from != b.from {
			return a.from < b.from
		}
		if a.to != b.to {
			return a.to < b.to
		}
		if a.reactor != b.reactor {
			return a.reactor < b.reactor
		}
		if a.pi != b.pi {
			return a.pi < b.pi
		}
		return bytes.Compare(a.data, b.data) < 0
	})
	for _, m := range fr {
		n.seq++
		m.seq = n.seq
		n.inflight = append(n.inflight, m)
	}
}

type simNode struct {
	id       simPeerID
	net      *simNet
	reactors map[string]module.Reactor
	names    []string
}

type simPH struct {
	node *simNode
	name string
}

func (n *simNet) node(id simPeerID) *simNode {
	if n.nodes[id] == nil {
		n.nodes[id] = &simNode{id: id, net: n, reactors: map[string]module.Reactor{}}
	}
	return n.nodes[id]
}

// module.NetworkManager
func (n *simNode) Start() error              { return nil }
func (n *simNode) Term()                     {}
func (n *simNode) GetPeers() []module.PeerID { return nil }
func (n *simNode) RegisterReactor(name string, pi module.ProtocolInfo, r module.Reactor, pis []module.ProtocolInfo, prio uint8, pol module.NotRegisteredProtocolPolicy) (module.ProtocolHandler, error) {
	return n.RegisterReactorForStreams(name, pi, r, pis, prio, pol)
}
func (n *simNode) RegisterReactorForStreams(name string, pi module.ProtocolInfo, r module.Reactor, pis []module.ProtocolInfo, prio uint8, pol module.NotRegisteredProtocolPolicy) (module.ProtocolHandler, error) {
	n.reactors[name] = r
	n.names = append(n.names, name)
	return &simPH{n, name}, nil
}
func (n *simNode) UnregisterReactor(module.Reactor) error                          { return nil }
func (n *simNode) SetRole(int64, module.Role, ...module.PeerID)                    {}
func (n *simNode) GetPeersByRole(module.Role) []module.PeerID                      { return nil }
func (n *simNode) AddRole(module.Role, ...module.PeerID)                           {}
func (n *simNode) RemoveRole(module.Role, ...module.PeerID)                        {}
func (n *simNode) HasRole(module.Role, module.PeerID) bool                         { return false }
func (n *simNode) Roles(module.PeerID) []module.Role                               { return nil }
func (n *simNode) SetTrustSeeds(string)                                            {}
func (n *simNode) SetInitialRoles(...module.Role)                                  {}
func (h *simPH) GetPeers() []module.PeerID                                         { return nil }
func (h *simPH) Broadcast(module.ProtocolInfo, []byte, module.BroadcastType) error { return nil }
func (h *simPH) Multicast(module.ProtocolInfo, []byte, module.Role) error          { return nil }
func (h *simPH) Unicast(pi module.ProtocolInfo, b []byte, id module.PeerID) error {
	net := h.node.net
	net.mu.Lock()
	net.fresh = append(net.fresh, &wireMsg{from: h.node.id, to: simPeerID(id.Bytes()), reactor: h.name, pi: pi, data: append([]byte(nil), b...)})
	net.mu.Unlock()
	return nil
}

type nullPlatform struct{}

func (nullPlatform) NewExtensionWithBuilder(merkle.Builder, []byte) state.ExtensionSnapshot {
	return nil
}

// mirrors of sync2's wire structs (msgpack lists), used only to pervert answers
type v2Response struct {
	ReqID  uint32
	Status int
	Data   []sync2.BucketIDAndBytes
}
type v1Response struct {
	ReqID  uint32
	Status int
	Type   int
	Data   [][]byte
}

func (e engine) runSync2(rc *kit.RunCtx) {
	synctest.Test(e.t, func(t *testing.T) { runSync2InBubble(rc) })
}

func runSync2InBubble(rc *kit.RunCtx) {
	t := rc.Tape
	logger := log.GlobalLogger()
	src := buildSource(rc)
	foreign := foreignPayloads(t)
	ref := newWalker(src.db)
	must(ref.trie(src.stateHash, ref.accountLeaf))
	must(ref.blob(src.vlHash))

	net := &simNet{nodes: map[simPeerID]*simNode{}}
	nServers := 2 + t.Choose("servers", 3)
	type server struct {
		id  simPeerID
		byz bool
	}
	var servers []server
	honest := 0
	for i := 0; i < nServers; i++ {
		s := server{id: simPeerID(fmt.Sprintf("server-%d", i))}
		// at least one honest server, otherwise a sync cannot complete
		if i > 0 && t.Permille("byzantine", 450) {
			s.byz = true
		} else {
			honest++
		}
		sync2.NewSyncManager(src.db, net.node(s.id), nullPlatform{}, logger)
		servers = append(servers, s)
	}
	byzOf := map[simPeerID]bool{}
	for _, s := range servers {
		byzOf[s.id] = s.byz
	}
	B := newJDB()
	clientID := simPeerID("client")
	cnode := net.node(clientID)
	mgr := sync2.NewSyncManager(B, cnode, nullPlatform{}, logger)
	syncer := mgr.NewSyncer(src.stateHash, nil, nil, src.vlHash, nil, nil, false)
	rc.Config["servers"] = nServers
	rc.Config["byzantine"] = nServers - honest
	rc.Config["reachable"] = len(ref.order)
	rc.Event("sync2 servers=%d byzantine=%d reachable=%d state=%x", nServers, nServers-honest, len(ref.order), src.stateHash)

	joins := 0
	join := func(id simPeerID) {
		// a peer speaking both protocol versions joins reactor by reactor; the client is left to
		// react after each (otherwise its reaction would race with the second OnJoin)
		for _, name := range cnode.names {
			joins++
			time.Sleep(time.Duration(joins) * 1013 * time.Nanosecond)
			cnode.reactors[name].OnJoin(id)
			synctest.Wait()
			net.collect()
		}
		rc.Event("join %s", id)
	}
	// some peers are known from the start, the others join later
	joined := map[simPeerID]bool{}
	join(servers[0].id)
	joined[servers[0].id] = true

	var syncErr error
	done := make(chan struct{})
	go func() {
		_, syncErr = syncer.ForceSync()
		close(done)
	}()
	isDone := func() bool {
		select {
		case <-done:
			return true
		default:
			return false
		}
	}

	start := time.Now()
	maxSteps := 40*len(ref.order) + 400
	delivered, perverted := 0, 0
	for step := 0; step < maxSteps; step++ {
		// Every stimulus happens at its own instant of the fake clock: timers armed by different
		// stimuli (request expiry, pool migration) then never share a deadline, and two timer
		// goroutines never become runnable together (their order would be the Go scheduler's).
		time.Sleep(time.Millisecond + time.Duration(step+1)*1009*time.Nanosecond)
		synctest.Wait()
		net.collect()
		if isDone() {
			break
		}
		rc.Steps++
		// late joiners
		for _, s := range servers {
			if !joined[s.id] && t.Permille("join", 200) {
				joined[s.id] = true
				join(s.id)
				// one stimulus at a time: let the client react to the join before anything else happens
				synctest.Wait()
				net.collect()
			}
		}
		if len(net.inflight) == 0 || t.Permille("tick", 150) {
			d := time.Duration(20+t.Choose("tick.ms", 30)*10) * time.Millisecond
			time.Sleep(d)
			rc.Event("tick %v", d)
			continue
		}
		i := t.Choose("deliver", len(net.inflight))
		m := net.inflight[i]
		net.inflight = append(net.inflight[:i], net.inflight[i+1:]...)
		copies := 1
		kind := "ok"
		if m.to == clientID && byzOf[m.from] {
			// a Byzantine server's answer is perverted on the wire
			switch t.Weighted("byz", 3, 3, 2, 2, 2, 2) {
			case 0:
			case 1: // forged payload: right length, wrong bytes
				if nm, ok := pervert(m, func(items [][]byte) [][]byte {
					if len(items) == 0 {
						return items
					}
					k := t.Choose("byz.item", len(items))
					if len(items[k]) > 0 {
						v := append([]byte(nil), items[k]...)
						v[t.Choose("byz.pos", len(v))] ^= byte(1 + t.Choose("byz.bit", 255))
						items[k] = v
					}
					return items
				}, 0); ok {
					m, kind = nm, "forged"
					rc.Fault("forged_payload")
				}
			case 2: // answer to something else: genuine nodes nobody asked this peer for, or foreign ones
				if nm, ok := pervert(m, func(items [][]byte) [][]byte {
					for k := range items {
						if t.Permille("byz.foreign", 500) {
							items[k] = foreign[t.Choose("byz.f", len(foreign))]
						} else {
							r := ref.order[t.Choose("byz.other", len(ref.order))]
							items[k] = []byte(ref.val[r])
						}
					}
					return items
				}, 0); ok {
					m, kind = nm, "wrong-data"
					rc.Fault("wrong_answer")
				}
			case 3: // silence
				rc.Fault("silence")
				rc.Event("drop #%d %s->%s", m.seq, m.from, m.to)
				continue
			case 4: // duplicate
				copies = 2
				kind = "duplicate"
				rc.Fault("duplicate_answer")
			case 5: // answer under another request id
				if nm, ok := pervert(m, nil, 1+uint32(t.Choose("byz.req", 3))); ok {
					m, kind = nm, "wrong-reqid"
					rc.Fault("wrong_request_id")
				}
			}
			if kind != "ok" {
				perverted++
			}
		}
		dst := net.nodes[m.to]
		for c := 0; c < copies; c++ {
			if c > 0 {
				time.Sleep(499 * time.Nanosecond)
			}
			if r := dst.reactors[m.reactor]; r != nil {
				_, _ = r.OnReceive(m.pi, m.data, m.from)
			}
			synctest.Wait()
		}
		delivered++
		rc.Event("deliver #%d %s->%s %s pi=%d len=%d %s", m.seq, m.from, m.to, m.reactor, m.pi, len(m.data), kind)
		if len(B.journal) != 0 && !isDone() {
			// nothing reaches B before the sync is finalised (buffered builder); informational
			rc.Probe("store_written_before_finalize")
		}
	}
	synctest.Wait()
	rc.SimTime = time.Since(start)
	rc.Metric("delivered", int64(delivered))
	if !isDone() {
		// bounded liveness is not part of C20: stop, count, no verdict
		syncer.Stop()
		<-done
		synctest.Wait()
		rc.Probe("sync2_stalled")
		rc.Event("stalled after %d steps", maxSteps)
		return
	}
	rc.Event("ForceSync -> %v", syncErr)
	if syncErr != nil {
		rc.Probe("sync2_failed")
		return
	}
	// sync reported success: it must be complete, and B must hold exactly the trusted state
	if err := syncer.Finalize(); err != nil {
		rc.Violate("unexpected-error", "finalize", "Finalize: %v", err)
		return
	}
	synctest.Wait()
	content := B.content()
	for _, r := range ref.order {
		if v, ok := content[r]; !ok || v != ref.val[r] {
			rc.Violate("completeness", "sync2-success-but-incomplete", "ForceSync reported success but B lacks (or differs at) %q/%x", string(r.bk), r.key)
			return
		}
	}
	for _, e := range B.journal {
		r := ref2(e)
		if e.del || string(crypto.SHA3Sum256([]byte(e.val))) != e.key {
			rc.Violate("stored-unrequested", "sync2-key-is-not-hash", "B journal #%d: %q/%x is not a hash->value pair", e.n, string(e.bk), e.key)
			return
		}
		if v, ok := ref.val[r]; !ok || v != e.val {
			rc.Violate("stored-unrequested", "sync2-extra-node", "B journal #%d stores %q/%x which is not part of the trusted state", e.n, string(e.bk), e.key)
			return
		}
	}
	s := &sim{rc: rc, src: &source{db: src.db, accs: src.accs, vals: src.vals, stateHash: src.stateHash, vlHash: src.vlHash}, B: B}
	s.compareContents()
	if rc.Failed() {
		return
	}
	rc.Probe("complete_sync")
	rc.Probe("sync2_complete")
	rc.Event("complete nodes=%d delivered=%d perverted=%d sim=%v", len(ref.order), delivered, perverted, rc.SimTime)
	rc.Nontrivial = true
}

func ref2(e jentry) ref { return ref{e.bk, e.key} }

// pervert decodes a sync2 answer (protocol v1 or v2), lets f rewrite the payload items and/or
// shifts the request id, and encodes it again.
func pervert(m *wireMsg, f func([][]byte) [][]byte, reqShift uint32) (*wireMsg, bool) {
	out := *m
	switch m.reactor {
	case "statesync2":
		if m.pi != 1 {
			return nil, false
		}
		var r v2Response
		if _, err := codec.UnmarshalFromBytes(m.data, &r); err != nil {
			return nil, false
		}
		if f != nil {
			items := make([][]byte, len(r.Data))
			for i := range r.Data {
				items[i] = r.Data[i].Bytes
			}
			items = f(items)
			for i := range r.Data {
				r.Data[i].Bytes = items[i]
			}
		}
		r.ReqID += reqShift
		b, err := codec.MarshalToBytes(&r)
		if err != nil {
			return nil, false
		}
		out.data = b
	case "statesync":
		if m.pi != 3 {
			return nil, false
		}
		var r v1Response
		if _, err := codec.MP.UnmarshalFromBytes(m.data, &r); err != nil {
			return nil, false
		}
		if f != nil {
			r.Data = f(r.Data)
		}
		r.ReqID += reqShift
		b, err := codec.MP.MarshalToBytes(&r)
		if err != nil {
			return nil, false
		}
		out.data = b
	default:
		return nil, false
	}
	return &out, true
}

var _ = db.MerkleTrie
