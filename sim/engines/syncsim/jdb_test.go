// Package syncsim simulates state synchronisation from a trusted root:
// merkle.Builder + ompt Resolve + the world-state resolvers (layer 1), fed by a
// tape-driven delivery scheduler that mixes correct, duplicated, premature,
// foreign, random and forged payloads with early flushes and builder restarts.
package syncsim

import (
	"errors"
	"sort"

	"github.com/icon-project/goloop/common/db"
)

// jdb is a journaling decorator around db.NewMapDB(): every Set/Delete is a
// numbered journal entry, so the oracle can see exactly what was stored, in
// which bucket and in which order, independent of the map underneath.
type jentry struct {
	n   int
	bk  db.BucketID
	key string
	val string
	del bool
}

type jdb struct {
	inner   db.Database
	journal []jentry
	gets    int
	// fault injection (profile rawfaults): the failAt-th Set from now on fails (0 = none); injected counts
	failAt   int
	injected int
	// the readFailAt-th Get/Has from now on fails (0 = none)
	readFailAt    int
	injectedReads int
}

var errInjectedRead = errors.New("injected: read failed (disk error)")

func (d *jdb) readFault() bool {
	if d.readFailAt > 0 {
		d.readFailAt--
		if d.readFailAt == 0 {
			d.injectedReads++
			return true
		}
	}
	return false
}

var errInjectedWrite = errors.New("injected: write failed (disk error)")

func newJDB() *jdb { return &jdb{inner: db.NewMapDB()} }

func (d *jdb) GetBucket(id db.BucketID) (db.Bucket, error) {
	bk, err := d.inner.GetBucket(id)
	if err != nil {
		return nil, err
	}
	return &jbucket{d: d, id: id, inner: bk}, nil
}

func (d *jdb) Close() error { return nil }

type jbucket struct {
	d     *jdb
	id    db.BucketID
	inner db.Bucket
}

func (b *jbucket) Get(key []byte) ([]byte, error) {
	b.d.gets++
	if b.d.readFault() {
		return nil, errInjectedRead
	}
	return b.inner.Get(key)
}

func (b *jbucket) Has(key []byte) (bool, error) {
	b.d.gets++
	if b.d.readFault() {
		return false, errInjectedRead
	}
	return b.inner.Has(key)
}

func (b *jbucket) Set(key []byte, value []byte) error {
	if b.d.failAt > 0 {
		b.d.failAt--
		if b.d.failAt == 0 {
			b.d.injected++
			return errInjectedWrite
		}
	}
	b.d.journal = append(b.d.journal, jentry{n: len(b.d.journal), bk: b.id, key: string(key), val: string(value)})
	return b.inner.Set(key, value)
}

func (b *jbucket) Delete(key []byte) error {
	b.d.journal = append(b.d.journal, jentry{n: len(b.d.journal), bk: b.id, key: string(key), del: true})
	return b.inner.Delete(key)
}

// ref is a (bucket, key) pair.
type ref struct {
	bk  db.BucketID
	key string
}

// content replays the journal into a map (independent of the MapDB below).
func (d *jdb) content() map[ref]string {
	m := map[ref]string{}
	for _, e := range d.journal {
		r := ref{e.bk, e.key}
		if e.del {
			delete(m, r)
		} else {
			m[r] = e.val
		}
	}
	return m
}

func (d *jdb) get(bk db.BucketID, key string) []byte {
	b, _ := d.inner.GetBucket(bk)
	v, _ := b.Get([]byte(key))
	return v
}

func sortedRefs(m map[ref]string) []ref {
	rs := make([]ref, 0, len(m))
	for r := range m {
		rs = append(rs, r)
	}
	sort.Slice(rs, func(i, j int) bool {
		if rs[i].bk != rs[j].bk {
			return rs[i].bk < rs[j].bk
		}
		return rs[i].key < rs[j].key
	})
	return rs
}
