package syncsim

import (
	"fmt"

	"github.com/icon-project/goloop/common/db"
)

// Independent reference: a raw walk of the source database from the trusted
// roots. It uses its own RLP reader and its own notion of trie node layout
// (2-item leaf/extension, 17-item branch, embedded children as lists, hashed
// children as 32-byte strings) and of the account record; it shares no code
// with ompt.Resolve, merkle.Builder or the state package's resolvers.

type rlpItem struct {
	list  bool
	bytes []byte    // payload for strings
	items []rlpItem // for lists
	raw   []byte
}

func rlpParse(b []byte) (rlpItem, []byte, error) {
	if len(b) == 0 {
		return rlpItem{}, nil, fmt.Errorf("rlp: empty")
	}
	t := b[0]
	var hdr, n int
	var isList bool
	switch {
	case t < 0x80:
		return rlpItem{bytes: b[:1], raw: b[:1]}, b[1:], nil
	case t <= 0xb7:
		hdr, n = 1, int(t-0x80)
	case t <= 0xbf:
		ll := int(t - 0xb7)
		if len(b) < 1+ll {
			return rlpItem{}, nil, fmt.Errorf("rlp: short")
		}
		for _, c := range b[1 : 1+ll] {
			n = n<<8 | int(c)
		}
		hdr = 1 + ll
	case t <= 0xf7:
		hdr, n, isList = 1, int(t-0xc0), true
	default:
		ll := int(t - 0xf7)
		if len(b) < 1+ll {
			return rlpItem{}, nil, fmt.Errorf("rlp: short")
		}
		for _, c := range b[1 : 1+ll] {
			n = n<<8 | int(c)
		}
		hdr, isList = 1+ll, true
	}
	if len(b) < hdr+n {
		return rlpItem{}, nil, fmt.Errorf("rlp: short payload")
	}
	it := rlpItem{list: isList, raw: b[:hdr+n]}
	payload := b[hdr : hdr+n]
	if !isList {
		it.bytes = payload
		return it, b[hdr+n:], nil
	}
	for len(payload) > 0 {
		sub, rest, err := rlpParse(payload)
		if err != nil {
			return rlpItem{}, nil, err
		}
		it.items = append(it.items, sub)
		payload = rest
	}
	return it, b[hdr+n:], nil
}

type leafFn func(value []byte) error

type walker struct {
	src   *jdb
	order []ref          // reachable refs in first-visit order
	val   map[ref]string // their values in the source
	// parent -> children edges among refs (for "premature" deliveries)
}

func newWalker(src *jdb) *walker { return &walker{src: src, val: map[ref]string{}} }

func (w *walker) add(bk db.BucketID, key []byte) ([]byte, bool, error) {
	r := ref{bk, string(key)}
	if v, ok := w.val[r]; ok {
		return []byte(v), false, nil
	}
	v := w.src.get(bk, string(key))
	if v == nil {
		return nil, false, fmt.Errorf("source lacks %q/%x", string(bk), key)
	}
	w.val[r] = string(v)
	w.order = append(w.order, r)
	return v, true, nil
}

func (w *walker) blob(key []byte) error {
	if len(key) == 0 {
		return nil
	}
	_, _, err := w.add(db.BytesByHash, key)
	return err
}

func (w *walker) trie(root []byte, leaf leafFn) error {
	if len(root) == 0 {
		return nil
	}
	v, fresh, err := w.add(db.MerkleTrie, root)
	if err != nil {
		return err
	}
	if !fresh {
		// same node reached twice: its subtree has been walked (with the same kind of leaf)
		return nil
	}
	it, rest, err := rlpParse(v)
	if err != nil || len(rest) != 0 {
		return fmt.Errorf("node %x: bad rlp", root)
	}
	return w.node(it, leaf)
}

func (w *walker) link(it rlpItem, leaf leafFn) error {
	if it.list {
		if len(it.items) == 0 {
			return nil
		}
		return w.node(it, leaf) // embedded node
	}
	switch len(it.bytes) {
	case 0:
		return nil
	case 32:
		return w.trie(it.bytes, leaf)
	default:
		return fmt.Errorf("child link of %d bytes", len(it.bytes))
	}
}

func (w *walker) node(it rlpItem, leaf leafFn) error {
	if !it.list {
		return fmt.Errorf("node is not a list")
	}
	switch len(it.items) {
	case 17:
		for i := 0; i < 16; i++ {
			if err := w.link(it.items[i], leaf); err != nil {
				return err
			}
		}
		v := it.items[16]
		if !v.list && len(v.bytes) > 0 && leaf != nil {
			return leaf(v.bytes)
		}
		return nil
	case 2:
		h := it.items[0].bytes
		if len(h) == 0 {
			return fmt.Errorf("empty key header")
		}
		if h[0]&0x20 == 0 {
			return w.link(it.items[1], leaf)
		}
		if leaf != nil {
			return leaf(it.items[1].bytes)
		}
		return nil
	default:
		return fmt.Errorf("node with %d items", len(it.items))
	}
}

// accountLeaf decodes an account record on its own and follows what it refers to.
func (w *walker) accountLeaf(value []byte) error {
	it, rest, err := rlpParse(value)
	if err != nil || len(rest) != 0 || !it.list || len(it.items) < 9 {
		return fmt.Errorf("account record: unexpected shape")
	}
	f := it.items
	if sh := f[3]; !sh.list && len(sh.bytes) > 0 {
		if err := w.trie(sh.bytes, nil); err != nil {
			return err
		}
	}
	if ai := f[6]; !ai.list && len(ai.bytes) == 32 {
		if err := w.blob(ai.bytes); err != nil {
			return err
		}
	}
	for _, c := range []rlpItem{f[7], f[8]} {
		if c.list && len(c.items) == 7 {
			if err := w.blob(c.items[5].bytes); err != nil {
				return err
			}
		}
	}
	if len(f) >= 11 {
		flag := 0
		for _, c := range f[9].bytes {
			flag = flag<<8 | int(c)
		}
		if flag&1 != 0 && f[10].list && len(f[10].items) == 2 {
			if err := w.blob(f[10].items[1].bytes); err != nil {
				return err
			}
		}
	}
	return nil
}

// ptrLeaf: leaf value is the sha3 of a blob kept in BytesByHash.
func (w *walker) ptrLeaf(value []byte) error {
	if len(value) != 32 {
		return fmt.Errorf("pointer leaf of %d bytes", len(value))
	}
	return w.blob(value)
}
