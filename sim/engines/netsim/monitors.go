package netsim

import (
	"bytes"
	"encoding/hex"
	"fmt"
	"strings"

	"github.com/icon-project/goloop/consensus"
	"github.com/icon-project/goloop/module"
)

type dsReport struct {
	reporter int
	data     []module.DoubleSignData
}

func (s *sim) onDoubleSignReport(inc *incarnation, data []module.DoubleSignData) {
	if !inc.alive() {
		return
	}
	n := inc.node
	s.observe(func() {
		s.dsReports = append(s.dsReports, dsReport{n.idx, data})
		s.rc.Probe("double_sign_reported")
		s.checkDoubleSignReport(n, data)
	})
}

// sticky memory of reported decisions per node: (height, round, type) -> digest
type stickyKey struct {
	h int64
	r int32
	t consensus.VoteType
}

type stickyVal struct {
	digest []byte
	total  int
	id     uintptr // identity of the vote set object the decision was seen in
}

// monitorVoteSets is the C04 monitor: recount every vote set inside a live
// validator and compare with what the vote set reports.
func (s *sim) monitorVoteSets(n *node) {
	st := consensus.SimStateOf(n.inc.cs)
	if !st.Started {
		return
	}
	if n.sticky == nil || n.stickyH != st.Height || n.stickyInc != n.inc.n {
		n.sticky = map[stickyKey]stickyVal{}
		n.stickyH = st.Height
		n.stickyInc = n.inc.n
	}
	s.monitorLock(n, &st)
	if s.rc.Failed() {
		return
	}
	for _, vs := range st.VoteSets {
		nv := len(vs.Slots)
		total := 0
		counts := map[string]int{}
		for _, sl := range vs.Slots {
			if sl.Voted {
				total++
				counts[hex.EncodeToString(sl.DecisionDigest)]++
			}
		}
		s.rc.Metric("voteset_recounts", 1)
		// exact threshold: 3*k > 2*n
		var winners []string
		for d, c := range counts {
			if 3*c > 2*nv {
				winners = append(winners, d)
			}
		}
		what := fmt.Sprintf("n%d h=%d r=%d %v n=%d total=%d counts=%v", n.idx, st.Height, vs.Round, vs.Type, nv, total, counts)
		if len(winners) > 1 {
			s.rc.Violate("tally", "two-decisions", "two decisions with +2/3: %s", what)
			return
		}
		if (3*total > 2*nv) != vs.ReportedOverAny {
			s.rc.Violate("tally", "any-threshold", "hasOverTwoThirds=%v but %d of %d slots voted: %s", vs.ReportedOverAny, total, nv, what)
			return
		}
		if len(winners) == 1 {
			s.rc.Probe("voteset_has_decision")
			if !vs.ReportedOK || hex.EncodeToString(vs.ReportedDigest) != winners[0] {
				s.rc.Violate("tally", "decision-not-reported", "a decision has +2/3 of the slots but the vote set reports ok=%v digest=%x: %s", vs.ReportedOK, vs.ReportedDigest, what)
				return
			}
		} else if vs.ReportedOK {
			s.rc.Violate("tally", "decision-without-quorum", "vote set reports decision %x without +2/3 of the slots: %s", vs.ReportedDigest, what)
			return
		}
		// stickiness: while it is the same vote set object a reported decision must
		// persist (the engine may discard a round's set and build a fresh one from
		// later vote lists: that is a new set, not a lost decision).
		k := stickyKey{st.Height, vs.Round, vs.Type}
		if prev, ok := n.sticky[k]; ok && prev.id == vs.ID {
			if !vs.ReportedOK || !bytes.Equal(prev.digest, vs.ReportedDigest) {
				s.rc.Violate("tally", "decision-lost", "decision %x was reported earlier for this vote set and is gone now (ok=%v digest=%x): %s", prev.digest, vs.ReportedOK, vs.ReportedDigest, what)
				return
			}
			prev.total = total
			n.sticky[k] = prev
		} else if vs.ReportedOK {
			n.sticky[k] = stickyVal{append([]byte(nil), vs.ReportedDigest...), total, vs.ID}
		} else {
			delete(n.sticky, k)
		}
	}
}

// checkDoubleSignReport: C06 "reported" half. Filled in by the byzantine file.
func (s *sim) checkDoubleSignReport(n *node, data []module.DoubleSignData) {
	s.checkDSD(n, data)
}

// monitorLock: white-box half of the lock-rule monitor (see lockrule.go). The
// lock a correct validator holds on block X since round r may only be given up
// (released, or replaced by a lock on another block) within the same height if
// some round r” > r has +2/3 prevotes for a value other than X on the wire.
func (s *sim) monitorLock(n *node, st *consensus.SimState) {
	prev := n.lock
	cur := lockObs{inc: n.inc.n, h: st.Height, r: st.LockedRound, id: hex.EncodeToString(st.LockedID)}
	n.lock = cur
	if prev.inc != cur.inc || prev.h != cur.h || prev.r < 0 || prev.id == "" {
		return
	}
	if cur.r >= 0 && cur.id == prev.id {
		return // still locked on the same block (possibly at a later round)
	}
	s.rc.Probe("lock_given_up_within_height")
	o := s.orc
	if _, ok := o.validators[cur.h]; !ok {
		o.ensureValidators(cur.h)
	}
	for rr := prev.r + 1; rr <= prev.r+64; rr++ {
		if _, ok := o.prevotes[fmt.Sprintf("%d/%d", cur.h, rr)]; !ok {
			if rr > st.Round+1 {
				break
			}
			continue
		}
		if o.polka(cur.h, rr, func(v string) bool { return !strings.HasPrefix(v, prev.id+"/") }) {
			s.rc.Probe("lock_released_by_later_polka")
			return
		}
	}
	s.rc.Violate("lock-rule", "lock-given-up-without-later-polka", "correct validator n%d held a lock on block %.12s since round %d of height %d and gave it up (now round %d, locked round %d) although no later round has +2/3 prevotes for anything else on the wire", n.idx, prev.id, prev.r, cur.h, st.Round, cur.r)
}

type lockObs struct {
	inc int
	h   int64
	r   int32
	id  string
}
