package netsim

import (
	"fmt"
	"strings"

	"github.com/icon-project/goloop/consensus"
)

// Lock-rule monitor (part of the C01 oracle).
//
// Agreement under f < n/3 rests on two obligations of every correct validator,
// both decidable from the harness' own record of the wire:
//
//	R2  it precommits a block Y in round r only if more than two thirds of the
//	    validators prevoted Y in round r (a polka for Y at r is on the wire
//	    before the precommit is);
//	R1  after precommitting block X in round r it prevotes anything else (nil
//	    or another block) in a later round r' only if, in some round r'' with
//	    r < r'' <= r', more than two thirds prevoted a value other than X
//	    (that is the only thing that may release the lock on X).
//
// A run in which a correct validator breaks R1 or R2 is a run in which the
// adversary (who controls delivery and f validators) can complete a
// disagreement, even if it does not happen to do so in this schedule; the
// monitor reports it as class "lock-rule". Votes are registered in the order
// they are handed to the network, so "is on the wire before" is exact; votes a
// restarted validator finds in its WAL image are registered late, which can
// only add polkas, never remove one.
type lockState struct {
	round int32
	value string
}

func (o *oracle) polka(h int64, r int32, accept func(value string) bool) bool {
	vals := o.validators[h]
	if len(vals) == 0 {
		return true // validator set not known to the oracle yet: no judgement
	}
	isVal := map[string]bool{}
	for _, v := range vals {
		isVal[v.String()] = true
	}
	for value, signers := range o.prevotes[fmt.Sprintf("%d/%d", h, r)] {
		if !accept(value) {
			continue
		}
		c := 0
		for s := range signers {
			if isVal[s] {
				c++
			}
		}
		if 3*c > 2*len(vals) {
			return true
		}
	}
	return false
}

func (o *oracle) lockRule(signer string, vm *consensus.VoteMessage, value string) {
	h, r := vm.Height, vm.Round
	isNil := vm.BlockPartSetIDAndNTSVoteCount == nil
	if isNil {
		value = "nil"
	}
	if vm.Type == consensus.VoteTypePrevote {
		k := fmt.Sprintf("%d/%d", h, r)
		m := o.prevotes[k]
		if m == nil {
			m = map[string]map[string]bool{}
			o.prevotes[k] = m
		}
		if m[value] == nil {
			m[value] = map[string]bool{}
		}
		m[value][signer] = true
	}
	c := o.isCorrect(signer)
	if c == nil {
		return
	}
	if _, ok := o.validators[h]; !ok {
		// the vote may be on the wire before the oracle has polled the block that designates the validators
		o.ensureValidators(h)
		if _, ok := o.validators[h]; !ok {
			o.s.rc.Probe("lock_rule_skipped_unknown_validators")
			return
		}
	}
	lk := fmt.Sprintf("%s/%d", signer, h)
	switch vm.Type {
	case consensus.VoteTypePrecommit:
		if isNil {
			return
		}
		o.s.rc.Probe("lock_rule_precommit_checked")
		if !o.polka(h, r, func(v string) bool { return v == value }) {
			o.s.rc.Violate("lock-rule", "precommit-without-polka", "correct validator n%d precommitted %.20s at height %d round %d although no +2/3 prevotes for it in that round were on the wire", c.idx, value, h, r)
			return
		}
		if prev, ok := o.lastPC[lk]; !ok || prev.round <= r {
			o.lastPC[lk] = lockState{r, value}
		}
	case consensus.VoteTypePrevote:
		prev, ok := o.lastPC[lk]
		if !ok || r <= prev.round || value == prev.value {
			return
		}
		o.s.rc.Probe("lock_rule_prevote_against_earlier_precommit_checked")
		released := false
		for rr := prev.round + 1; rr <= r && !released; rr++ {
			released = o.polka(h, rr, func(v string) bool { return v != prev.value })
		}
		if !released {
			o.s.rc.Violate("lock-rule", "prevote-against-lock", "correct validator n%d precommitted %.20s at height %d round %d and prevoted %.20s in round %d although no round in between had +2/3 prevotes for anything else", c.idx, prev.value, h, prev.round, value, r)
			return
		}
		o.s.rc.Probe("lock_released_by_later_polka")
	}
}

// ensureValidators reads the validator set designated for height h (by block
// h-1) from any live correct node, without any agreement/certificate check
// (those happen in poll, in finalization order).
func (o *oracle) ensureValidators(h int64) {
	if h < 1 {
		return
	}
	for _, n := range o.s.nodes {
		if n.byz || n.inc == nil || !n.inc.alive() || n.inc.bm == nil {
			continue
		}
		blk, err := n.inc.bm.GetBlockByHeight(h - 1)
		if err != nil || blk == nil || blk.NextValidators() == nil {
			continue
		}
		o.validators[h] = validatorsOf(blk.NextValidators())
		return
	}
}

// ---- local commit certificate (C01 second sentence / C05 at the node boundary)
//
// Every path into a commit (consensus, vote sync, fast sync) goes through
// enterCommit, which writes the precommits it commits on to the commit WAL.
// When a correct validator later reports height h as finalized with block id,
// the last such record it wrote for h must itself be a certificate for id:
// valid precommit signatures of more than two thirds of the validators of h,
// all over (h, one round, id, one part set).

type commitRecord struct {
	votes []*consensus.VoteMessage
}

func (o *oracle) onCommitWAL(n *node, rec []byte) {
	if len(rec) < 2 {
		return
	}
	sub := uint16(rec[0])<<8 | uint16(rec[1])
	msg, err := consensus.UnmarshalMessage(sub, rec[2:])
	if err != nil {
		return
	}
	vlm, ok := msg.(*consensus.VoteListMessage)
	if !ok || vlm.VoteList == nil || vlm.VoteList.Len() == 0 {
		return
	}
	cr := &commitRecord{}
	for i := 0; i < vlm.VoteList.Len(); i++ {
		cr.votes = append(cr.votes, vlm.VoteList.Get(i))
	}
	if n.commitRecs == nil {
		n.commitRecs = map[int64]*commitRecord{}
	}
	n.commitRecs[cr.votes[0].Height] = cr
}

func (o *oracle) checkLocalCertificate(n *node, h int64, id string) {
	cr := n.commitRecs[h]
	if cr == nil {
		o.s.rc.Probe("no_commit_wal_record_for_finalized_height")
		return
	}
	vals := o.validators[h]
	if len(vals) == 0 {
		return
	}
	isVal := map[string]bool{}
	for _, v := range vals {
		isVal[v.String()] = true
	}
	// group by (round, block id, part set): the best group must carry the quorum and be for id
	groups := map[string]map[string]bool{}
	for _, vm := range cr.votes {
		if vm.Height != h || vm.Type != consensus.VoteTypePrecommit || vm.BlockPartSetIDAndNTSVoteCount == nil {
			continue
		}
		signer := signerOf(vm.Signature, consensus.SimSignedBytes(vm))
		if signer == "" || !isVal[signer] {
			continue
		}
		k := fmt.Sprintf("%d/%x/%x:%x", vm.Round, vm.BlockID, vm.BlockPartSetIDAndNTSVoteCount.CountWord, vm.BlockPartSetIDAndNTSVoteCount.Hash)
		if groups[k] == nil {
			groups[k] = map[string]bool{}
		}
		groups[k][signer] = true
	}
	o.s.rc.Metric("local_certificates_checked", 1)
	best, bestKey := 0, ""
	for k, g := range groups {
		if strings.Contains(k, "/"+id+"/") && len(g) > best {
			best, bestKey = len(g), k
		}
	}
	if 3*best > 2*len(vals) {
		return
	}
	other := 0
	for k, g := range groups {
		if k != bestKey && len(g) > other {
			other = len(g)
		}
	}
	o.s.rc.Violate("finalized-without-quorum", "commit-wal-record", "n%d finalized height %d block %.12s but the precommits it recorded when entering commit certify it with only %d of %d validators (largest group for anything else: %d)", n.idx, h, id, best, len(vals), other)
}
