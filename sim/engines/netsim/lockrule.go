package netsim

import (
	"fmt"

	"github.com/icon-project/goloop/consensus"
)

// Lock-rule monitor (part of the C01 oracle).
//
// Agreement under f < n/3 rests on two obligations of every correct validator,
// both decidable from the harness' own record of the wire:
//
//  R2  it precommits a block Y in round r only if more than two thirds of the
//      validators prevoted Y in round r (a polka for Y at r is on the wire
//      before the precommit is);
//  R1  after precommitting block X in round r it prevotes anything else (nil
//      or another block) in a later round r' only if, in some round r'' with
//      r < r'' <= r', more than two thirds prevoted a value other than X
//      (that is the only thing that may release the lock on X).
//
// A run in which a correct validator breaks R1 or R2 is a run in which the
// adversary (who controls delivery and f validators) can complete a
// disagreement, even if it does not happen to do so in this schedule; the
// monitor reports it as class "lock-rule". Votes are registered in the order
// they are handed to the network, so "is on the wire before" is exact; votes a
// restarted validator finds in its WAL image are registered late, which can
// only add polkas, never remove one.
type lockState struct {
	round int32
	value string
}

func (o *oracle) polka(h int64, r int32, accept func(value string) bool) bool {
	vals := o.validators[h]
	if len(vals) == 0 {
		return true // validator set not known to the oracle yet: no judgement
	}
	isVal := map[string]bool{}
	for _, v := range vals {
		isVal[v.String()] = true
	}
	for value, signers := range o.prevotes[fmt.Sprintf("%d/%d", h, r)] {
		if !accept(value) {
			continue
		}
		c := 0
		for s := range signers {
			if isVal[s] {
				c++
			}
		}
		if 3*c > 2*len(vals) {
			return true
		}
	}
	return false
}

func (o *oracle) lockRule(signer string, vm *consensus.VoteMessage, value string) {
	h, r := vm.Height, vm.Round
	isNil := vm.BlockPartSetIDAndNTSVoteCount == nil
	if isNil {
		value = "nil"
	}
	if vm.Type == consensus.VoteTypePrevote {
		k := fmt.Sprintf("%d/%d", h, r)
		m := o.prevotes[k]
		if m == nil {
			m = map[string]map[string]bool{}
			o.prevotes[k] = m
		}
		if m[value] == nil {
			m[value] = map[string]bool{}
		}
		m[value][signer] = true
	}
	c := o.isCorrect(signer)
	if c == nil {
		return
	}
	if _, ok := o.validators[h]; !ok {
		// the vote may be on the wire before the oracle has polled the block that designates the validators
		o.ensureValidators(h)
		if _, ok := o.validators[h]; !ok {
			o.s.rc.Probe("lock_rule_skipped_unknown_validators")
			return
		}
	}
	lk := fmt.Sprintf("%s/%d", signer, h)
	switch vm.Type {
	case consensus.VoteTypePrecommit:
		if isNil {
			return
		}
		o.s.rc.Probe("lock_rule_precommit_checked")
		if !o.polka(h, r, func(v string) bool { return v == value }) {
			o.s.rc.Violate("lock-rule", "precommit-without-polka", "correct validator n%d precommitted %.20s at height %d round %d although no +2/3 prevotes for it in that round were on the wire", c.idx, value, h, r)
			return
		}
		if prev, ok := o.lastPC[lk]; !ok || prev.round <= r {
			o.lastPC[lk] = lockState{r, value}
		}
	case consensus.VoteTypePrevote:
		prev, ok := o.lastPC[lk]
		if !ok || r <= prev.round || value == prev.value {
			return
		}
		o.s.rc.Probe("lock_rule_prevote_against_earlier_precommit_checked")
		released := false
		for rr := prev.round + 1; rr <= r && !released; rr++ {
			released = o.polka(h, rr, func(v string) bool { return v != prev.value })
		}
		if !released {
			o.s.rc.Violate("lock-rule", "prevote-against-lock", "correct validator n%d precommitted %.20s at height %d round %d and prevoted %.20s in round %d although no round in between had +2/3 prevotes for anything else", c.idx, prev.value, h, prev.round, value, r)
			return
		}
		o.s.rc.Probe("lock_released_by_later_polka")
	}
}

// ensureValidators reads the validator set designated for height h (by block
// h-1) from any live correct node, without any agreement/certificate check
// (those happen in poll, in finalization order).
func (o *oracle) ensureValidators(h int64) {
	if h < 1 {
		return
	}
	for _, n := range o.s.nodes {
		if n.byz || n.inc == nil || !n.inc.alive() || n.inc.bm == nil {
			continue
		}
		blk, err := n.inc.bm.GetBlockByHeight(h - 1)
		if err != nil || blk == nil || blk.NextValidators() == nil {
			continue
		}
		o.validators[h] = validatorsOf(blk.NextValidators())
		return
	}
}
