package netsim

import (
	"container/heap"
	"fmt"
	"os"
	"path/filepath"
	"runtime"
	"sort"
	"strings"
	"sync"
	"sync/atomic"
	"testing"
	"time"

	"github.com/icon-project/goloop/block"
	"github.com/icon-project/goloop/common"
	"github.com/icon-project/goloop/common/crypto"
	"github.com/icon-project/goloop/common/log"
	"github.com/icon-project/goloop/common/wallet"
	"github.com/icon-project/goloop/consensus"
	"github.com/icon-project/goloop/module"
	"github.com/icon-project/goloop/network"
	"github.com/icon-project/goloop/service/platform/basic"
	"github.com/icon-project/goloop/test"

	"verif/sim/kit"
)

// crash sites
const (
	siteWALWriteBefore = iota
	siteWALWriteAfter
	siteWALSyncMid
	siteWALSyncAfter
	siteNetSend
	siteDBSet
	siteQuiescent
	nSites
)

var siteNames = [...]string{"wal.write.before", "wal.write.after", "wal.sync.mid", "wal.sync.after", "net.send.before", "db.set.before", "quiescent"}

func goid() uint64 {
	var buf [64]byte
	n := runtime.Stack(buf[:], false)
	// "goroutine 123 ["
	s := buf[len("goroutine "):n]
	var id uint64
	for _, c := range s {
		if c < '0' || c > '9' {
			break
		}
		id = id*10 + uint64(c-'0')
	}
	return id
}

// lockSite names the function that called common.(*Mutex).Lock.
func lockSite() string {
	var pcs [12]uintptr
	n := runtime.Callers(3, pcs[:])
	fr := runtime.CallersFrames(pcs[:n])
	for {
		f, more := fr.Next()
		if f.Function != "" && !strings.Contains(f.Function, "common.(*Mutex).Lock") && !strings.Contains(f.Function, "common.simLock") &&
			!strings.Contains(f.Function, "netsim.(*sim).lockHook") && !strings.Contains(f.Function, "common.Lock") {
			return fmt.Sprintf("%s:%d", f.Function, f.Line)
		}
		if !more {
			return "?"
		}
	}
}

var traceSites = os.Getenv("VERIF_TRACE_SITES") != ""

type nopT struct{}

func (nopT) Errorf(format string, args ...interface{}) {}
func (nopT) Logf(format string, args ...any)           {}

type regulator struct{ commit time.Duration }

func (r *regulator) MaxTxCount() int                                   { return 1000 }
func (r *regulator) OnPropose(now time.Time)                           {}
func (r *regulator) CommitTimeout() time.Duration                      { return r.commit }
func (r *regulator) MinCommitTimeout() time.Duration                   { return r.commit }
func (r *regulator) OnTxExecution(count int, ed, fd time.Duration)     {}
func (r *regulator) SetBlockInterval(i time.Duration, d time.Duration) {}

// simChain is the chain object handed to the block manager and consensus: the
// repo's test chain with the network manager, regulator, block and service
// managers replaced by the simulator's.
type simChain struct {
	*test.Chain
	nm  *simNM
	reg module.Regulator
	bm  module.BlockManager
	bmw module.BlockManager
	sm  module.ServiceManager
	cs  module.Consensus
}

func (c *simChain) NetworkManager() module.NetworkManager { return c.nm }
func (c *simChain) Regulator() module.Regulator           { return c.reg }
func (c *simChain) BlockManager() module.BlockManager {
	if c.bmw != nil {
		return c.bmw // what the consensus engine sees (bmwrap.go)
	}
	return c.bm
}
func (c *simChain) ServiceManager() module.ServiceManager { return c.sm }
func (c *simChain) Consensus() module.Consensus           { return c.cs }

// smWrap adds what the repo's test service manager leaves unimplemented.
type smWrap struct {
	*test.ServiceManager
	inc *incarnation
}

func (w *smWrap) SendPatch(patch module.Patch) error { return nil }

// GetMinimizeBlockGen: the on-chain "do not produce empty blocks" switch, drawn per run (a tuning knob
// the engine's transaction-wait step depends on).
func (w *smWrap) GetMinimizeBlockGen(result []byte) bool { return w.inc.s.cfg.MinBlockGen }

func (w *smWrap) SendDoubleSignReport(result []byte, vh []byte, data []module.DoubleSignData) error {
	w.inc.s.onDoubleSignReport(w.inc, data)
	return nil
}

type skewTimestamper struct{ skewUs int64 }

func (t *skewTimestamper) GetVoteTimestamp(h, ts int64) int64  { return ts + t.skewUs }
func (t *skewTimestamper) GetBlockTimestamp(h, ts int64) int64 { return ts }

type node struct {
	idx     int
	w       module.Wallet
	addr    module.Address
	peerID  module.PeerID
	byz     bool
	inc     *incarnation // current incarnation (may be dead while down)
	nInc    int
	outbox  []outMsg
	sendSeq int
	skewUs  int64

	// crash planning (protected by sim.mu)
	crashArmed     bool
	crashCountdown int
	crashSites     [nSites]bool
	forceJunk      bool // the next crash image of this node has junk behind the header of the first unsynced record
	recrash        bool // arm another crash of this node soon after its next restart
	crashedAt      int  // site, valid when pendingCrash
	pendingCrash   *crashImage
	crashes        int

	finalized map[int64]string // height -> block id (hex) over all incarnations
	lastSeenH int64

	sticky     map[stickyKey]stickyVal
	stickyH    int64
	stickyInc  int
	touched    bool
	fsSendSeq  int                     // fast-sync block requests handed to the network by this node (all incarnations)
	lock       lockObs                 // last observed lock (white-box lock monitor)
	commitRecs map[int64]*commitRecord // height -> last precommit list this node wrote to its commit WAL
}

type crashImage struct {
	site int
	wal  *walImage
	db   *simDB
	inc  *incarnation
}

type incarnation struct {
	s         *sim
	node      *node
	n         int
	dead      atomic.Bool
	db        *simDB
	walDir    string
	wal       *walMgr
	nm        *simNM
	tc        *test.Chain
	chain     *simChain
	bm        module.BlockManager
	cs        module.Consensus
	mtx       *common.Mutex
	fsMtx     []*common.Mutex // fast-sync client and server mutexes (registered once Start created them)
	fsReg     bool
	genesisRT bool // C08: genesis block round trip checked for this incarnation
	started   atomic.Bool
	startErr  error
	termed    bool
	ungated   atomic.Bool // locator-flusher writes are no longer held back (incarnation crashed or being stopped)
}

func (inc *incarnation) alive() bool { return !inc.dead.Load() }

type mutexState struct {
	holder uint64 // goroutine that currently holds it
	node   *node
	inc    *incarnation
	kind   int // 0 consensus mutex, 1 fast-sync client, 2 fast-sync server
	held   bool
}

type lockReq struct {
	ms   *mutexState
	gid  uint64
	site string // function that asked for the mutex (canonical ordering key)
	ch   chan struct{}
}

type event struct {
	at   time.Duration
	seq  uint64
	desc string
	run  func()
}

type eventHeap []*event

func (h eventHeap) Len() int { return len(h) }
func (h eventHeap) Less(i, j int) bool {
	if h[i].at != h[j].at {
		return h[i].at < h[j].at
	}
	return h[i].seq < h[j].seq
}
func (h eventHeap) Swap(i, j int)       { h[i], h[j] = h[j], h[i] }
func (h *eventHeap) Push(x interface{}) { *h = append(*h, x.(*event)) }
func (h *eventHeap) Pop() interface{} {
	old := *h
	n := len(old)
	x := old[n-1]
	*h = old[:n-1]
	return x
}

type config struct {
	N               int
	F               int
	TargetHeight    int64
	MaxSim          time.Duration
	MaxSteps        int64
	TmoPropose      time.Duration
	Commit          time.Duration
	LatMin          time.Duration
	LatJitter       time.Duration
	DropPm          int
	DupPm           int
	CorruptPm       int
	Crashes         int
	Partitions      int
	TxCount         int
	ValChange       bool
	SkewMaxUs       int64
	ReplayOld       bool  // re-deliver arbitrarily old messages
	SlowPm          int   // per-mille of deliveries that take seconds instead of milliseconds
	DropPrecommitPm int   // per-mille of precommit votes of rounds 0-2 that are lost (locks without commits)
	MinBlockGen     bool  // chain configured not to produce empty blocks (validators wait for transactions before proposing)
	SplitPolkaPm    int   // per-mille of (height, round < 3) in which prevotes reach only a tape-chosen subset of the validators (some lock, some do not)
	Isolate         bool  // profile lag: one running validator is cut off until the others are LagHeights ahead
	LagHeights      int64 // fastsync profile: the laggard boots when the others have finalized this many heights
}

type sim struct {
	rc   *kit.RunCtx
	tape *kit.Tape
	t    *testing.T
	cfg  config

	mu                sync.Mutex
	nodes             []*node
	heap              eventHeap
	seq               uint64
	start             time.Time
	wake              chan struct{}
	lockReqs          []*lockReq
	deferred          []*deferredCall          // block-manager requests of the engines not started yet (bmwrap.go)
	flushGate         []*flushWaiter           // locator-flusher goroutines held in a database write (db.go)
	fsLast            map[[2]int]time.Duration // delivery time of the last fast-sync message per (src, dst): ordered stream
	polkaSplit        map[string]int           // "height/round" -> bitmask of destinations starved of prevotes (0: none)
	laggard           *node                    // fastsync profile: the validator that boots late (set when it boots)
	mutexes           map[*common.Mutex]*mutexState
	genesis           string
	obs               []func()        // observations queued by SUT goroutines, flushed by the driver
	part              map[[2]int]bool // partitioned pairs (i<j)
	held              []heldMsg
	running           int32 // events currently executing (for diagnostics)
	txSeq             int
	dsReports         []dsReport
	dirty             bool
	recent            []heldMsg // pool of old consensus traffic (late-duplicate fault)
	recentN           int
	lastProgressCount int64
	lastProgressAt    time.Duration

	orc *oracle
	byz *byzantine
}

type heldMsg struct {
	src, dst int
	m        outMsg
}

func (s *sim) now() time.Duration { return time.Since(s.start) }

func (s *sim) poke() {
	select {
	case s.wake <- struct{}{}:
	default:
	}
}

func (s *sim) schedule(after time.Duration, desc string, run func()) {
	s.seq++
	heap.Push(&s.heap, &event{at: s.now() + after, seq: s.seq, desc: desc, run: run})
}

func (s *sim) peersOf(n *node) []module.PeerID {
	s.mu.Lock()
	defer s.mu.Unlock()
	var out []module.PeerID
	for _, o := range s.nodes {
		if o == n {
			continue
		}
		if o.byz || (o.inc != nil && o.inc.alive()) {
			out = append(out, o.peerID)
		}
	}
	return out
}

func (s *sim) nodeByPeer(id module.PeerID) *node {
	for _, n := range s.nodes {
		if n.peerID.Equal(id) {
			return n
		}
	}
	return nil
}

// ---- mutex scheduling hooks (common.SimLockHook / SimUnlockHook)

func (s *sim) lockHook(m *common.Mutex) {
	s.mu.Lock()
	ms := s.mutexes[m]
	if ms == nil {
		s.mu.Unlock()
		return
	}
	req := &lockReq{ms: ms, gid: goid(), site: lockSite(), ch: make(chan struct{})}
	s.lockReqs = append(s.lockReqs, req)
	s.mu.Unlock()
	s.poke()
	<-req.ch
}

func (s *sim) unlockHook(m *common.Mutex) {
	s.mu.Lock()
	ms := s.mutexes[m]
	if ms != nil {
		ms.held = false
		ms.holder = 0
	}
	s.mu.Unlock()
	if ms != nil {
		s.poke()
	}
}

// grantOne lets one pending requester of a free registered mutex proceed. The
// choice among candidates (canonical order: node, incarnation, goroutine id)
// is a tape decision: this is where intra-node interleavings are explored.
func (s *sim) grantOne() bool {
	s.mu.Lock()
	var cands []*lockReq
	for _, r := range s.lockReqs {
		if !r.ms.held {
			cands = append(cands, r)
		}
	}
	if len(cands) == 0 {
		s.mu.Unlock()
		return false
	}
	sort.SliceStable(cands, func(i, j int) bool {
		a, b := cands[i], cands[j]
		if a.ms.node.idx != b.ms.node.idx {
			return a.ms.node.idx < b.ms.node.idx
		}
		if a.ms.inc.n != b.ms.inc.n {
			return a.ms.inc.n < b.ms.inc.n
		}
		if a.ms.kind != b.ms.kind {
			return a.ms.kind < b.ms.kind
		}
		// goroutine ids only order siblings reliably (creation order between
		// unrelated parents - runtime timers vs the driver - depends on
		// preemption), so the requesting call site comes first
		if a.site != b.site {
			return a.site < b.site
		}
		return a.gid < b.gid
	})
	ci := s.tape.Choose("grant", len(cands))
	r := cands[ci]
	if traceSites {
		var ss []string
		for _, c := range cands {
			ss = append(ss, fmt.Sprintf("n%d.k%d.%s", c.ms.node.idx, c.ms.kind, c.site[strings.LastIndex(c.site, "/")+1:]))
		}
		s.rc.Event("GRANT-SITES %v", ss)
	}
	if r.ms.kind == 0 {
		s.rc.Event("GRANT n%d %d/%d", r.ms.node.idx, ci, len(cands))
	} else {
		s.rc.Event("GRANT n%d fs%d %d/%d", r.ms.node.idx, r.ms.kind, ci, len(cands))
	}
	r.ms.held = true
	r.ms.holder = r.gid
	r.ms.node.touched = true
	for i, x := range s.lockReqs {
		if x == r {
			s.lockReqs = append(s.lockReqs[:i], s.lockReqs[i+1:]...)
			break
		}
	}
	s.mu.Unlock()
	s.rc.Metric("lock_grants", 1)
	if len(cands) > 1 {
		s.rc.Metric("lock_grant_choices", 1)
	}
	close(r.ch)
	return true
}

// ---- node assembly

func (s *sim) makeGenesis() {
	var vals []string
	for _, n := range s.nodes {
		vals = append(vals, fmt.Sprintf(`"%s"`, n.addr))
	}
	s.genesis = fmt.Sprintf(`{
		"accounts": [
			{"name":"treasury","address":"hx1000000000000000000000000000000000000000","balance":"0x0"},
			{"name":"god","address":"hx0000000000000000000000000000000000000000","balance":"0x0"}
		],
		"message": "", "nid": "0x1",
		"chain": {"validatorList": [ %s ]}
	}`, strings.Join(vals, ", "))
}

func (s *sim) newWallet(label string) module.Wallet {
	for {
		b := s.tape.Bytes(label, 32)
		sk, err := crypto.ParsePrivateKey(b)
		if err != nil {
			continue
		}
		w, err := wallet.NewFromPrivateKey(sk)
		if err != nil {
			continue
		}
		return w
	}
}

func (s *sim) newIncarnation(n *node, db *simDB, walDir string) *incarnation {
	n.nInc++
	inc := &incarnation{s: s, node: n, n: n.nInc, db: db, walDir: walDir}
	db.inc = inc
	inc.wal = newWalMgr(inc)
	inc.nm = newSimNM(inc)
	return inc
}

// boot builds the node's software stack on top of the incarnation's durable
// state and starts consensus (real applyWAL / repair code runs here).
func (s *sim) boot(inc *incarnation) {
	n := inc.node
	logger := log.New()
	logger.SetLevel(log.PanicLevel)
	if lv := os.Getenv("VERIF_LOGLEVEL"); lv != "" {
		if l, err := log.ParseLevel(lv); err == nil {
			logger.SetLevel(l)
		}
	}
	tc, err := test.NewChain(nopT{}, n.w, inc.db, logger, consensus.NewCommitVoteSetFromBytes, s.genesis)
	if err != nil {
		panic(err)
	}
	inc.tc = tc
	sc := &simChain{Chain: tc, nm: inc.nm, reg: &regulator{s.cfg.Commit}}
	inc.chain = sc
	cm, err := basic.Platform.NewContractManager(inc.db, filepath.Join(s.rc.Scratch, fmt.Sprintf("contract-%d-%d", n.idx, inc.n)), logger)
	if err != nil {
		panic(err)
	}
	sm := &smWrap{ServiceManager: test.NewServiceManager(tc, basic.Platform, cm, nil), inc: inc}
	tc.SetServiceManager(sm)
	sc.sm = sm
	bm, err := block.NewManager(sc, nil, nil)
	if err != nil {
		// a node that cannot reopen its own database after a crash
		s.observe(func() {
			s.rc.Violate("restart-failed", "block.NewManager", "node %d incarnation %d: %v", n.idx, inc.n, err)
		})
		inc.dead.Store(true)
		return
	}
	tc.SetBlockManager(bm)
	sc.bm = bm
	sc.bmw = &bmWrap{BlockManager: bm, inc: inc}
	inc.bm = bm
	var ts module.Timestamper
	if n.skewUs != 0 {
		ts = &skewTimestamper{n.skewUs}
	}
	cs := consensus.New(sc, inc.walDir, inc.wal, ts, nil, nil, s.cfg.TmoPropose)
	sc.cs = cs
	inc.cs = cs
	inc.mtx = consensus.SimMutexOf(cs)
	s.mu.Lock()
	s.mutexes[inc.mtx] = &mutexState{node: n, inc: inc}
	s.mu.Unlock()
	go func() {
		err := cs.Start()
		if err != nil {
			inc.startErr = err
			s.observe(func() {
				s.rc.Violate("restart-failed", "consensus.Start", "node %d incarnation %d: %v", n.idx, inc.n, err)
			})
		}
		inc.started.Store(true)
		s.poke()
	}()
}

// registerFastSyncMutexes runs on the driver at quiescence: once an
// incarnation's Start has created its syncer, the fast-sync client and server
// mutexes are scheduled like the consensus mutex (fetcher timeouts, responses
// and joins of one node otherwise race for them in wall-clock order).
func (s *sim) registerFastSyncMutexes() {
	for _, n := range s.nodes {
		inc := n.inc
		if inc == nil || inc.fsReg || !inc.started.Load() || inc.cs == nil || inc.startErr != nil {
			continue
		}
		inc.fsReg = true
		ms := consensus.SimFastSyncMutexesOf(inc.cs)
		s.mu.Lock()
		for i, m := range ms {
			s.mutexes[m] = &mutexState{node: n, inc: inc, kind: i + 1}
		}
		inc.fsMtx = ms
		s.mu.Unlock()
	}
}

// holdsRegisteredMutex reports whether goroutine gid holds one of the
// incarnation's scheduled mutexes (caller holds s.mu).
func (s *sim) holdsRegisteredMutex(inc *incarnation, gid uint64) bool {
	if ms := s.mutexes[inc.mtx]; ms != nil && ms.held && ms.holder == gid {
		return true
	}
	for _, m := range inc.fsMtx {
		if ms := s.mutexes[m]; ms != nil && ms.held && ms.holder == gid {
			return true
		}
	}
	return false
}

func (s *sim) observe(f func()) {
	s.mu.Lock()
	s.obs = append(s.obs, f)
	s.mu.Unlock()
	s.poke()
}

// ---- crash / restart

func (inc *incarnation) crashPoint(site int) {
	if inc.dead.Load() {
		return
	}
	s, n := inc.s, inc.node
	s.mu.Lock()
	if n.inc != inc || !n.crashArmed || !n.crashSites[site] {
		s.mu.Unlock()
		return
	}
	n.crashCountdown--
	if n.crashCountdown > 0 {
		s.mu.Unlock()
		return
	}
	n.crashArmed = false
	s.mu.Unlock()
	s.crashNow(inc, site)
}

// crashNow freezes the durable image at this very instant and fences the
// incarnation: from now on nothing it does is observable (sends are dropped,
// its WAL directory and database are abandoned). The zombie keeps running
// until the driver terminates it at the next quiescence.
func (s *sim) crashNow(inc *incarnation, site int) {
	if !inc.dead.CompareAndSwap(false, true) {
		return
	}
	defer s.releaseFlusherOf(inc)
	n := inc.node
	dst := filepath.Join(s.rc.Scratch, fmt.Sprintf("n%d-i%d-wal", n.idx, inc.n+1))
	img := &crashImage{site: site, inc: inc}
	img.wal = inc.wal.freeze(inc.walDir, dst)
	img.db = inc.db.clone()
	s.mu.Lock()
	n.pendingCrash = img
	n.crashes++
	s.mu.Unlock()
	s.poke()
}

// handleCrashes runs on the driver at quiescence.
func (s *sim) handleCrashes() bool {
	did := false
	for _, n := range s.nodes {
		s.mu.Lock()
		img := n.pendingCrash
		n.pendingCrash = nil
		s.mu.Unlock()
		if img == nil {
			continue
		}
		did = true
		s.rc.Fault("crash")
		s.rc.Fault("crash@" + siteNames[img.site])
		// torn tails: every log keeps its durable floor and an arbitrary prefix beyond it
		var cuts []string
		for _, l := range img.wal.logs {
			if l.tailPath == "" {
				continue
			}
			span := int(l.size - l.floor)
			cut := l.size
			if span > 0 {
				cutKind := s.tape.Weighted("crash.cut", 4, 3, 3, 2, 2)
				if n.forceJunk {
					cutKind = 4
				}
				switch cutKind {
				case 0: // everything that reached the OS survives
				case 1:
					cut = l.floor
				case 2:
					cut = l.floor + int64(s.tape.Choose("crash.cutlen", span+1))
				case 3: // biased: just after a record header near the end / one byte short
					cut = tornCut(l.data, l.floor, s.tape)
				case 4:
					// torn sectors: the file kept its length and the header of an unsynced record, but the
					// payload bytes that should follow never reached the disk (what is there is junk): a
					// full-length record whose checksum does not match
					if b := tornCut(l.data, l.floor, nil); b >= l.floor && b+8 < l.size {
						junk := append([]byte(nil), l.data...)
						seed := uint64(s.tape.Choose("crash.junk", 1<<30)) + 1
						for i := b + 8; i < l.size; i++ {
							seed = seed*6364136223846793005 + 1442695040888963407
							junk[i] = byte(seed>>33) | 1
						}
						if os.WriteFile(l.tailPath, junk, 0600) == nil {
							s.rc.Fault("torn_wal_payload_junk")
						}
					}
				}
			}
			if cut < l.size {
				os.Truncate(l.tailPath, cut)
				s.rc.Fault("torn_wal_tail")
			}
			if l.tailNew && cut == 0 && s.tape.Permille("crash.nonewseg", 300) {
				os.Remove(l.tailPath)
			}
			cuts = append(cuts, fmt.Sprintf("%s:%d/%d/%d", l.base, l.floor, cut, l.size))
		}
		s.rc.Event("CRASH n%d inc%d site=%s wal=[%s]", n.idx, img.inc.n, siteNames[img.site], strings.Join(cuts, " "))
		s.orc.onCrash(n)
		// peers notice
		for _, o := range s.nodes {
			if o != n && o.inc != nil && o.inc.alive() {
				s.notifyLeave(o.inc, n.peerID)
			}
		}
		s.termIncarnation(img.inc)
		down := time.Duration(s.tape.Range("crash.down", 1, 400)) * 5 * time.Millisecond
		db, dir := img.db, img.wal.dir
		s.schedule(down, fmt.Sprintf("restart n%d", n.idx), func() { s.restart(n, db, dir) })
		n.forceJunk = false
		if n.recrash {
			n.recrash = false
			again := down + time.Duration(s.tape.Range("crash.again", 20, 600))*time.Millisecond
			nth := 1 + s.tape.Choose("crash.again.nth", 12)
			s.schedule(again, fmt.Sprintf("re-arm n%d", n.idx), func() {
				if n.inc == nil || !n.inc.alive() || n.crashArmed {
					return
				}
				var sites [nSites]bool
				for i := range sites {
					sites[i] = i != siteQuiescent
				}
				s.mu.Lock()
				n.crashArmed, n.crashCountdown, n.crashSites = true, nth, sites
				s.mu.Unlock()
				s.rc.Fault("second_crash_armed_after_junk_image")
				s.rc.Event("ARM-CRASH n%d again sites=any nth=%d", n.idx, nth)
			})
		}
	}
	return did
}

// tornCut picks a cut position at a record boundary + small offset.
func tornCut(data []byte, floor int64, t *kit.Tape) int64 {
	var bounds []int64
	off := int64(0)
	for off+8 <= int64(len(data)) {
		plen := int64(uint32(data[off+4])<<24 | uint32(data[off+5])<<16 | uint32(data[off+6])<<8 | uint32(data[off+7]))
		if off >= floor {
			bounds = append(bounds, off)
		}
		off += 8 + plen
	}
	if len(bounds) == 0 {
		return floor
	}
	if t == nil {
		return bounds[0] // first record that is not covered by a sync
	}
	b := bounds[len(bounds)-1-t.Choose("crash.bound", len(bounds))]
	d := []int64{8, 1, 4, 7, 9, 0}[t.Choose("crash.off", 6)]
	c := b + d
	if c > int64(len(data)) {
		c = int64(len(data))
	}
	if c < floor {
		c = floor
	}
	return c
}

func (s *sim) notifyLeave(inc *incarnation, id module.PeerID) {
	s.mu.Lock()
	hs := append([]*simPH(nil), inc.nm.handlers...)
	s.mu.Unlock()
	for _, h := range hs {
		h := h
		go h.reactor.OnLeave(id)
	}
}

func (s *sim) notifyJoin(inc *incarnation, id module.PeerID) {
	s.mu.Lock()
	hs := append([]*simPH(nil), inc.nm.handlers...)
	s.mu.Unlock()
	for _, h := range hs {
		h := h
		go h.reactor.OnJoin(id)
	}
}

// termIncarnation stops timers/tickers/goroutines of an incarnation (fenced if dead).
func (s *sim) termIncarnation(inc *incarnation) {
	if inc.termed {
		return
	}
	inc.termed = true
	s.releaseFlusherOf(inc)
	go func() {
		if inc.cs != nil {
			inc.cs.Term()
		}
		if inc.bm != nil {
			inc.bm.Term()
		}
		if inc.tc != nil {
			if lm, err := inc.tc.GetLocatorManager(); err == nil && lm != nil {
				lm.Term()
			}
			inc.tc.Close()
		}
	}()
}

func (s *sim) restart(n *node, db *simDB, walDir string) {
	inc := s.newIncarnation(n, db, walDir)
	s.mu.Lock()
	n.inc = inc
	s.mu.Unlock()
	s.rc.Fault("restart")
	s.rc.Event("RESTART n%d inc%d", n.idx, inc.n)
	s.boot(inc)
	// peers see it join once it is up; deliver OnJoin right away (the overlay connects on start)
	for _, o := range s.nodes {
		if o != n && o.inc != nil && o.inc.alive() {
			s.notifyJoin(o.inc, n.peerID)
		}
	}
}

func peerIDOf(a module.Address) module.PeerID { return network.NewPeerIDFromAddress(a) }
