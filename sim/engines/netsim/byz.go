package netsim

import (
	"bytes"
	"encoding/hex"
	"fmt"
	"io"
	"os"
	"sort"
	"time"

	"github.com/icon-project/goloop/block"
	"github.com/icon-project/goloop/common"
	"github.com/icon-project/goloop/common/codec"
	"github.com/icon-project/goloop/common/crypto"
	"github.com/icon-project/goloop/consensus"
	"github.com/icon-project/goloop/consensus/fastsync"
	"github.com/icon-project/goloop/module"
)

func cryptoSHA3(b []byte) []byte { return crypto.SHA3Sum256(b) }

// byzantine is the adversary. A Byzantine validator is a real node (so that it
// follows the chain and produces well-formed, correctly signed messages) whose
// outgoing traffic passes through this proxy: the proxy withholds, duplicates
// and replaces messages, re-signs conflicting votes and proposals with the
// validator's key, and swaps the block it proposes for a forged one. The
// adversary is omniscient: it learns from every message on the wire.
type byzantine struct {
	s      *sim
	active bool
	// behaviour switches (drawn per run)
	equivocate bool
	storm      bool
	withholdPm int
	forge      string // "", "C05", "C07", "C08"

	// knowledge: alternatives seen per height
	alts      map[int64][]altDecision
	voteTmpl  []byte                        // bytes of some real vote message (template for crafting)
	known     map[string][]byte             // crafted/own vote messages by (signer,h,r,type,variant)
	knownKeys []string                      // insertion order (deterministic)
	precommit map[int64]map[string][]pcItem // height -> decision key -> precommits seen (real ones)
	blockTS   map[string]int64              // block id -> timestamp (from proposals it decoded)
	blockByH  map[int64][]string            // height -> block ids seen in decoded proposals
	bodyVotes map[int64][]byte              // height h -> bf.Votes of a decoded block at h (commit votes for h-1)

	// forged block encodings, by part-set hash
	forged map[string]*forgedInfo

	partSets    map[string]consensus.PartSet // height/psid-hash -> parts seen on the wire
	partSetKeys map[int64][]string
	forgedAt    map[string]*forgedInfo // "height/round" of a forged proposal
	fsst        *fsState               // fast-sync lies (fastsync.go)
	fastsync    bool
	starveParts bool               // fastsync profile: withhold block parts from the laggard (it has the votes, not the block)
	rawBlocks   map[int64][][]byte // height -> complete block encodings seen on the wire (valid proposals of anybody)
}

type altDecision struct {
	bid  []byte
	psid *consensus.PartSetIDAndAppData
}

type pcItem struct {
	ts    int64
	sig   common.Signature
	round int32
	psid  *consensus.PartSetIDAndAppData
	bid   []byte
	from  string
}

type forgedInfo struct {
	allowed  map[string]bool // part-set hashes a correct validator may legitimately vote for in the forged round
	property string
	kind     string
	invalid  bool // the oracle's independent judgement: must not be accepted
	height   int64
}

func newByzantine(s *sim) *byzantine {
	return &byzantine{s: s, alts: map[int64][]altDecision{}, known: map[string][]byte{}, precommit: map[int64]map[string][]pcItem{},
		blockTS: map[string]int64{}, blockByH: map[int64][]string{}, bodyVotes: map[int64][]byte{}, forged: map[string]*forgedInfo{},
		partSets: map[string]consensus.PartSet{}, partSetKeys: map[int64][]string{}, rawBlocks: map[int64][][]byte{}, forgedAt: map[string]*forgedInfo{}}
}

var nilBlockID = codec.MustMarshalToBytes(1) // what a nil vote carries as block id: the encoded network id

func psidKey(p *consensus.PartSetIDAndAppData) string {
	if p == nil {
		return "nil"
	}
	return fmt.Sprintf("%x:%x", p.CountWord, p.Hash)
}

// learn is called for every message on the wire (from anybody).
func (b *byzantine) learn(sub module.ProtocolInfo, proto module.ProtocolInfo, data []byte) {
	if !b.active || (proto != module.ProtoConsensus && proto != module.ProtoConsensusSync) {
		return
	}
	msg, err := consensus.UnmarshalMessage(uint16(sub), data)
	if err != nil {
		return
	}
	note := func(vm *consensus.VoteMessage) {
		if vm.BlockPartSetIDAndNTSVoteCount == nil {
			return
		}
		found := false
		for _, a := range b.alts[vm.Height] {
			if bytes.Equal(a.bid, vm.BlockID) && psidKey(a.psid) == psidKey(vm.BlockPartSetIDAndNTSVoteCount) {
				found = true
			}
		}
		if !found {
			b.alts[vm.Height] = append(b.alts[vm.Height], altDecision{vm.BlockID, vm.BlockPartSetIDAndNTSVoteCount})
		}
		if vm.Type == consensus.VoteTypePrecommit {
			k := fmt.Sprintf("%d/%x/%s", vm.Round, vm.BlockID, psidKey(vm.BlockPartSetIDAndNTSVoteCount))
			m := b.precommit[vm.Height]
			if m == nil {
				m = map[string][]pcItem{}
				b.precommit[vm.Height] = m
			}
			from := signerOf(vm.Signature, consensus.SimSignedBytes(vm))
			for _, it := range m[k] {
				if it.from == from {
					return
				}
			}
			m[k] = append(m[k], pcItem{vm.Timestamp, vm.Signature, vm.Round, vm.BlockPartSetIDAndNTSVoteCount, vm.BlockID, from})
		}
	}
	switch m := msg.(type) {
	case *consensus.ProposalMessage:
		k := fmt.Sprintf("%d/%x", m.Height, m.BlockPartSetID.Hash)
		if _, ok := b.partSets[k]; !ok && m.BlockPartSetID.Count < 64 {
			b.partSets[k] = consensus.NewPartSetFromID(m.BlockPartSetID)
			b.partSetKeys[m.Height] = append(b.partSetKeys[m.Height], k)
		}
	case *consensus.BlockPartMessage:
		p, err := consensus.NewPart(m.BlockPart)
		if err != nil {
			return
		}
		for _, k := range b.partSetKeys[m.Height] {
			ps := b.partSets[k]
			if ps == nil || ps.IsComplete() {
				continue
			}
			if ps.AddPart(p) == nil && ps.IsComplete() {
				if bs, err := io.ReadAll(ps.NewReader()); err == nil {
					if hf, bf, err := readBlock(bs); err == nil {
						id := hex.EncodeToString(crypto.SHA3Sum256(codec.BC.MustMarshalToBytes(hf)))
						if _, ok := b.blockTS[id]; !ok {
							b.blockTS[id] = hf.Timestamp
							b.blockByH[hf.Height] = append(b.blockByH[hf.Height], id)
							if b.forged[hex.EncodeToString(ps.ID().Hash)] == nil {
								b.rawBlocks[hf.Height] = append(b.rawBlocks[hf.Height], bs)
							}
							if _, ok := b.bodyVotes[hf.Height]; !ok {
								b.bodyVotes[hf.Height] = bf.Votes
							}
						}
					}
				}
			}
		}
	case *consensus.VoteMessage:
		if b.voteTmpl == nil {
			b.voteTmpl = append([]byte(nil), data...)
		}
		note(m)
	case *consensus.VoteListMessage:
		if m.VoteList != nil {
			for i := 0; i < m.VoteList.Len(); i++ {
				note(m.VoteList.Get(i))
			}
		}
	}
}

func (b *byzantine) remember(key string, bs []byte) {
	if _, ok := b.known[key]; !ok {
		b.knownKeys = append(b.knownKeys, key)
	}
	b.known[key] = bs
}

// craftVote makes a vote signed by w from the template, with the given fields.
func (b *byzantine) craftVote(w module.Wallet, h int64, r int32, t consensus.VoteType, bid []byte, psid *consensus.PartSetIDAndAppData, ts int64) (*consensus.VoteMessage, []byte) {
	if b.voteTmpl == nil {
		return nil, nil
	}
	msg, err := consensus.UnmarshalMessage(uint16(consensus.ProtoVote), b.voteTmpl)
	if err != nil {
		return nil, nil
	}
	vm := msg.(*consensus.VoteMessage)
	vm.Height, vm.Round, vm.Type = h, r, t
	vm.SetRoundDecision(bid, psid, nil)
	vm.NTSDProofParts = nil
	vm.Timestamp = ts
	if w != nil {
		if err := vm.Sign(w); err != nil {
			return nil, nil
		}
	}
	return vm, codec.BC.MustMarshalToBytes(vm)
}

type routed struct {
	dst *node // nil = normal routing of m
	m   outMsg
}

// rewriteBatch is the evil proxy: it sees what the Byzantine node's real
// software wants to send in this step and decides what actually goes out.
func (b *byzantine) rewriteBatch(src *node, ms []outMsg) []routed {
	s, t := b.s, b.s.tape
	var out []routed
	others := func() []*node {
		var o []*node
		for _, d := range s.nodes {
			if d != src {
				o = append(o, d)
			}
		}
		return o
	}
	// forged proposal: replace the node's own proposal + its parts
	if b.forge != "" {
		ms = b.maybeForge(src, ms, &out)
	} else if b.equivocate {
		ms = b.maybeSplitProposal(src, ms, &out)
	}
	for _, m := range ms {
		isCons := m.proto == module.ProtoConsensus
		switch {
		case isCons && m.sub == consensus.ProtoVote && b.equivocate:
			msg, err := consensus.UnmarshalMessage(uint16(m.sub), m.data)
			vm, ok := msg.(*consensus.VoteMessage)
			if err != nil || !ok {
				out = append(out, routed{nil, m})
				continue
			}
			b.remember(fmt.Sprintf("%s/%d/%d/%d/orig", src.addr, vm.Height, vm.Round, vm.Type), m.data)
			// alternatives: nil, or another decision known at this height
			type alt struct {
				name string
				data []byte
			}
			var altsv []alt
			if vm.BlockPartSetIDAndNTSVoteCount != nil {
				if _, bs := b.craftVote(src.w, vm.Height, vm.Round, vm.Type, nilBlockID, nil, vm.Timestamp); bs != nil {
					altsv = append(altsv, alt{"nil", bs})
				}
			}
			for _, a := range b.alts[vm.Height] {
				if !bytes.Equal(a.bid, vm.BlockID) {
					if _, bs := b.craftVote(src.w, vm.Height, vm.Round, vm.Type, a.bid, a.psid, vm.Timestamp+1); bs != nil {
						altsv = append(altsv, alt{"other", bs})
						break
					}
				}
			}
			if _, bs := b.craftVote(src.w, vm.Height, vm.Round, vm.Type, vm.BlockID, vm.BlockPartSetIDAndNTSVoteCount, vm.Timestamp+7); bs != nil {
				altsv = append(altsv, alt{"retimed", bs})
			}
			if vm.Type == consensus.VoteTypePrecommit && vm.BlockPartSetIDAndNTSVoteCount == nil {
				// not a conflict at all: the very same signed nil precommit in a second wire form (an unsigned
				// network-type section appended). Receivers that see both must not report it.
				if bs := withUnsignedVoteSection(m.data, 1, bytes.Repeat([]byte{0x5a}, 32), []byte{1, 2, 3}); bs != nil {
					altsv = append(altsv, alt{"same-vote-other-wire-form", bs})
				}
			}
			for _, a := range altsv {
				b.remember(fmt.Sprintf("%s/%d/%d/%d/%s", src.addr, vm.Height, vm.Round, vm.Type, a.name), a.data)
			}
			for _, d := range others() {
				// 0 original, 1 withhold, 2.. alternative, last: both
				c := t.Weighted("byz.vote", 4, 2, 3, 2)
				switch {
				case c == 0 || len(altsv) == 0:
					out = append(out, routed{d, m})
				case c == 1:
					s.rc.Fault("byz_withhold")
				case c == 2:
					a := altsv[t.Choose("byz.alt", len(altsv))]
					mm := m
					mm.data = a.data
					out = append(out, routed{d, mm})
					s.rc.Fault("byz_conflicting_vote_sent")
					s.rc.Probe("byz_conflicting_vote_sent")
				default:
					a := altsv[t.Choose("byz.alt", len(altsv))]
					mm := m
					mm.data = a.data
					out = append(out, routed{d, m}, routed{d, mm})
					s.rc.Fault("byz_conflicting_vote_sent")
					s.rc.Probe("byz_conflicting_vote_sent")
				}
			}
		case isCons && m.sub == consensus.ProtoProposal && b.equivocate && t.Permille("byz.prop", 400):
			// second proposal for the same round with another part-set id, to a subset
			msg, err := consensus.UnmarshalMessage(uint16(m.sub), m.data)
			pm, ok := msg.(*consensus.ProposalMessage)
			if err != nil || !ok {
				out = append(out, routed{nil, m})
				continue
			}
			h2 := append([]byte(nil), pm.BlockPartSetID.Hash...)
			if len(h2) > 0 {
				h2[0] ^= 0x55
			}
			pm.BlockPartSetID = &consensus.PartSetID{Count: pm.BlockPartSetID.Count, Hash: h2}
			_ = pm.Sign(src.w)
			alt := codec.BC.MustMarshalToBytes(pm)
			for _, d := range others() {
				mm := m
				switch t.Weighted("byz.prop.alt", 2, 2, 1) {
				case 1:
					mm.data = alt
					s.rc.Fault("byz_conflicting_proposal_sent")
				case 2:
					// both proposals to the same validator: it holds double-sign evidence against the proposer
					am := m
					am.data = alt
					out = append(out, routed{d, am})
					s.rc.Fault("byz_conflicting_proposal_sent")
					s.rc.Fault("byz_both_proposals_to_one_validator")
				}
				out = append(out, routed{d, mm})
			}
		case b.fastsync && m.proto == module.ProtoFastSync && m.kind == sendUnicast && (m.sub == fastsync.ProtoBlockMetadata || m.sub == fastsync.ProtoBlockData):
			out = append(out, routed{nil, b.rewriteFastSync(src, m)})
		case b.fastsync && b.starveParts && m.sub == consensus.ProtoBlockPart && m.kind == sendUnicast && s.laggard != nil && s.nodeByPeer(m.dst) == s.laggard && t.Permille("fs.starve", 900):
			// the laggard gets the commit precommits of its height from this node's syncer but not the block
			// parts: it sits in the commit step without a block and depends on what fast sync delivers
			s.rc.Fault("byz_block_part_withheld_from_laggard")
		default:
			if b.withholdPm > 0 && t.Permille("byz.withhold", b.withholdPm) {
				s.rc.Fault("byz_withhold")
				continue
			}
			out = append(out, routed{nil, m})
		}
	}
	return out
}

// stormTick: re-send remembered votes (original and conflicting ones) and
// re-vote with fresh timestamps, to tape-chosen victims.
func (b *byzantine) stormTick() {
	s, t := b.s, b.s.tape
	if !b.active || !b.storm {
		return
	}
	var byz []*node
	var correct []*node
	for _, n := range s.nodes {
		if n.byz {
			byz = append(byz, n)
		} else {
			correct = append(correct, n)
		}
	}
	if len(byz) == 0 || len(correct) == 0 {
		return
	}
	n := 1 + t.Choose("storm.n", 6)
	for i := 0; i < n; i++ {
		src := byz[t.Choose("storm.src", len(byz))]
		dst := correct[t.Choose("storm.dst", len(correct))]
		var data []byte
		switch t.Weighted("storm.kind", 3, 3, 2) {
		case 0: // replay something remembered
			if len(b.knownKeys) == 0 {
				continue
			}
			k := b.knownKeys[len(b.knownKeys)-1-t.Choose("storm.recent", min(len(b.knownKeys), 12))]
			data = b.known[k]
		case 1: // fresh conflicting vote for the current height of the victim
			h := dst.lastSeenH + 1
			r := int32(t.Choose("storm.round", 3))
			vt := consensus.VoteType(t.Choose("storm.type", 2))
			bid, psid := nilBlockID, (*consensus.PartSetIDAndAppData)(nil)
			if as := b.alts[h]; len(as) > 0 && t.Permille("storm.block", 600) {
				a := as[t.Choose("storm.alt", len(as))]
				bid, psid = a.bid, a.psid
			}
			ts := common.UnixMicroFromTime(time.Now()) + int64(t.Choose("storm.ts", 1000))
			_, data = b.craftVote(src.w, h, r, vt, bid, psid, ts)
		case 2: // vote for a past height (late votes)
			h := dst.lastSeenH
			if h < 1 {
				continue
			}
			_, data = b.craftVote(src.w, h, 0, consensus.VoteTypePrecommit, nilBlockID, nil, common.UnixMicroFromTime(time.Now()))
		}
		if data == nil {
			continue
		}
		m := outMsg{kind: sendUnicast, proto: module.ProtoConsensus, sub: consensus.ProtoVote, data: data, dst: dst.peerID}
		s.orc.onWire(src, m.proto, m.sub, m.data)
		s.rc.Fault("byz_storm_vote")
		s.rc.Probe("byz_conflicting_vote_sent")
		s.send(src, dst, m, false)
	}
}

// ---- forged blocks (C05 / C07 / C08)

type cvlItem struct {
	Timestamp int64
	Signature common.Signature
}

type cvlFormat struct {
	Round int32
	PSID  *consensus.PartSetIDAndAppData
	Items []cvlItem
}

// raw twin of cvlFormat: signatures as plain byte strings, so that forged lists can carry signatures the
// typed form cannot even serialize (e.g. 64 bytes, no recovery id). Same wire encoding.
type cvlItemRaw struct {
	Timestamp int64
	Signature []byte
}

type cvlFormatRaw struct {
	Round int32
	PSID  *consensus.PartSetIDAndAppData
	Items []cvlItemRaw
}

// encodeCVL serializes c; sigOverride[i] (if present) replaces the signature bytes of item i.
func encodeCVL(c *cvlFormat, sigOverride map[int][]byte) []byte {
	r := cvlFormatRaw{Round: c.Round, PSID: c.PSID}
	for i, it := range c.Items {
		bs, _ := it.Signature.MarshalBinary()
		if o, ok := sigOverride[i]; ok {
			bs = o
		}
		r.Items = append(r.Items, cvlItemRaw{it.Timestamp, bs})
	}
	return codec.BC.MustMarshalToBytes(&r)
}

// badSignatureBytes: "unrecoverable" = well-formed 65 bytes from which no public key can be recovered (R is
// not the x coordinate of a curve point); "no-recovery-id" = the first 64 bytes (R|S) of a genuine signature.
func badSignatureBytes(kind string, sig common.Signature) []byte {
	raw, err := sig.MarshalBinary()
	if err != nil || len(raw) != 65 {
		return nil
	}
	raw = append([]byte(nil), raw...)
	if kind == "no-recovery-id" {
		return raw[:64]
	}
	// change R until it still parses as a signature but is no x coordinate of a curve point
	// (about every second value): key recovery then fails whatever was signed
	dummy := crypto.SHA3Sum256([]byte("any message"))
	for m := 1; m < 256; m++ {
		cand := append([]byte(nil), raw...)
		cand[31] ^= byte(m)
		sg, err := crypto.ParseSignature(cand)
		if err != nil {
			continue
		}
		if _, err := sg.RecoverPublicKey(dummy); err != nil {
			return cand
		}
	}
	return nil
}

// withUnsignedVoteSection re-encodes a vote message with one network-type entry (id, section hash, proof
// part) appended. That part of a vote is not covered by its signature.
func withUnsignedVoteSection(vote []byte, ntid int64, hash, proof []byte) []byte {
	type nts struct {
		ID    int64
		Hash  []byte
		Proof []byte
	}
	var in struct {
		Sig     common.Signature
		Height  int64
		Round   int32
		Type    consensus.VoteType
		BlockID []byte
		PSID    *consensus.PartSetIDAndAppData
		TS      int64
	}
	if _, err := codec.BC.UnmarshalFromBytes(vote, &in); err != nil {
		return nil
	}
	out := struct {
		Sig     common.Signature
		Height  int64
		Round   int32
		Type    consensus.VoteType
		BlockID []byte
		PSID    *consensus.PartSetIDAndAppData
		TS      int64
		NTS     []nts
	}{in.Sig, in.Height, in.Round, in.Type, in.BlockID, in.PSID, in.TS, []nts{{ntid, hash, proof}}}
	return codec.BC.MustMarshalToBytes(&out)
}

func medianTS(items []cvlItem) int64 {
	l := len(items)
	if l == 0 {
		return 0
	}
	ts := make([]int64, l)
	for i := range items {
		ts[i] = items[i].Timestamp
	}
	sort.Slice(ts, func(i, j int) bool { return ts[i] < ts[j] })
	if l%2 == 1 {
		return ts[l/2]
	}
	return (ts[l/2-1] + ts[l/2]) / 2
}

// verifyCVL is the oracle's own certificate check: number of distinct
// validators (of the set designated for height h) with a valid precommit
// signature over exactly (h, round, blockID, psid); valid iff 3*k > 2*n and
// every item is by a distinct validator.
func (b *byzantine) verifyCVL(h int64, blockID []byte, c *cvlFormat) (valid bool, distinct int, bad int) {
	vals := b.s.orc.validators[h]
	isVal := map[string]bool{}
	for _, v := range vals {
		isVal[v.String()] = true
	}
	seen := map[string]bool{}
	for _, it := range c.Items {
		vm, _ := b.craftVote(nil, h, c.Round, consensus.VoteTypePrecommit, blockID, c.PSID, it.Timestamp)
		if vm == nil {
			return false, 0, 0
		}
		signer := signerOf(it.Signature, consensus.SimSignedBytes(vm))
		if signer == "" || !isVal[signer] || seen[signer] {
			bad++
			continue
		}
		seen[signer] = true
	}
	distinct = len(seen)
	return bad == 0 && 3*distinct > 2*len(vals), distinct, bad
}

func readBlock(bs []byte) (*block.V2HeaderFormat, *block.V2BodyFormat, error) {
	r := bytes.NewReader(bs)
	var hf block.V2HeaderFormat
	if err := codec.BC.Unmarshal(r, &hf); err != nil {
		return nil, nil, err
	}
	var bf block.V2BodyFormat
	if err := codec.BC.Unmarshal(r, &bf); err != nil {
		return nil, nil, err
	}
	return &hf, &bf, nil
}

// maybeForge looks for the node's own proposal and block parts in the batch and
// replaces them with a forged block (tape decides whether and how).
func (b *byzantine) maybeForge(src *node, ms []outMsg, out *[]routed) []outMsg {
	s, t := b.s, b.s.tape
	pi := -1
	var pm *consensus.ProposalMessage
	for i, m := range ms {
		if m.proto == module.ProtoConsensus && m.sub == consensus.ProtoProposal {
			if msg, err := consensus.UnmarshalMessage(uint16(m.sub), m.data); err == nil {
				if p, ok := msg.(*consensus.ProposalMessage); ok && signerOf(p.Signature, consensus.SimSignedBytes(p)) == src.addr.String() {
					pi, pm = i, p
					break
				}
			}
		}
	}
	if pi < 0 {
		return ms
	}
	// collect the parts of this proposal
	ps := consensus.NewPartSetFromID(pm.BlockPartSetID)
	var partIdx []int
	for i, m := range ms {
		if m.proto == module.ProtoConsensus && m.sub == consensus.ProtoBlockPart {
			msg, err := consensus.UnmarshalMessage(uint16(m.sub), m.data)
			if err != nil {
				continue
			}
			bp := msg.(*consensus.BlockPartMessage)
			if bp.Height != pm.Height {
				continue
			}
			p, err := consensus.NewPart(bp.BlockPart)
			if err != nil {
				continue
			}
			if ps.AddPart(p) == nil {
				partIdx = append(partIdx, i)
			}
		}
	}
	if !ps.IsComplete() {
		return ms
	}
	orig, err := io.ReadAll(ps.NewReader())
	if err != nil {
		return ms
	}
	hf, bf, err := readBlock(orig)
	if err != nil {
		return ms
	}
	if id := hex.EncodeToString(crypto.SHA3Sum256(codec.BC.MustMarshalToBytes(hf))); true {
		if _, ok := b.blockTS[id]; !ok {
			b.blockTS[id] = hf.Timestamp
			b.blockByH[hf.Height] = append(b.blockByH[hf.Height], id)
		}
		if _, ok := b.bodyVotes[hf.Height]; !ok {
			b.bodyVotes[hf.Height] = bf.Votes
		}
	}
	if pm.POLRound >= 0 || !t.Permille("forge", 650) {
		return ms // re-proposal of a locked block, or an honest turn
	}
	forgedBytes, info := b.forgeBlock(src, hf, bf, orig)
	if forgedBytes == nil {
		return ms
	}
	if b.forge == "C08" {
		s.decodeForged(forgedBytes, info.kind)
		// a storm of further mutations of the same genuine block goes to the decoders directly (they need not
		// be proposed to be decoder input): two dozen per forging opportunity
		for i := 0; i < 24 && !s.rc.Failed(); i++ {
			if fb, fi := b.forgeBlock(src, hf, bf, orig); fb != nil {
				s.decodeForged(fb, fi.kind)
			}
		}
		if s.rc.Failed() {
			return ms
		}
	}
	psb := consensus.NewPartSetBuffer(consensus.ConfigBlockPartSize)
	_, _ = psb.Write(forgedBytes)
	fps := psb.PartSet()
	b.forged[hex.EncodeToString(fps.ID().Hash)] = info
	b.forgedAt[fmt.Sprintf("%d/%d", pm.Height, pm.Round)] = info
	// what a correct validator may still vote for in this round: the proposer's genuine block (its syncer
	// serves the original parts) or a block already known at this height (a lock / POL from an earlier round)
	info.allowed = map[string]bool{hex.EncodeToString(pm.BlockPartSetID.Hash): true}
	for _, a := range b.alts[pm.Height] {
		if a.psid != nil {
			info.allowed[hex.EncodeToString(a.psid.Hash)] = true
		}
	}
	s.rc.Fault("byz_forged_block:" + info.kind)
	s.rc.Event("FORGE n%d h=%d r=%d kind=%s invalid=%v psid=%.12x orig=%.12x", src.idx, pm.Height, pm.Round, info.kind, info.invalid, fps.ID().Hash, pm.BlockPartSetID.Hash)
	if traceOn {
		for _, n := range s.nodes {
			if !n.byz && n.inc != nil && n.inc.alive() && n.inc.bm != nil {
				bd, derr := n.inc.bm.NewBlockDataFromReader(bytes.NewReader(forgedBytes))
				s.rc.Event("FORGE-DECODE-TRACE kind=%s err=%v", info.kind, derr)
				if derr == nil {
					kind := info.kind
					_, ierr := n.inc.bm.ImportBlock(bd, 0, func(bc module.BlockCandidate, err error) {
						fmt.Fprintf(os.Stderr, "FORGE-IMPORT-TRACE kind=%s cb err=%v\n", kind, err)
					})
					fmt.Fprintf(os.Stderr, "FORGE-IMPORT-TRACE kind=%s call err=%v\n", kind, ierr)
				}
				break
			}
		}
	}
	// forged proposal + parts, signed by the legitimate proposer
	np := consensus.NewProposalMessage()
	np.Height, np.Round, np.BlockPartSetID, np.POLRound, np.NID = pm.Height, pm.Round, fps.ID(), -1, pm.NID
	_ = np.Sign(src.w)
	first := ms[pi]
	first.data = codec.BC.MustMarshalToBytes(np)
	*out = append(*out, routed{nil, first})
	for i := 0; i < fps.Parts(); i++ {
		bpm := &consensus.BlockPartMessage{Height: pm.Height, Index: uint16(i), BlockPart: fps.GetPart(i).Bytes(), Nonce: pm.Round}
		mm := ms[pi]
		mm.sub = consensus.ProtoBlockPart
		mm.data = codec.BC.MustMarshalToBytes(bpm)
		*out = append(*out, routed{nil, mm})
	}
	// the proposer's own votes for the forged block
	if nhf, _, err := readBlock(forgedBytes); err == nil {
		fid := crypto.SHA3Sum256(codec.BC.MustMarshalToBytes(nhf))
		psid := fps.ID().WithAppData(0)
		if as := b.alts[pm.Height-1]; len(as) > 0 {
			psid = fps.ID().WithAppData(as[0].psid.AppData())
		}
		for _, vt := range []consensus.VoteType{consensus.VoteTypePrevote, consensus.VoteTypePrecommit} {
			if _, bs := b.craftVote(src.w, pm.Height, pm.Round, vt, fid, psid, common.UnixMicroFromTime(time.Now())); bs != nil {
				mm := ms[pi]
				mm.sub = consensus.ProtoVote
				mm.data = bs
				*out = append(*out, routed{nil, mm})
			}
		}
	}
	// drop the original proposal and its parts
	skip := map[int]bool{pi: true}
	for _, i := range partIdx {
		skip[i] = true
	}
	var rest []outMsg
	for i, m := range ms {
		if !skip[i] {
			rest = append(rest, m)
		}
	}
	return rest
}

// maybeSplitProposal: the equivocating proposer with two VALID blocks. When the Byzantine node is the
// legitimate proposer (no proof-of-lock round), a sibling of its block is built - the same block with one
// more transaction, or with its transactions dropped; header hashes recomputed, so every check passes - and
// each validator receives the proposal, the parts and this node's prevote and precommit for one of the two,
// by tape. Part of the correct validators import and prevote one block, part the other: agreement must
// survive that (f < n/3), and nobody may finalize what was not precommitted by more than two thirds.
func (b *byzantine) maybeSplitProposal(src *node, ms []outMsg, out *[]routed) []outMsg {
	s, t := b.s, b.s.tape
	pi := -1
	var pm *consensus.ProposalMessage
	for i, m := range ms {
		if m.proto == module.ProtoConsensus && m.sub == consensus.ProtoProposal {
			if msg, err := consensus.UnmarshalMessage(uint16(m.sub), m.data); err == nil {
				if p, ok := msg.(*consensus.ProposalMessage); ok && signerOf(p.Signature, consensus.SimSignedBytes(p)) == src.addr.String() {
					pi, pm = i, p
					break
				}
			}
		}
	}
	splitPm := 500
	if pi >= 0 && pm.Round > 0 {
		splitPm = 850 // later rounds are where locks exist: make the most of being the proposer there
	}
	if pi < 0 || pm.POLRound >= 0 || src.inc == nil || src.inc.chain == nil || src.inc.chain.sm == nil || !t.Permille("byz.split", splitPm) {
		return ms
	}
	ps := consensus.NewPartSetFromID(pm.BlockPartSetID)
	var partIdx []int
	for i, m := range ms {
		if m.proto == module.ProtoConsensus && m.sub == consensus.ProtoBlockPart {
			msg, err := consensus.UnmarshalMessage(uint16(m.sub), m.data)
			if err != nil {
				continue
			}
			bp := msg.(*consensus.BlockPartMessage)
			if bp.Height != pm.Height {
				continue
			}
			if p, err := consensus.NewPart(bp.BlockPart); err == nil && ps.AddPart(p) == nil {
				partIdx = append(partIdx, i)
			}
		}
	}
	if !ps.IsComplete() {
		return ms
	}
	orig, err := io.ReadAll(ps.NewReader())
	if err != nil {
		return ms
	}
	hf, bf, err := readBlock(orig)
	if err != nil {
		return ms
	}
	sm := src.inc.chain.sm
	nh, nb := *hf, *bf
	how := "plus-one-transaction"
	if len(bf.NormalTransactions) > 0 && t.Permille("byz.split.strip", 500) {
		nb.NormalTransactions = nil
		how = "transactions-dropped"
	} else {
		extra := []byte(fmt.Sprintf(`{"timestamp":"0x%x","type":"test","varTest":"sibling-%d-%d"}`, common.UnixMicroFromTime(time.Now()), pm.Height, pm.Round))
		nb.NormalTransactions = append(append([][]byte(nil), bf.NormalTransactions...), extra)
	}
	var txs []module.Transaction
	for _, raw := range nb.NormalTransactions {
		tx, err := sm.TransactionFromBytes(raw, module.BlockVersion2)
		if err != nil {
			return ms
		}
		txs = append(txs, tx)
	}
	nh.NormalTransactionsHash = sm.TransactionListFromSlice(txs, module.BlockVersion2).Hash()
	sib, err := io.ReadAll(block.NewBlockReaderFromFormat(&nh, &nb))
	if err != nil {
		return ms
	}
	psb := consensus.NewPartSetBuffer(consensus.ConfigBlockPartSize)
	_, _ = psb.Write(sib)
	sps := psb.PartSet()
	sid := crypto.SHA3Sum256(codec.BC.MustMarshalToBytes(&nh))
	s.rc.Fault("byz_valid_sibling_proposed")
	s.rc.Event("SPLIT-PROPOSAL n%d h=%d r=%d sibling=%s orig=%.12x sib=%.12x", src.idx, pm.Height, pm.Round, how, pm.BlockPartSetID.Hash, sps.ID().Hash)
	// remember the sibling like any proposal seen on the wire (fast-sync lies and forgeries draw on it)
	if id := hex.EncodeToString(sid); true {
		if _, ok := b.blockTS[id]; !ok {
			b.blockTS[id] = nh.Timestamp
			b.blockByH[nh.Height] = append(b.blockByH[nh.Height], id)
			b.rawBlocks[nh.Height] = append(b.rawBlocks[nh.Height], sib)
		}
	}
	appData := uint64(0)
	if as := b.alts[pm.Height-1]; len(as) > 0 && as[0].psid != nil {
		appData = as[0].psid.AppData()
	}
	np := consensus.NewProposalMessage()
	np.Height, np.Round, np.BlockPartSetID, np.POLRound, np.NID = pm.Height, pm.Round, sps.ID(), -1, pm.NID
	if pm.Round > 0 && t.Permille("byz.pol.lie", 800) {
		// a lie about the proof-of-lock round: the sibling is presented as if it had had a polka in an earlier
		// round of this height (validators locked there hold a polka of that round - for their own block)
		np.POLRound = int32(t.Choose("byz.pol.round", int(pm.Round)))
		s.rc.Fault("byz_proposal_with_false_pol_round")
	}
	_ = np.Sign(src.w)
	sibProposal := codec.BC.MustMarshalToBytes(np)
	skip := map[int]bool{pi: true}
	for _, i := range partIdx {
		skip[i] = true
	}
	for _, d := range s.nodes {
		if d == src {
			continue
		}
		mk := func(sub module.ProtocolInfo, data []byte) routed {
			mm := ms[pi]
			mm.kind, mm.dst, mm.sub, mm.data = sendUnicast, d.peerID, sub, data
			return routed{d, mm}
		}
		if t.Permille("byz.split.side", 500) {
			// the sibling: proposal, parts and this node's own votes for it
			*out = append(*out, mk(consensus.ProtoProposal, sibProposal))
			for i := 0; i < sps.Parts(); i++ {
				bpm := &consensus.BlockPartMessage{Height: pm.Height, Index: uint16(i), BlockPart: sps.GetPart(i).Bytes(), Nonce: pm.Round}
				*out = append(*out, mk(consensus.ProtoBlockPart, codec.BC.MustMarshalToBytes(bpm)))
			}
			for _, vt := range []consensus.VoteType{consensus.VoteTypePrevote, consensus.VoteTypePrecommit} {
				if _, bs := b.craftVote(src.w, pm.Height, pm.Round, vt, sid, sps.ID().WithAppData(appData), common.UnixMicroFromTime(time.Now())); bs != nil {
					*out = append(*out, mk(consensus.ProtoVote, bs))
					s.rc.Probe("byz_conflicting_vote_sent")
				}
			}
		} else {
			origProposal := ms[pi].data
			if np.POLRound >= 0 {
				// the genuine block too, under the same false proof-of-lock round
				op := consensus.NewProposalMessage()
				op.Height, op.Round, op.BlockPartSetID, op.POLRound, op.NID = pm.Height, pm.Round, pm.BlockPartSetID, np.POLRound, pm.NID
				if op.Sign(src.w) == nil {
					origProposal = codec.BC.MustMarshalToBytes(op)
				}
			}
			*out = append(*out, mk(consensus.ProtoProposal, origProposal))
			for _, i := range partIdx {
				*out = append(*out, mk(consensus.ProtoBlockPart, ms[i].data))
			}
		}
	}
	var rest []outMsg
	for i, m := range ms {
		if !skip[i] {
			rest = append(rest, m)
		}
	}
	return rest
}

func (b *byzantine) forgeBlock(src *node, hf *block.V2HeaderFormat, bf *block.V2BodyFormat, orig []byte) ([]byte, *forgedInfo) {
	t := b.s.tape
	h := hf.Height
	enc := func(hf *block.V2HeaderFormat, bf *block.V2BodyFormat) []byte {
		bs, _ := io.ReadAll(block.NewBlockReaderFromFormat(hf, bf))
		return bs
	}
	nh, nb := *hf, *bf
	info := &forgedInfo{property: b.forge, invalid: true, height: h}
	switch b.forge {
	case "C07":
		kinds := []string{"height+1", "height-1", "previd-random", "previd-grandparent", "previd-extended", "previd-truncated", "version", "timestamp+1", "timestamp-1", "timestamp=parent", "timestamp<parent", "sibling-retimed", "sibling-retimed"}
		k := kinds[t.Choose("forge.c07", len(kinds))]
		if h == 1 && t.Permille("forge.c07.h1", 600) {
			// not a forgery at all: nothing constrains the timestamp of a height-1 block, so the proposer may
			// put it into the future. What it sets up is the rule for height 2: "strictly greater than the
			// parent's timestamp" against a parent whose timestamp is large (with validators whose vote
			// timestamps lag, the median for height 2 can come out at or below it).
			k = "height1-future-timestamp"
		}
		info.kind = k
		parentTS, haveParent := b.blockTS[hex.EncodeToString(hf.PrevID)]
		switch k {
		case "height1-future-timestamp":
			nh.Timestamp = common.UnixMicroFromTime(time.Now()) + int64(1+t.Choose("forge.h1ts", 20))*1000000
			info.invalid = false
		case "height+1":
			nh.Height++
		case "height-1":
			nh.Height--
		case "previd-random":
			nh.PrevID = t.Bytes("forge.previd", 32)
		case "previd-extended":
			// the parent's id followed by extra bytes: still not "its parent's id"
			ext := [][]byte{{0}, {1}, {0, 0, 0, 0}, t.Bytes("forge.previd.ext", 3)}[t.Choose("forge.previd.extkind", 4)]
			nh.PrevID = append(append([]byte{}, hf.PrevID...), ext...)
		case "previd-truncated":
			if len(hf.PrevID) < 2 {
				return nil, nil
			}
			nh.PrevID = append([]byte{}, hf.PrevID[:len(hf.PrevID)-1-t.Choose("forge.previd.cut", 3)]...)
		case "previd-grandparent":
			ids := b.blockByH[h-2]
			if len(ids) == 0 {
				return nil, nil
			}
			nh.PrevID, _ = hex.DecodeString(ids[0])
		case "version":
			nh.Version = []int{1, 3, 0}[t.Choose("forge.version", 3)]
		case "timestamp+1", "timestamp-1":
			if h <= 1 {
				return nil, nil
			}
			if k == "timestamp+1" {
				nh.Timestamp++
			} else {
				nh.Timestamp--
			}
		case "sibling-retimed":
			// a block somebody proposed (and correct nodes imported) earlier at this height, with the
			// same commit votes, re-proposed by this validator with only the timestamp (and proposer) changed
			raws := b.rawBlocks[h]
			if h <= 1 || len(raws) == 0 {
				return nil, nil
			}
			ohf, obf, err := readBlock(raws[t.Choose("forge.sib", len(raws))])
			if err != nil {
				return nil, nil
			}
			nh, nb = *ohf, *obf
			nh.Proposer = hf.Proposer
			if t.Permille("forge.sib.dir", 500) {
				nh.Timestamp++
			} else {
				nh.Timestamp--
			}
		case "timestamp=parent", "timestamp<parent":
			if h <= 1 || !haveParent {
				return nil, nil
			}
			nh.Timestamp = parentTS
			if k == "timestamp<parent" {
				nh.Timestamp = parentTS - 1 - int64(t.Choose("forge.tsback", 1000))
			}
		}
	case "C05":
		if h <= 1 || len(bf.Votes) == 0 {
			return nil, nil
		}
		var c cvlFormat
		if _, err := codec.BC.UnmarshalFromBytes(bf.Votes, &c); err != nil {
			return nil, nil
		}
		n := len(b.s.orc.validators[h-1])
		kinds := []string{"minus-to-2/3", "minus-to-2/3+1", "duplicate", "foreign-key", "other-round", "bitflip", "prev-height-list", "empty", "time-shift", "unrecoverable", "no-recovery-id", "duplicates-spread", "duplicates-spread"}
		k := kinds[t.Choose("forge.c05", len(kinds))]
		info.kind = k
		items := append([]cvlItem(nil), c.Items...)
		sigOverride := map[int][]byte{}
		switch k {
		case "unrecoverable", "no-recovery-id":
			if len(items) == 0 {
				return nil, nil
			}
			i := t.Choose("forge.badsig", len(items))
			bs := badSignatureBytes(k, items[i].Signature)
			if bs == nil {
				return nil, nil
			}
			sigOverride[i] = bs
		case "minus-to-2/3", "minus-to-2/3+1":
			keep := 2 * n / 3
			if k == "minus-to-2/3+1" {
				keep++
			}
			if keep > len(items) {
				return nil, nil
			}
			// drop tape-chosen items
			for len(items) > keep {
				i := t.Choose("forge.drop", len(items))
				items = append(items[:i], items[i+1:]...)
			}
		case "duplicates-spread":
			// too few distinct signers, repeated round-robin until the list is long enough to look like a
			// quorum: [A,B,A,B,...]. Every repetition is far from the original (whatever order or grouping the
			// verifier works in).
			if len(items) < 2 {
				return nil, nil
			}
			d := 1 + t.Choose("forge.dsp.d", 2*n/3) // distinct signers: 1 .. floor(2n/3), never a quorum
			if d > len(items) {
				d = len(items)
			}
			m := 2*n/3 + 1 + t.Choose("forge.dsp.m", n-2*n/3)
			base := append([]cvlItem(nil), items[:d]...)
			items = items[:0]
			for i := 0; i < m; i++ {
				items = append(items, base[i%d])
			}
		case "duplicate":
			if len(items) < 2 {
				return nil, nil
			}
			i := t.Choose("forge.dup.i", len(items))
			j := (i + 1 + t.Choose("forge.dup.j", len(items)-1)) % len(items)
			items[i] = items[j]
		case "foreign-key":
			if len(items) == 0 {
				return nil, nil
			}
			w := b.s.newWallet("forge.key")
			i := t.Choose("forge.fk", len(items))
			vm, _ := b.craftVote(w, h-1, c.Round, consensus.VoteTypePrecommit, hf.PrevID, c.PSID, items[i].Timestamp)
			if vm == nil {
				return nil, nil
			}
			items[i].Signature = vm.Signature
		case "other-round":
			// a genuine precommit of a validator, but for another round/decision
			var cand []pcItem
			keys := make([]string, 0)
			for k2 := range b.precommit[h-1] {
				keys = append(keys, k2)
			}
			sort.Strings(keys)
			for _, k2 := range keys {
				for _, it := range b.precommit[h-1][k2] {
					if it.round != c.Round || psidKey(it.psid) != psidKey(c.PSID) {
						cand = append(cand, it)
					}
				}
			}
			if len(cand) == 0 || len(items) == 0 {
				return nil, nil
			}
			it := cand[t.Choose("forge.or", len(cand))]
			items[t.Choose("forge.or.i", len(items))] = cvlItem{it.ts, it.sig}
		case "bitflip":
			if len(items) == 0 {
				return nil, nil
			}
			i := t.Choose("forge.bf", len(items))
			raw, err := items[i].Signature.MarshalBinary()
			if err != nil || len(raw) == 0 {
				return nil, nil
			}
			raw = append([]byte(nil), raw...)
			raw[t.Choose("forge.bf.pos", len(raw)-1)] ^= byte(1 << t.Choose("forge.bf.bit", 8))
			var sg common.Signature
			if sg.UnmarshalBinary(raw) != nil {
				return nil, nil
			}
			items[i].Signature = sg
		case "prev-height-list":
			pv := b.bodyVotes[h-1]
			var pc cvlFormat
			if len(pv) == 0 {
				return nil, nil
			}
			if _, err := codec.BC.UnmarshalFromBytes(pv, &pc); err != nil || len(pc.Items) == 0 {
				return nil, nil
			}
			c.Round, c.PSID, items = pc.Round, pc.PSID, pc.Items
		case "empty":
			items = nil
		case "time-shift":
			// keep every signer but change one vote timestamp: that signature no longer verifies
			if len(items) == 0 {
				return nil, nil
			}
			items[t.Choose("forge.ts", len(items))].Timestamp += 1 + int64(t.Choose("forge.ts.d", 5))
		}
		c.Items = items
		nb.Votes = encodeCVL(&c, sigOverride)
		nh.VotesHash = crypto.SHA3Sum256(nb.Votes)
		if len(items) > 0 {
			nh.Timestamp = medianTS(items) // so that the certificate is the only thing that can be wrong
		}
		valid, distinct, bad := b.verifyCVL(h-1, hf.PrevID, &c)
		if len(sigOverride) > 0 {
			valid, bad = false, bad+1 // an item nobody can verify
		}
		info.invalid = !valid
		info.kind = fmt.Sprintf("%s", k)
		b.s.rc.Event("FORGE-CVL kind=%s items=%d distinct=%d bad=%d n=%d oracle_valid=%v", k, len(items), distinct, bad, n, valid)
		if valid {
			b.s.rc.Probe("forged_cvl_still_valid")
		}
	case "C08":
		kinds := []string{"votes-hash-mismatch", "tx-body-swap", "random-bytes", "truncated", "byteflip", "body-of-other-block", "btp-digest-junk", "btp-digest-other-valid", "header-field-nil", "header-field-garbage", "body-field-nil", "votes-bad-signature", "votes-noncanonical"}
		k := kinds[t.Choose("forge.c08", len(kinds))]
		info.kind = k
		switch k {
		case "votes-hash-mismatch":
			if len(bf.Votes) == 0 {
				nb.Votes = []byte{0xc0}
			} else {
				var c cvlFormat
				if _, err := codec.BC.UnmarshalFromBytes(bf.Votes, &c); err != nil || len(c.Items) < 2 {
					return nil, nil
				}
				if t.Permille("forge.vhm.perm", 600) {
					// same certificate, same median, other byte order: only the hash binding can tell
					c.Items[0], c.Items[len(c.Items)-1] = c.Items[len(c.Items)-1], c.Items[0]
				} else {
					c.Items = c.Items[:len(c.Items)-1]
				}
				nb.Votes = codec.BC.MustMarshalToBytes(&c)
			}
		case "tx-body-swap":
			extra := []byte(fmt.Sprintf(`{"timestamp":"0x%x","type":"test","varTest":"forged"}`, common.UnixMicroFromTime(time.Now())))
			if len(nb.NormalTransactions) > 0 && t.Permille("forge.txdrop", 500) {
				nb.NormalTransactions = nb.NormalTransactions[1:]
			} else {
				nb.NormalTransactions = append(append([][]byte(nil), nb.NormalTransactions...), extra)
			}
		case "random-bytes":
			return t.Bytes("forge.rand", 16+t.Choose("forge.rand.n", 300)), info
		case "truncated":
			if len(orig) < 4 {
				return nil, nil
			}
			return orig[:1+t.Choose("forge.trunc", len(orig)-1)], info
		case "byteflip":
			bs := append([]byte(nil), orig...)
			bs[t.Choose("forge.flip.pos", len(bs))] ^= byte(1 << t.Choose("forge.flip.bit", 8))
			if bytes.Equal(bs, orig) {
				return nil, nil
			}
			// A flipped bit does not always make a malformed or unbound block: if the result still parses, has
			// the same body and differs from the genuine header at most in the timestamp of a height-1 block
			// (which nothing constrains: there are no commit votes to take a median of), it is simply another
			// valid block and validators may vote for it. Judged with the harness' own parser.
			if fh, fb, err := readBlock(bs); err == nil {
				same := func(a, b *block.V2HeaderFormat) bool {
					x, y := *a, *b
					x.Timestamp, y.Timestamp = 0, 0
					return bytes.Equal(codec.BC.MustMarshalToBytes(&x), codec.BC.MustMarshalToBytes(&y))
				}
				if same(fh, hf) && bytes.Equal(codec.BC.MustMarshalToBytes(fb), codec.BC.MustMarshalToBytes(bf)) && (fh.Timestamp == hf.Timestamp || hf.Height == 1) {
					info.invalid = false
					info.kind = "byteflip:still-valid"
				}
			}
			return bs, info
		case "body-of-other-block":
			pv, ok := b.bodyVotes[h-1]
			if !ok || bytes.Equal(pv, bf.Votes) {
				return nil, nil
			}
			nb.Votes = pv
		case "votes-noncanonical":
			// the same vote list in an encoding a node never writes (junk after the list inside the votes
			// field, or an explicit empty fourth element), with the header committing to exactly those bytes.
			// What the header binds is the vote list as the node serializes it: the decoder must refuse.
			var c cvlFormat
			if _, err := codec.BC.UnmarshalFromBytes(bf.Votes, &c); err != nil || len(c.Items) == 0 {
				return nil, nil
			}
			canon := encodeCVL(&c, nil)
			if t.Choose("forge.vnc", 2) == 0 {
				nb.Votes = append(append([]byte(nil), canon...), t.Bytes("forge.vnc.tail", 1+t.Choose("forge.vnc.n", 4))...)
				info.kind = k + ":trailing-bytes"
			} else {
				r := struct {
					Round int32
					PSID  *consensus.PartSetIDAndAppData
					Items []cvlItemRaw
					Extra [][]byte
				}{Round: c.Round, PSID: c.PSID, Extra: [][]byte{}}
				for _, it := range c.Items {
					bs, _ := it.Signature.MarshalBinary()
					r.Items = append(r.Items, cvlItemRaw{it.Timestamp, bs})
				}
				nb.Votes = codec.BC.MustMarshalToBytes(&r)
				info.kind = k + ":explicit-empty-proofs"
			}
			if bytes.Equal(nb.Votes, bf.Votes) {
				return nil, nil
			}
			nh.VotesHash = crypto.SHA3Sum256(nb.Votes)
		case "votes-bad-signature":
			// a vote list that is consistently bound to the header but contains a signature the codec can
			// decode and not encode (no recovery id) or nobody can recover a key from: the decoder hashes the
			// decoded votes, so this is decoder input like any other
			var c cvlFormat
			if _, err := codec.BC.UnmarshalFromBytes(bf.Votes, &c); err != nil || len(c.Items) == 0 {
				return nil, nil
			}
			bk := []string{"no-recovery-id", "unrecoverable"}[t.Choose("forge.vbs", 2)]
			i := t.Choose("forge.vbs.i", len(c.Items))
			bs := badSignatureBytes(bk, c.Items[i].Signature)
			if bs == nil {
				return nil, nil
			}
			nb.Votes = encodeCVL(&c, map[int][]byte{i: bs})
			nh.VotesHash = crypto.SHA3Sum256(nb.Votes)
			info.kind = k + ":" + bk
		case "header-field-nil", "header-field-garbage":
			// structure-aware mutation: one byte-string field of a well-formed header is absent or junk.
			// A block without proposer is still a well-formed block (the genesis block has none), so for
			// that field nothing is demanded beyond "the node survives and whatever it accepts round-trips";
			// every other field is bound to the body, the parent or the state, so acceptance is a violation.
			fields := []*[]byte{&nh.Proposer, &nh.PrevID, &nh.VotesHash, &nh.NextValidatorsHash, &nh.PatchTransactionsHash, &nh.NormalTransactionsHash, &nh.LogsBloom, &nh.Result, &nh.NSFilter}
			names := []string{"proposer", "prev-id", "votes-hash", "next-validators-hash", "patch-tx-hash", "normal-tx-hash", "logs-bloom", "result", "ns-filter"}
			i := t.Weighted("forge.hfield", 4, 1, 1, 1, 1, 1, 1, 1, 1)
			before := append([]byte(nil), *fields[i]...)
			if k == "header-field-nil" {
				*fields[i] = nil
			} else {
				*fields[i] = t.Bytes("forge.hfield.junk", []int{1, 20, 21, 31, 32, 33}[t.Choose("forge.hfield.len", 6)])
			}
			if bytes.Equal(before, *fields[i]) {
				return nil, nil
			}
			info.kind = k + ":" + names[i]
			if names[i] == "proposer" {
				info.invalid = false
			}
			if names[i] == "patch-tx-hash" || names[i] == "normal-tx-hash" || names[i] == "logs-bloom" || names[i] == "ns-filter" {
				// empty lists / zero bloom / no filter have more than one accepted encoding of "nothing"
				info.invalid = len(before) != 0 && k == "header-field-garbage"
			}
		case "body-field-nil":
			switch t.Choose("forge.bfield", 3) {
			case 0:
				if len(nb.Votes) == 0 {
					return nil, nil
				}
				nb.Votes = nil
				info.kind = k + ":votes"
			case 1:
				if len(nb.NormalTransactions) == 0 {
					return nil, nil
				}
				nb.NormalTransactions = nil
				info.kind = k + ":normal-txs"
			default:
				if len(nb.BTPDigest) == 0 {
					return nil, nil
				}
				nb.BTPDigest = nil
				info.kind = k + ":btp-digest"
				info.invalid = false // an absent digest is the encoding of the zero digest
			}
		case "btp-digest-junk":
			nb.BTPDigest = t.Bytes("forge.btp", 24)
		case "btp-digest-other-valid":
			// a well-formed digest that is not the one the header commits to
			alts := [][]byte{{0xc1, 0xc0}, {0xc0}, {0xc2, 0xc1, 0xc0}}
			alt := alts[t.Choose("forge.btpalt", len(alts))]
			if bytes.Equal(alt, bf.BTPDigest) {
				alt = alts[(t.Choose("forge.btpalt2", len(alts)-1)+1)%len(alts)]
				if bytes.Equal(alt, bf.BTPDigest) {
					return nil, nil
				}
			}
			nb.BTPDigest = alt
		}
	default:
		return nil, nil
	}
	return enc(&nh, &nb), info
}

// onAcceptedVote is called by the oracle for every non-nil vote signed by a
// correct validator: voting for a block means its import succeeded there.
func (b *byzantine) onAcceptedVote(n *node, vm *consensus.VoteMessage) {
	if b.active && vm.Type == consensus.VoteTypePrevote {
		if fi := b.forgedAt[fmt.Sprintf("%d/%d", vm.Height, vm.Round)]; fi != nil {
			if vm.BlockPartSetIDAndNTSVoteCount == nil {
				b.s.rc.Probe("forged_round_prevote_nil:" + fi.kind)
			} else if fi.invalid && !fi.allowed[hex.EncodeToString(vm.BlockPartSetIDAndNTSVoteCount.Hash)] {
				// neither the genuine block nor anything known before: the validator built this from the
				// forged encoding (a decoder that does not bind the body re-encodes it under a new id)
				class := map[string]string{"C05": "bad-certificate-accepted", "C07": "deviant-block-accepted", "C08": "unbound-or-malformed-block-accepted"}[fi.property]
				b.s.rc.Violate(class, fi.kind+"/re-encoded", "correct validator n%d prevoted a block in round %d of height %d that is neither the proposer's genuine block nor known before the forged proposal (forgery: %s): it accepted the forged encoding", n.idx, vm.Round, vm.Height, fi.kind)
				return
			} else {
				b.s.rc.Probe("forged_round_prevote_block:" + fi.kind)
				if traceOn {
					fmt.Fprintf(os.Stderr, "FORGED-ROUND-VOTE n%d h=%d r=%d psid=%x known_forged=%v\n", n.idx, vm.Height, vm.Round, vm.BlockPartSetIDAndNTSVoteCount.Hash, b.forged[hex.EncodeToString(vm.BlockPartSetIDAndNTSVoteCount.Hash)] != nil)
				}
			}
		}
	}
	if !b.active || vm.BlockPartSetIDAndNTSVoteCount == nil {
		return
	}
	info := b.forged[hex.EncodeToString(vm.BlockPartSetIDAndNTSVoteCount.Hash)]
	if info == nil {
		return
	}
	if info.invalid {
		class := map[string]string{"C05": "bad-certificate-accepted", "C07": "deviant-block-accepted", "C08": "unbound-or-malformed-block-accepted"}[info.property]
		b.s.rc.Violate(class, info.kind, "correct validator n%d voted for forged block at height %d (forgery: %s), i.e. its import accepted it", n.idx, info.height, info.kind)
	} else {
		b.s.rc.Probe("forged_but_valid_block_accepted")
	}
}

func (b *byzantine) onReceive(self, src *node, m outMsg) {}

// ---- C06: double sign evidence

type evView struct {
	signer string
	h      int64
	r      int32
	kind   string
	nid    uint32
	hasNID bool
	signed []byte
}

func decodeEvidence(d module.DoubleSignData) *evView {
	sub := consensus.ProtoVote
	if d.Type() == "proposal" {
		sub = consensus.ProtoProposal
	}
	msg, err := consensus.UnmarshalMessage(uint16(sub), d.Bytes())
	if err != nil {
		return nil
	}
	switch m := msg.(type) {
	case *consensus.VoteMessage:
		sb := consensus.SimSignedBytes(m)
		v := &evView{signer: signerOf(m.Signature, sb), h: m.Height, r: m.Round, kind: fmt.Sprintf("vote%d", m.Type), signed: sb}
		// the network id a vote names: in the part-set app data (block vote) or as the block id (nil vote)
		if m.BlockPartSetIDAndNTSVoteCount != nil {
			v.nid = uint32(m.BlockPartSetIDAndNTSVoteCount.AppData() >> 16)
		} else {
			var nid int32
			if _, err := codec.UnmarshalFromBytes(m.BlockID, &nid); err == nil {
				v.nid = uint32(nid)
			}
		}
		v.hasNID = v.nid != 0
		return v
	case *consensus.ProposalMessage:
		sb := consensus.SimSignedBytes(m)
		return &evView{signer: signerOf(m.Signature, sb), h: m.Height, r: m.Round, kind: "proposal", nid: m.NID, hasNID: m.NID != 0, signed: sb}
	}
	return nil
}

// judgeEvidence is the oracle's own reading of the property: "" = genuine
// conflict, otherwise the reason why the pair is no evidence.
func judgeEvidence(a, b *evView) string {
	switch {
	case a == nil || b == nil:
		return "undecodable"
	case a.signer == "" || a.signer != b.signer:
		return "different-signers"
	case a.h != b.h:
		return "different-heights"
	case a.r != b.r:
		return "different-rounds"
	case a.kind != b.kind:
		return "different-types"
	case a.hasNID && b.hasNID && a.nid != b.nid:
		return "different-networks"
	case bytes.Equal(a.signed, b.signed):
		return "identical-messages"
	}
	return ""
}

// checkDSD: the "reported" half — evidence a correct node hands to its service manager.
func (s *sim) checkDSD(n *node, data []module.DoubleSignData) {
	if len(data) != 2 {
		s.rc.Violate("bad-double-sign-report", "arity", "n%d reported %d items", n.idx, len(data))
		return
	}
	a, b := decodeEvidence(data[0]), decodeEvidence(data[1])
	s.rc.Probe("double_sign_report_checked")
	if sig := judgeEvidence(a, b); sig != "" {
		s.rc.Violate("bogus-double-sign-evidence", sig, "n%d reported as double-sign evidence two messages that are not a genuine conflict (%s)", n.idx, sig)
		return
	}
	if c := s.orc.isCorrect(a.signer); c != nil {
		// a correct validator was caught equivocating by its peers: that is also a C02 matter
		s.rc.Violate("equivocation", "reported-by-peer", "n%d holds double-sign evidence against correct validator n%d (h=%d r=%d %s)", n.idx, c.idx, a.h, a.r, a.kind)
	}
}

// evidenceTick: the "accepted" half. The adversary assembles pairs of signed
// messages (real traffic of the run plus its own crafted votes) with a chosen
// relation and submits them to the acceptance predicate every double-sign
// report passes through in goloop (transaction PreValidate, DSR handler and
// DSR manager all do: decode both items with consensus.DecodeDoubleSignData,
// ValidateNetwork, IsConflictWith). Accepted pairs must be genuine conflicts.
func (b *byzantine) evidenceTick() {
	s, t := b.s, b.s.tape
	if !b.active || b.voteTmpl == nil {
		return
	}
	var byz []*node
	for _, n := range s.nodes {
		if n.byz {
			byz = append(byz, n)
		}
	}
	if len(byz) == 0 {
		return
	}
	w := byz[t.Choose("ev.signer", len(byz))].w
	h := int64(1 + t.Choose("ev.h", 6))
	r := int32(t.Choose("ev.r", 3))
	vt := consensus.VoteType(t.Choose("ev.type", 2))
	ts := common.UnixMicroFromTime(time.Now())
	blockDecision := func(nid uint32) ([]byte, *consensus.PartSetIDAndAppData) {
		if as := b.alts[h]; len(as) > 0 {
			a := as[0]
			return a.bid, a.psid.ID().WithAppData(uint64(nid)<<16 | uint64(uint16(a.psid.AppData())))
		}
		return nil, nil
	}
	nilID := func(nid int) []byte { return codec.MustMarshalToBytes(nid) }
	_, base := b.craftVote(w, h, r, vt, nilID(1), nil, ts)
	if base == nil {
		return
	}
	rel := []string{"genuine", "identical", "other-round", "other-height", "other-type", "other-signer", "other-network-nil", "other-network-block", "unspecified-network", "unsigned-section-differs"}[t.Choose("ev.rel", 10)]
	var other []byte
	switch rel {
	case "genuine":
		_, other = b.craftVote(w, h, r, vt, nilID(1), nil, ts+1)
	case "identical":
		other = base
	case "unsigned-section-differs":
		// one and the same signed vote in two wire forms: the copy carries an (unsigned) network-type
		// section the original does not have. Same signature, same signed content: no evidence.
		_, base = b.craftVote(w, h, r, consensus.VoteTypePrecommit, nilID(1), nil, ts)
		other = withUnsignedVoteSection(base, int64(1+t.Choose("ev.ntid", 3)), t.Bytes("ev.ntshash", 32), t.Bytes("ev.ntsproof", 1+t.Choose("ev.ntsprooflen", 8)))
	case "other-round":
		_, other = b.craftVote(w, h, r+1, vt, nilID(1), nil, ts+1)
	case "other-height":
		_, other = b.craftVote(w, h+1, r, vt, nilID(1), nil, ts+1)
	case "other-type":
		_, other = b.craftVote(w, h, r, 1-vt, nilID(1), nil, ts+1)
	case "other-signer":
		_, other = b.craftVote(s.newWallet("ev.key"), h, r, vt, nilID(1), nil, ts+1)
	case "other-network-nil":
		_, other = b.craftVote(w, h, r, vt, nilID(2), nil, ts+1)
	case "other-network-block":
		bid, p1 := blockDecision(1)
		_, p2 := blockDecision(2)
		if bid == nil {
			return
		}
		_, base = b.craftVote(w, h, r, vt, bid, p1, ts)
		_, other = b.craftVote(w, h, r, vt, bid, p2, ts+1)
	case "unspecified-network":
		bid, p0 := blockDecision(0)
		if bid == nil {
			return
		}
		_, other = b.craftVote(w, h, r, vt, bid, p0, ts+1)
	}
	dst := module.DSTVote
	if t.Permille("ev.proposal", 350) {
		// the same relations for pairs of proposals
		dst = module.DSTProposal
		mk := func(w module.Wallet, h int64, r int32, hash byte, pol int32, nid uint32) []byte {
			pm := consensus.NewProposalMessage()
			pm.Height, pm.Round, pm.POLRound, pm.NID = h, r, pol, nid
			pm.BlockPartSetID = &consensus.PartSetID{Count: 1, Hash: bytes.Repeat([]byte{hash}, 32)}
			if pm.Sign(w) != nil {
				return nil
			}
			return codec.BC.MustMarshalToBytes(pm)
		}
		base = mk(w, h, r, 0x11, -1, 1)
		rel = []string{"genuine", "identical", "other-round", "other-height", "other-signer", "other-network-nil", "unspecified-network", "genuine-pol-round-differs"}[t.Choose("ev.prel", 8)]
		switch rel {
		case "genuine":
			other = mk(w, h, r, 0x22, -1, 1)
		case "identical":
			other = base
		case "other-round":
			other = mk(w, h, r+1, 0x22, -1, 1)
		case "other-height":
			other = mk(w, h+1, r, 0x22, -1, 1)
		case "other-signer":
			other = mk(s.newWallet("ev.key"), h, r, 0x22, -1, 1)
		case "other-network-nil":
			other = mk(w, h, r, 0x22, -1, 2)
		case "unspecified-network":
			other = mk(w, h, r, 0x22, -1, 0)
		case "genuine-pol-round-differs":
			other = mk(w, h, r+2, 0x11, 0, 1)
			base = mk(w, h, r+2, 0x11, 1, 1)
		}
		rel = "proposal/" + rel
	}
	if base == nil || other == nil {
		return
	}
	if t.Permille("ev.swap", 500) {
		base, other = other, base
	}
	d0, err0 := consensus.DecodeDoubleSignData(dst, base)
	d1, err1 := consensus.DecodeDoubleSignData(dst, other)
	s.rc.Probe("evidence_pair_submitted:" + rel)
	if err0 != nil || err1 != nil {
		return
	}
	accepted := d0.ValidateNetwork(1) && d1.ValidateNetwork(1) && d0.IsConflictWith(d1)
	why := judgeEvidence(decodeEvidence(d0), decodeEvidence(d1))
	s.rc.Event("EVIDENCE rel=%s accepted=%v oracle=%q", rel, accepted, why)
	if accepted {
		s.rc.Probe("evidence_accepted")
		if why != "" {
			s.rc.Violate("bogus-double-sign-evidence-accepted", why, "the evidence acceptance predicate (DecodeDoubleSignData + ValidateNetwork + IsConflictWith) accepted a pair that is no genuine conflict: %s (constructed relation: %s)", why, rel)
		}
	}
}
