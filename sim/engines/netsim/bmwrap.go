package netsim

import (
	"github.com/icon-project/goloop/module"
)

// bmWrap is the block manager the consensus engine sees. ImportBlock and Propose start background
// goroutines (transition execution); whether such a goroutine has already made progress when the engine
// cancels the request a few lines later depends on when the Go scheduler preempts the engine's goroutine,
// i.e. on wall-clock time (measured: one seed in seven diverged between identical runs under load). The
// wrapper therefore only records the request; the driver starts the real call at the next quiescence, as
// an event of its own, and lets it run to completion before anything else happens. A request cancelled
// before it was started never starts; one that was started has always finished by the time the engine
// can cancel it. A synchronous error of the real call is delivered through the callback (the engine reacts
// to both in the same way).
type bmWrap struct {
	module.BlockManager
	inc *incarnation
}

type deferredCall struct {
	inc      *incarnation
	what     string
	start    func() (module.Canceler, error)
	fail     func(error)
	canceled bool
	started  bool
	real     module.Canceler
}

func (d *deferredCall) Cancel() bool {
	s := d.inc.s
	s.mu.Lock()
	if !d.started {
		d.canceled = true
		s.mu.Unlock()
		return true
	}
	real := d.real
	s.mu.Unlock()
	if real != nil {
		return real.Cancel()
	}
	return false
}

func (w *bmWrap) enqueue(d *deferredCall) module.Canceler {
	s := w.inc.s
	s.mu.Lock()
	s.deferred = append(s.deferred, d)
	s.mu.Unlock()
	s.poke()
	return d
}

func (w *bmWrap) ImportBlock(bd module.BlockData, flags int, cb func(module.BlockCandidate, error)) (module.Canceler, error) {
	return w.enqueue(&deferredCall{inc: w.inc, what: "import",
		start: func() (module.Canceler, error) { return w.BlockManager.ImportBlock(bd, flags, cb) },
		fail:  func(err error) { cb(nil, err) }}), nil
}

func (w *bmWrap) Propose(parentID []byte, votes module.CommitVoteSet, cb func(module.BlockCandidate, error)) (module.Canceler, error) {
	return w.enqueue(&deferredCall{inc: w.inc, what: "propose",
		start: func() (module.Canceler, error) { return w.BlockManager.Propose(parentID, votes, cb) },
		fail:  func(err error) { cb(nil, err) }}), nil
}

// startDeferred runs on the driver at quiescence: starts the oldest pending block-manager request.
func (s *sim) startDeferred() bool {
	s.mu.Lock()
	if len(s.deferred) == 0 {
		s.mu.Unlock()
		return false
	}
	d := s.deferred[0]
	s.deferred = s.deferred[1:]
	if d.canceled || !d.inc.alive() {
		s.mu.Unlock()
		s.rc.Event("BM-%s n%d dropped (cancelled before start: %v)", d.what, d.inc.node.idx, d.canceled)
		return true
	}
	d.started = true
	s.mu.Unlock()
	s.rc.Event("BM-%s n%d start", d.what, d.inc.node.idx)
	d.inc.node.touched = true
	go func() {
		c, err := d.start()
		if err != nil {
			d.fail(err)
			return
		}
		s.mu.Lock()
		d.real = c
		s.mu.Unlock()
	}()
	return true
}
