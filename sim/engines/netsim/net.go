package netsim

import (
	"fmt"
	"sort"
	"time"

	"github.com/icon-project/goloop/consensus/fastsync"

	"github.com/icon-project/goloop/common/errors"
	"github.com/icon-project/goloop/module"
)

// simNM is the module.NetworkManager of one node incarnation. Every send
// becomes an entry in the node's outbox; the driver turns outbox entries into
// delivery events (drop / duplicate / delay / partition decided by the tape).
type simNM struct {
	module.NetworkManager // nil: unimplemented methods panic if ever used
	inc                   *incarnation
	handlers              []*simPH
	roles                 map[string]module.Role // peer id -> roles bitmask as set by SetRole
}

type simPH struct {
	nm      *simNM
	name    string
	proto   module.ProtocolInfo
	reactor module.Reactor
	subs    []module.ProtocolInfo
}

type sendKind int

const (
	sendBroadcast sendKind = iota
	sendMulticast
	sendUnicast
)

type outMsg struct {
	gid   uint64 // goroutine that sent it (for canonical ordering)
	n     int    // per-goroutine sequence
	kind  sendKind
	proto module.ProtocolInfo // reactor's protocol
	sub   module.ProtocolInfo
	data  []byte
	role  module.Role
	bt    module.BroadcastType
	dst   module.PeerID
}

func newSimNM(inc *incarnation) *simNM {
	return &simNM{inc: inc, roles: map[string]module.Role{}}
}

func (nm *simNM) Start() error { return nil }
func (nm *simNM) Term()        {}

func (nm *simNM) GetPeers() []module.PeerID { return nm.inc.s.peersOf(nm.inc.node) }

func (nm *simNM) register(name string, pi module.ProtocolInfo, reactor module.Reactor, piList []module.ProtocolInfo) (module.ProtocolHandler, error) {
	s := nm.inc.s
	s.mu.Lock()
	defer s.mu.Unlock()
	for _, h := range nm.handlers {
		if h.proto == pi {
			return nil, errors.Errorf("duplicate protocol %v", pi)
		}
	}
	ph := &simPH{nm: nm, name: name, proto: pi, reactor: reactor, subs: append([]module.ProtocolInfo(nil), piList...)}
	nm.handlers = append(nm.handlers, ph)
	return ph, nil
}

func (nm *simNM) RegisterReactor(name string, pi module.ProtocolInfo, reactor module.Reactor, piList []module.ProtocolInfo, priority uint8, policy module.NotRegisteredProtocolPolicy) (module.ProtocolHandler, error) {
	return nm.register(name, pi, reactor, piList)
}

func (nm *simNM) RegisterReactorForStreams(name string, pi module.ProtocolInfo, reactor module.Reactor, piList []module.ProtocolInfo, priority uint8, policy module.NotRegisteredProtocolPolicy) (module.ProtocolHandler, error) {
	return nm.register(name, pi, reactor, piList)
}

func (nm *simNM) UnregisterReactor(reactor module.Reactor) error {
	s := nm.inc.s
	s.mu.Lock()
	defer s.mu.Unlock()
	for i, h := range nm.handlers {
		if h.reactor == reactor {
			nm.handlers = append(nm.handlers[:i], nm.handlers[i+1:]...)
			return nil
		}
	}
	return nil
}

func (nm *simNM) SetRole(version int64, role module.Role, peers ...module.PeerID) {
	s := nm.inc.s
	s.mu.Lock()
	defer s.mu.Unlock()
	for k, r := range nm.roles {
		if r == role {
			delete(nm.roles, k)
		}
	}
	for _, p := range peers {
		nm.roles[string(p.Bytes())] = role
	}
}

func (nm *simNM) GetPeersByRole(role module.Role) []module.PeerID     { return nil }
func (nm *simNM) AddRole(role module.Role, peers ...module.PeerID)    {}
func (nm *simNM) RemoveRole(role module.Role, peers ...module.PeerID) {}
func (nm *simNM) HasRole(role module.Role, id module.PeerID) bool {
	s := nm.inc.s
	s.mu.Lock()
	defer s.mu.Unlock()
	return nm.roles[string(id.Bytes())] == role
}
func (nm *simNM) Roles(id module.PeerID) []module.Role { return nil }
func (nm *simNM) SetTrustSeeds(seeds string)           {}
func (nm *simNM) SetInitialRoles(roles ...module.Role) {}

func (nm *simNM) handlerFor(proto, sub module.ProtocolInfo) *simPH {
	for _, h := range nm.handlers {
		if h.proto != proto {
			continue
		}
		for _, s := range h.subs {
			if s == sub {
				return h
			}
		}
	}
	return nil
}

func (ph *simPH) enqueue(m outMsg) error {
	inc := ph.nm.inc
	inc.crashPoint(siteNetSend)
	if !inc.alive() {
		return nil // fenced: nothing a dead incarnation does is observable
	}
	m.proto = ph.proto
	m.data = append([]byte(nil), m.data...)
	m.gid = goid()
	s := inc.s
	s.mu.Lock()
	if s.holdsRegisteredMutex(inc, m.gid) {
		m.gid = 0 // sent from inside one of the node's scheduled critical sections: arrival order is already decided by the driver
	}
	inc.node.sendSeq++
	m.n = inc.node.sendSeq
	inc.node.outbox = append(inc.node.outbox, m)
	s.mu.Unlock()
	s.poke()
	return nil
}

func (ph *simPH) Broadcast(pi module.ProtocolInfo, b []byte, bt module.BroadcastType) error {
	return ph.enqueue(outMsg{kind: sendBroadcast, sub: pi, data: b, bt: bt})
}

func (ph *simPH) Multicast(pi module.ProtocolInfo, b []byte, role module.Role) error {
	return ph.enqueue(outMsg{kind: sendMulticast, sub: pi, data: b, role: role})
}

func (ph *simPH) Unicast(pi module.ProtocolInfo, b []byte, id module.PeerID) error {
	err := ph.enqueue(outMsg{kind: sendUnicast, sub: pi, data: b, dst: id})
	if ph.proto == module.ProtoFastSync && pi == fastsync.ProtoBlockRequest {
		// handing a block request to the network takes a little (distinct) time: the
		// fast-sync client arms one timeout per request, and requests issued in one
		// critical section would otherwise expire at the same simulated instant, where
		// the order in which the runtime starts the timer goroutines is not repeatable
		inc := ph.nm.inc
		inc.s.mu.Lock()
		inc.node.fsSendSeq++
		k := inc.node.fsSendSeq
		inc.s.mu.Unlock()
		time.Sleep(time.Duration(1+k%997) * time.Microsecond)
	}
	return err
}

func (ph *simPH) GetPeers() []module.PeerID { return ph.nm.inc.s.peersOf(ph.nm.inc.node) }

// sortOutbox puts the entries of one node's outbox into a canonical order that
// does not depend on how the runtime interleaved the sending goroutines.
// Entries sent from inside the node's consensus critical section (gid 0) keep
// their arrival order: the driver decided it. Entries of other goroutines
// (syncer peer loops, fast-sync handlers) keep their per-goroutine order, and
// the goroutines are ordered by the content of their first message, not by
// goroutine id (creation order of unrelated goroutines depends on preemption).
func sortOutbox(ms []outMsg) {
	key := map[uint64]string{}
	for _, m := range ms {
		if m.gid == 0 {
			continue
		}
		if _, ok := key[m.gid]; !ok {
			dst := ""
			if m.dst != nil {
				dst = string(m.dst.Bytes())
			}
			key[m.gid] = fmt.Sprintf("%d/%x/%04x/%04x/%s", m.kind, dst, uint16(m.proto), uint16(m.sub), short(m.data))
		}
	}
	sort.SliceStable(ms, func(i, j int) bool {
		a, b := ms[i], ms[j]
		if (a.gid == 0) != (b.gid == 0) {
			return a.gid == 0
		}
		if a.gid == 0 {
			return a.n < b.n
		}
		if a.gid != b.gid {
			ka, kb := key[a.gid], key[b.gid]
			if ka != kb {
				return ka < kb
			}
			return a.gid < b.gid
		}
		return a.n < b.n
	})
}

func protoName(proto, sub module.ProtocolInfo) string {
	return fmt.Sprintf("%x/%x", uint16(proto), uint16(sub))
}
