// Package netsim simulates a cluster of goloop validators (real consensus
// engine + syncer, real file WAL, real block manager, real transition
// execution) on a simulated network, clock and disk, with crash-restart.
package netsim

import (
	"fmt"
	"os"
	"path/filepath"
	"strings"
	"testing"
	"testing/synctest"
	"time"

	"github.com/icon-project/goloop/common"
	"github.com/icon-project/goloop/common/log"
	"github.com/icon-project/goloop/consensus"
	"github.com/icon-project/goloop/test"

	"verif/sim/kit"
)

type engine struct{ t *testing.T }

func (engine) Name() string { return "netsim" }

func TestWorker(t *testing.T) {
	test.RegisterTransactionFactory()
	gl := log.New()
	gl.SetLevel(log.PanicLevel)
	if lv := os.Getenv("VERIF_LOGLEVEL"); lv != "" {
		if l, err := log.ParseLevel(lv); err == nil {
			gl.SetLevel(l)
		}
	}
	log.SetGlobalLogger(gl)
	if err := kit.WorkerMain(engine{t}); err != nil {
		t.Fatal(err)
	}
}

func (s *sim) drawConfig() {
	t, rc := s.tape, s.rc
	c := &s.cfg
	prof := rc.Profile
	c.N = []int{4, 1, 2, 3, 5, 6, 7}[t.Weighted("n", 6, 1, 1, 2, 2, 1, 2)]
	c.TargetHeight = int64(t.Range("target", 3, 8))
	if rc.Tier == "thorough" {
		c.TargetHeight = int64(t.Range("target", 3, 12))
	}
	c.MaxSim = 60 * time.Second
	c.MaxSteps = 250000
	c.TmoPropose = []time.Duration{time.Second, 300 * time.Millisecond, 3 * time.Second}[t.Choose("tmo", 3)]
	c.Commit = []time.Duration{50 * time.Millisecond, 10 * time.Millisecond, 500 * time.Millisecond}[t.Choose("commit", 3)]
	c.LatMin = time.Millisecond
	c.LatJitter = []time.Duration{20 * time.Millisecond, 0, 200 * time.Millisecond, 700 * time.Millisecond}[t.Weighted("jitter", 5, 2, 3, 1)]
	if c.LatJitter > 2*c.TmoPropose {
		// latencies far above the propose timeout only produce endless failed rounds (liveness is not a listed property)
		c.TmoPropose = time.Second
	}
	c.TxCount = t.Range("txs", 0, 6)
	c.ValChange = t.Permille("valchange", 300)
	if prof != "faultfree" {
		// swarm: each fault kind enabled independently, mostly mild
		if t.Permille("f.drop", 500) {
			c.DropPm = []int{20, 5, 100, 300}[t.Weighted("droprate", 5, 3, 2, 1)]
		}
		if t.Permille("f.dup", 400) {
			c.DupPm = []int{30, 100, 300}[t.Choose("duprate", 3)]
		}
		if t.Permille("f.corrupt", 200) {
			c.CorruptPm = []int{5, 30}[t.Choose("corruptrate", 2)]
		}
		if t.Permille("f.part", 300) {
			c.Partitions = 1 + t.Choose("nparts", 2)
		}
		if t.Permille("f.replay", 450) {
			c.ReplayOld = true
		}
		if t.Permille("f.pcstarve", 300) {
			c.DropPrecommitPm = []int{500, 300, 800}[t.Choose("pcstarve.rate", 3)]
		}
		if t.Permille("f.split", 300) {
			c.SplitPolkaPm = []int{300, 600, 1000}[t.Choose("split.rate", 3)]
		}
		if t.Permille("f.slow", 350) {
			c.SlowPm = []int{10, 40, 150}[t.Choose("slowrate", 3)]
		}
	}
	if prof == "crash" {
		c.Crashes = 1 + t.Choose("ncrash", 5)
	}
	if (prof == "faultfree" || prof == "net" || prof == "crash") && t.Permille("minblockgen", 200) {
		c.MinBlockGen = true
	}
	if prof == "fastsync" {
		c.TargetHeight = int64(t.Range("target.fs", 8, 11))
		c.LagHeights = int64(t.Range("lag.h", 6, 7))
		c.Crashes, c.Partitions, c.DropPrecommitPm, c.SplitPolkaPm = 0, 0, 0, 0
		if c.DropPm > 20 {
			c.DropPm = 20
		}
		c.MaxSim = 90 * time.Second
	}
	if prof == "lag" {
		// one validator is cut off long enough to need fast sync when it comes back
		c.TargetHeight = int64(t.Range("target.lag", 9, 12))
		c.LagHeights = int64(t.Range("lag.h", 6, 7))
		c.Crashes, c.Partitions, c.ValChange = 0, 0, false
		if c.DropPm > 100 {
			c.DropPm = 20
		}
		c.MaxSim = 120 * time.Second
		c.N = []int{4, 5, 7}[t.Choose("n.lag", 3)]
		c.Isolate = true
		if t.Permille("lag.byz", 600) {
			c.F = 1
			c.N = 7 // with one validator cut off the others still need +2/3 without depending on the Byzantine one
			b := s.byz
			b.active, b.equivocate = true, true
			b.fastsync = t.Permille("lag.fslies", 400)
		}
	}
	if prof == "byz" || prof == "storm" || prof == "forge" || prof == "fastsync" {
		// Byzantine validators need n >= 4 (f < n/3)
		c.N = []int{4, 5, 6, 7}[t.Weighted("n.byz", 5, 2, 1, 3)]
		c.F = 1
		if c.N == 7 && t.Permille("f2", 500) {
			c.F = 2
		}
		c.ValChange = false
		b := s.byz
		b.active = true
		switch prof {
		case "byz":
			b.equivocate = true
			b.storm = t.Permille("byz.storm", 400)
			if t.Permille("byz.wh", 400) {
				b.withholdPm = []int{100, 400, 900}[t.Choose("byz.whrate", 3)]
			}
			if t.Permille("byz.crashes", 300) {
				c.Crashes = 1 + t.Choose("ncrash", 3)
			}
		case "storm":
			b.equivocate, b.storm = true, true
			if c.DupPm == 0 {
				c.DupPm = 200
			}
		case "forge":
			b.forge = rc.Property
			if rc.Property == "C05" && t.Permille("n.large", 200) {
				// a larger validator set (certificates with ten and more items; two Byzantine validators allowed)
				c.N = []int{10, 13}[t.Choose("n.large.n", 2)]
				if c.TargetHeight > 6 {
					c.TargetHeight = 6
				}
			}
			if rc.Property == "C08" && c.TxCount < 4 {
				c.TxCount = 4 + t.Choose("txs.c08", 8) // bodies with transactions to swap and strip
			}
			b.equivocate = t.Permille("forge.equiv", 200)
		case "fastsync":
			// the Byzantine validator takes part in consensus honestly (the others need its votes while
			// the laggard is down) and lies only as a fast-sync server
			b.fastsync = true
			b.starveParts = t.Permille("fs.starveparts", 500)
			c.N = []int{4, 5}[t.Choose("n.fs", 2)]
			c.F = 1
		}
	}
	if c.N > 1 && t.Permille("skew", 300) {
		c.SkewMaxUs = int64([]int{1000, 100000, 5000000}[t.Choose("skewmax", 3)])
	}
	if prof == "forge" && rc.Property == "C07" && t.Permille("skew.c07", 500) {
		c.SkewMaxUs = 5000000 // vote timestamps that lag by seconds: medians at or below a parent's timestamp become possible
	}
	rc.Config["n"] = c.N
	rc.Config["target_height"] = c.TargetHeight
	rc.Config["timeout_propose_ms"] = c.TmoPropose.Milliseconds()
	rc.Config["commit_ms"] = c.Commit.Milliseconds()
	rc.Config["jitter_ms"] = c.LatJitter.Milliseconds()
	rc.Config["drop_pm"] = c.DropPm
	rc.Config["dup_pm"] = c.DupPm
	rc.Config["corrupt_pm"] = c.CorruptPm
	rc.Config["crashes"] = c.Crashes
	rc.Config["partitions"] = c.Partitions
	rc.Config["minimize_block_gen"] = c.MinBlockGen
	rc.Config["split_polka_pm"] = c.SplitPolkaPm
	rc.Config["drop_precommit_pm"] = c.DropPrecommitPm
	rc.Config["txs"] = c.TxCount
}

func (s *sim) scheduleWorkloadAndFaults() {
	t := s.tape
	if s.cfg.MinBlockGen {
		// no empty blocks: the chain only moves while transactions keep arriving
		s.rc.Probe("minimize_block_gen")
		var tick func()
		tick = func() {
			s.submitTx(0)
			s.schedule(time.Duration(150+s.tape.Choose("mbg.gap", 400))*time.Millisecond, "tx", tick)
		}
		s.schedule(50*time.Millisecond, "tx", tick)
	}
	horizon := int(s.cfg.TargetHeight) * 400 // ms, rough span of the run
	for i := 0; i < s.cfg.TxCount; i++ {
		kind := 0
		if s.cfg.ValChange && i == 0 {
			kind = 1
		}
		s.schedule(time.Duration(t.Range("tx.at", 0, horizon))*time.Millisecond, "tx", func() { s.submitTx(kind) })
	}
	if s.rc.Property == "C07" && t.Permille("verchange", 250) {
		// late in the run, so that several heights are finalized before the chain has to stop
		at := time.Duration(horizon/2+t.Range("verchange.at", 0, horizon/2)) * time.Millisecond
		s.schedule(at, "tx", func() { s.submitTx(2) })
	}
	for i := 0; i < s.cfg.Crashes; i++ {
		at := time.Duration(t.Range("crash.at", 0, horizon)) * time.Millisecond
		s.schedule(at, "arm-crash", func() { s.armCrash() })
	}
	if s.cfg.ReplayOld {
		var tick func()
		tick = func() {
			s.replayOld()
			s.schedule(time.Duration(100+t.Choose("replay.gap", 600))*time.Millisecond, "replay-old", tick)
		}
		s.schedule(400*time.Millisecond, "replay-old", tick)
	}
	for i := 0; i < s.cfg.Partitions; i++ {
		at := time.Duration(t.Range("part.at", 0, horizon)) * time.Millisecond
		dur := time.Duration(t.Range("part.dur", 50, 3000)) * time.Millisecond
		s.schedule(at, "partition", func() { s.startPartition(dur) })
	}
}

// armCrash picks a victim and the crash point (n-th visit of an enabled site class).
func (s *sim) armCrash() {
	t := s.tape
	var cands []*node
	for _, n := range s.nodes {
		if !n.byz && n.inc != nil && n.inc.alive() && !n.crashArmed {
			cands = append(cands, n)
		}
	}
	if len(cands) == 0 {
		return
	}
	n := cands[t.Choose("crash.victim", len(cands))]
	mode := t.Weighted("crash.mode", 2, 5, 2, 1, 1, 2)
	var sites [nSites]bool
	desc := ""
	switch mode {
	case 0: // right now, between events
		s.rc.Event("ARM-CRASH n%d quiescent", n.idx)
		s.crashNow(n.inc, siteQuiescent)
		return
	case 1: // around the WAL
		sites[siteWALWriteBefore], sites[siteWALWriteAfter], sites[siteWALSyncMid], sites[siteWALSyncAfter] = true, true, true, true
		desc = "wal"
	case 2:
		sites[siteNetSend] = true
		desc = "net"
	case 3:
		sites[siteDBSet] = true
		desc = "db"
	case 4:
		for i := range sites {
			sites[i] = i != siteQuiescent
		}
		desc = "any"
	case 5:
		// double crash: first while a record of the round WAL is written but not yet synced - the crash image
		// keeps the record's header and junk where its payload should be (torn sectors) - then, soon after the
		// restart, the same validator crashes again. What it signed in between must survive the second recovery.
		sites[siteWALWriteAfter], sites[siteWALSyncMid] = true, true
		desc = "wal-junk-then-again"
		n.forceJunk, n.recrash = true, true
	}
	k := 1 + t.Choose("crash.nth", 40)
	s.mu.Lock()
	n.crashArmed, n.crashCountdown, n.crashSites = true, k, sites
	s.mu.Unlock()
	s.rc.Event("ARM-CRASH n%d sites=%s nth=%d", n.idx, desc, k)
}

func (s *sim) startPartition(dur time.Duration) {
	t := s.tape
	// split nodes into two groups
	var a []int
	for i := range s.nodes {
		if t.Permille("part.side", 500) {
			a = append(a, i)
		}
	}
	if len(a) == 0 || len(a) == len(s.nodes) {
		return
	}
	in := map[int]bool{}
	for _, i := range a {
		in[i] = true
	}
	var pairs [][2]int
	for i := range s.nodes {
		for j := i + 1; j < len(s.nodes); j++ {
			if in[i] != in[j] {
				pairs = append(pairs, [2]int{i, j})
				s.part[[2]int{i, j}] = true
			}
		}
	}
	s.rc.Fault("partition")
	s.rc.Event("PARTITION %v | rest for %v", a, dur)
	dropHeld := t.Permille("part.drop", 300)
	s.schedule(dur, "heal", func() {
		for _, p := range pairs {
			delete(s.part, p)
		}
		held := s.held
		s.held = nil
		s.rc.Fault("heal")
		s.rc.Event("HEAL released=%d drop=%v", len(held), dropHeld)
		if !dropHeld {
			for _, h := range held {
				s.send(s.nodes[h.src], s.nodes[h.dst], h.m, true)
			}
		}
	})
}

func (e engine) Run(rc *kit.RunCtx) {
	s := &sim{rc: rc, tape: rc.Tape, t: e.t, wake: make(chan struct{}, 1), mutexes: map[*common.Mutex]*mutexState{}, part: map[[2]int]bool{}}
	s.orc = newOracle(s)
	s.byz = newByzantine(s)
	consensus.SimResetVoteSetIDs()
	s.drawConfig()
	defer func() {
		common.SimLockHook, common.SimUnlockHook = nil, nil
	}()
	func() {
		defer func() {
			if p := recover(); p != nil {
				msg := fmt.Sprint(p)
				if strings.Contains(msg, "deadlock") {
					// goroutines of terminated incarnations that wait for each other forever
					rc.Probe("bubble_end_deadlock")
					return
				}
				panic(p)
			}
		}()
		synctest.Test(e.t, func(t *testing.T) {
			s.wake = make(chan struct{}, 1)
			s.start = time.Now()
			common.SimLockHook, common.SimUnlockHook = s.lockHook, s.unlockHook
			for i := 0; i < s.cfg.N; i++ {
				w := s.newWallet("key")
				n := &node{idx: i, w: w, addr: w.Address(), peerID: peerIDOf(w.Address()), finalized: map[int64]string{}}
				if s.cfg.SkewMaxUs > 0 {
					n.skewUs = int64(s.tape.Range("skew.n", 0, 2*int(s.cfg.SkewMaxUs))) - s.cfg.SkewMaxUs
				}
				s.nodes = append(s.nodes, n)
			}
			s.makeGenesis()
			if s.byz.active {
				for _, i := range s.tape.Perm("byz.who", len(s.nodes))[:s.cfg.F] {
					s.nodes[i].byz = true
				}
				if rc.Property == "C06" {
					var etick func()
					etick = func() {
						s.byz.evidenceTick()
						s.schedule(time.Duration(50+s.tape.Choose("ev.gap", 300))*time.Millisecond, "evidence", etick)
					}
					s.schedule(300*time.Millisecond, "evidence", etick)
				}
				if s.byz.storm {
					var tick func()
					tick = func() {
						s.byz.stormTick()
						s.schedule(time.Duration(20+s.tape.Choose("storm.gap", 200))*time.Millisecond, "storm", tick)
					}
					s.schedule(100*time.Millisecond, "storm", tick)
				}
			}
			var laggard *node
			if s.cfg.Isolate {
				var correct []*node
				for _, n := range s.nodes {
					if !n.byz {
						correct = append(correct, n)
					}
				}
				s.scheduleIsolation(correct[s.tape.Choose("isolated", len(correct))])
			} else if s.byz.fastsync {
				var correct []*node
				for _, n := range s.nodes {
					if !n.byz {
						correct = append(correct, n)
					}
				}
				laggard = correct[s.tape.Choose("laggard", len(correct))]
				s.scheduleLaggard(laggard)
			}
			for _, n := range s.nodes {
				if n == laggard {
					continue // boots later, far behind (fastsync.go)
				}
				dir := filepath.Join(rc.Scratch, fmt.Sprintf("n%d-i1-wal", n.idx))
				os.MkdirAll(dir, 0700)
				inc := s.newIncarnation(n, newSimDB(), dir)
				n.inc = inc
				s.boot(inc)
			}
			s.scheduleWorkloadAndFaults()
			s.mainLoop()
			s.shutdown()
		})
	}()
	var minH int64 = 1 << 40
	for _, n := range s.nodes {
		if !n.byz && n.lastSeenH < minH {
			minH = n.lastSeenH
		}
	}
	rc.Metric("min_height_reached", minH)
	if minH >= s.cfg.TargetHeight {
		rc.Probe("target_reached")
	}
	rc.Config["heights"] = minH
	rc.Nontrivial = minH >= 1 && s.cfg.N >= 1
}
