package netsim

import (
	"bytes"
	"encoding/hex"
	"fmt"
	"io"
	"os"
	"path/filepath"
	"sort"
	"time"

	"github.com/icon-project/goloop/block"
	"github.com/icon-project/goloop/common"
	"github.com/icon-project/goloop/common/codec"
	"github.com/icon-project/goloop/consensus"
	"github.com/icon-project/goloop/consensus/fastsync"
	"github.com/icon-project/goloop/module"
)

// Fast-sync entry of C05: one correct validator (the laggard) starts only after
// the others are several heights ahead, so that its syncer fetches blocks
// through the real fast-sync client; for a while it can only reach the
// Byzantine validator, whose fast-sync answers pass through the proxy:
// the commit proof of a block is replaced by a forged certificate (same menu as
// for proposed blocks), or a sibling block that was proposed but never
// committed is served instead of the committed one with a bogus proof naming
// the commit round. What the laggard accepts is judged by the agreement oracle,
// the wire recount and the certificate it records in its own commit WAL.

type fsKey struct {
	dst int
	req uint32
}

type fsState struct {
	reqHeight map[fsKey]int64  // requests the Byzantine server has received
	sibling   map[fsKey][]byte // block data to substitute for a request
}

func (b *byzantine) fs() *fsState {
	if b.fsst == nil {
		b.fsst = &fsState{reqHeight: map[fsKey]int64{}, sibling: map[fsKey][]byte{}}
	}
	return b.fsst
}

// onFastSyncRequest: a block request delivered to the Byzantine node.
func (b *byzantine) onFastSyncRequest(src *node, data []byte) {
	var rq fastsync.BlockRequest
	if _, err := codec.UnmarshalFromBytes(data, &rq); err != nil {
		return
	}
	b.fs().reqHeight[fsKey{src.idx, rq.RequestID}] = rq.Height
}

// rewriteFastSync handles one outgoing fast-sync message of the Byzantine node.
func (b *byzantine) rewriteFastSync(src *node, m outMsg) outMsg {
	s, t := b.s, b.s.tape
	dst := s.nodeByPeer(m.dst)
	if dst == nil {
		return m
	}
	st := b.fs()
	switch m.sub {
	case fastsync.ProtoBlockMetadata:
		var md fastsync.BlockMetadata
		if _, err := codec.UnmarshalFromBytes(m.data, &md); err != nil || md.BlockLength < 0 {
			return m
		}
		k := fsKey{dst.idx, md.RequestID}
		h, ok := st.reqHeight[k]
		if !ok || h < 1 {
			return m
		}
		idHex, known := s.orc.finalID[h]
		if !known {
			return m
		}
		blockID, _ := hex.DecodeString(idHex)
		var c cvlFormat
		if _, err := codec.BC.UnmarshalFromBytes(md.Proof, &c); err != nil {
			return m
		}
		n := len(s.orc.validators[h])
		// sibling substitution, if a proposed-but-uncommitted block of that height is known
		if t.Permille("fs.sibling", 350) {
			cands := append([][]byte(nil), b.rawBlocks[h]...)
			// no uncommitted proposal known at this height: fabricate a sibling of the committed block
			// (same parent, same body, another proposer: decodes and imports like any block, but nobody
			// ever precommitted it)
			for _, raw := range b.rawBlocks[h] {
				hf, bf, err := readBlock(raw)
				if err != nil || hex.EncodeToString(sha3(codec.BC.MustMarshalToBytes(hf))) != idHex {
					continue
				}
				nh := *hf
				other := s.nodes[(src.idx+1+t.Choose("fs.sib.prop", len(s.nodes)-1))%len(s.nodes)]
				nh.Proposer = other.addr.Bytes()
				if bytes.Equal(nh.Proposer, hf.Proposer) {
					nh.Proposer = src.addr.Bytes()
				}
				if fab, err := io.ReadAll(block.NewBlockReaderFromFormat(&nh, bf)); err == nil && !bytes.Equal(nh.Proposer, hf.Proposer) {
					cands = append(cands, fab)
				}
				break
			}
			for _, raw := range cands {
				hf, _, err := readBlock(raw)
				if err != nil {
					continue
				}
				sid := sha3(codec.BC.MustMarshalToBytes(hf))
				if hex.EncodeToString(sid) == idHex {
					continue
				}
				psb := consensus.NewPartSetBuffer(consensus.ConfigBlockPartSize)
				_, _ = psb.Write(raw)
				psid := psb.PartSet().ID().WithAppData(c.PSID.AppData())
				bogus := cvlFormat{Round: c.Round, PSID: psid}
				if vm, _ := b.craftVote(src.w, h, c.Round, consensus.VoteTypePrecommit, sid, psid, common.UnixMicroFromTime(time.Now())); vm != nil && t.Permille("fs.sib.sig", 500) {
					bogus.Items = append(bogus.Items, cvlItem{vm.Timestamp, vm.Signature})
				}
				md.BlockLength = int32(len(raw))
				md.Proof = codec.BC.MustMarshalToBytes(&bogus)
				st.sibling[k] = raw
				s.rc.Fault("byz_fastsync_sibling_block")
				s.rc.Event("FS-FORGE n%d>n%d h=%d kind=sibling-block items=%d", src.idx, dst.idx, h, len(bogus.Items))
				m.data = codec.MustMarshalToBytes(&md)
				return m
			}
		}
		kinds := []string{"minus-to-2/3", "duplicate", "foreign-key", "bitflip", "empty", "time-shift", "other-round", "minus-to-2/3+1", "unrecoverable", "no-recovery-id"}
		kind := kinds[t.Choose("fs.kind", len(kinds))]
		items := append([]cvlItem(nil), c.Items...)
		sigOverride := map[int][]byte{}
		switch kind {
		case "unrecoverable", "no-recovery-id":
			if len(items) > 0 {
				i := t.Choose("fs.badsig", len(items))
				if bs := badSignatureBytes(kind, items[i].Signature); bs != nil {
					sigOverride[i] = bs
				}
			}
		case "minus-to-2/3", "minus-to-2/3+1":
			keep := 2 * n / 3
			if kind == "minus-to-2/3+1" {
				keep++
			}
			for len(items) > keep {
				i := t.Choose("fs.drop", len(items))
				items = append(items[:i], items[i+1:]...)
			}
		case "duplicate":
			if len(items) >= 2 {
				i := t.Choose("fs.dup", len(items))
				items[i] = items[(i+1)%len(items)]
			}
		case "foreign-key":
			if len(items) > 0 {
				w := s.newWallet("fs.key")
				i := t.Choose("fs.fk", len(items))
				if vm, _ := b.craftVote(w, h, c.Round, consensus.VoteTypePrecommit, blockID, c.PSID, items[i].Timestamp); vm != nil {
					items[i].Signature = vm.Signature
				}
			}
		case "bitflip":
			if len(items) > 0 {
				i := t.Choose("fs.bf", len(items))
				if raw, err := items[i].Signature.MarshalBinary(); err == nil && len(raw) > 1 {
					raw = append([]byte(nil), raw...)
					raw[t.Choose("fs.bf.pos", len(raw)-1)] ^= byte(1 << t.Choose("fs.bf.bit", 8))
					var sg common.Signature
					if sg.UnmarshalBinary(raw) == nil {
						items[i].Signature = sg
					}
				}
			}
		case "empty":
			items = nil
		case "time-shift":
			if len(items) > 0 {
				items[t.Choose("fs.ts", len(items))].Timestamp += 1 + int64(t.Choose("fs.ts.d", 5))
			}
		case "other-round":
			c.Round++
		}
		c.Items = items
		valid, distinct, bad := b.verifyCVL(h, blockID, &c)
		if len(sigOverride) > 0 {
			valid, bad = false, bad+1
		}
		md.Proof = encodeCVL(&c, sigOverride)
		m.data = codec.MustMarshalToBytes(&md)
		s.rc.Fault("byz_fastsync_forged_proof:" + kind)
		if !valid {
			s.rc.Probe("byz_fastsync_invalid_proof_served")
		}
		s.rc.Event("FS-FORGE n%d>n%d h=%d kind=%s items=%d distinct=%d bad=%d n=%d oracle_valid=%v", src.idx, dst.idx, h, kind, len(items), distinct, bad, n, valid)
	case fastsync.ProtoBlockData:
		var bd fastsync.BlockData
		if _, err := codec.UnmarshalFromBytes(m.data, &bd); err != nil {
			return m
		}
		k := fsKey{dst.idx, bd.RequestID}
		if raw, ok := st.sibling[k]; ok {
			if raw == nil {
				// further chunks of the original block: replaced by nothing
				bd.Data = nil
			} else {
				bd.Data = raw
				st.sibling[k] = nil
			}
			m.data = codec.MustMarshalToBytes(&bd)
		}
	}
	return m
}

func sha3(b []byte) []byte {
	return cryptoSHA3(b)
}

// scheduleLaggard keeps node L down until the other correct validators are
// several heights ahead, then boots it (fresh disk) reachable only through the
// Byzantine validators for a while.
func (s *sim) scheduleLaggard(l *node) {
	var tick func()
	tick = func() {
		var minH int64 = 1 << 40
		for _, n := range s.nodes {
			if n != l && !n.byz && n.lastSeenH < minH {
				minH = n.lastSeenH
			}
		}
		if minH < s.cfg.LagHeights {
			s.schedule(100*time.Millisecond, "laggard-wait", tick)
			return
		}
		dur := time.Duration(s.tape.Range("lag.isolated", 500, 6000)) * time.Millisecond
		var pairs [][2]int
		for _, n := range s.nodes {
			if n != l && !n.byz {
				a, b := l.idx, n.idx
				if a > b {
					a, b = b, a
				}
				pairs = append(pairs, [2]int{a, b})
				s.part[[2]int{a, b}] = true
			}
		}
		s.laggard = l
		s.rc.Fault("laggard_boot")
		s.rc.Event("LAGGARD n%d boots at height 0 while the others are at %d; reachable only through Byzantine validators for %v", l.idx, minH, dur)
		dir := filepath.Join(s.rc.Scratch, fmt.Sprintf("n%d-i1-wal", l.idx))
		os.MkdirAll(dir, 0700)
		s.restart(l, newSimDB(), dir)
		s.schedule(dur, "laggard-heal", func() {
			for _, p := range pairs {
				delete(s.part, p)
			}
			held := s.held
			s.held = nil
			s.rc.Event("LAGGARD-HEAL released=%d", len(held))
			sort.SliceStable(held, func(i, j int) bool { return false })
			for _, h := range held {
				s.send(s.nodes[h.src], s.nodes[h.dst], h.m, true)
			}
		})
	}
	s.schedule(200*time.Millisecond, "laggard-wait", tick)
}

// scheduleIsolation: a running correct validator L is cut off from everybody at a tape-chosen moment (in the
// middle of whatever round it is in, possibly holding a validated proposal or a lock), stays cut off until
// the others are LagHeights ahead, and is then reconnected: it is too far behind for vote sync and catches
// up through fast sync (from honest servers, and from the Byzantine one if there is one).
func (s *sim) scheduleIsolation(l *node) {
	at := time.Duration(s.tape.Range("iso.at", 150, 2500)) * time.Millisecond
	s.schedule(at, "isolate", func() {
		var pairs [][2]int
		for _, n := range s.nodes {
			if n != l {
				a, b := l.idx, n.idx
				if a > b {
					a, b = b, a
				}
				pairs = append(pairs, [2]int{a, b})
				s.part[[2]int{a, b}] = true
			}
		}
		h0 := l.lastSeenH
		s.rc.Fault("validator_isolated")
		s.rc.Event("ISOLATE n%d at height %d until the others are %d heights ahead", l.idx, h0, s.cfg.LagHeights)
		var tick func()
		tick = func() {
			var minH int64 = 1 << 40
			for _, n := range s.nodes {
				if n != l && !n.byz && n.lastSeenH < minH {
					minH = n.lastSeenH
				}
			}
			if minH < h0+s.cfg.LagHeights {
				s.schedule(100*time.Millisecond, "isolation-wait", tick)
				return
			}
			for _, p := range pairs {
				delete(s.part, p)
			}
			// what was held for and from the isolated validator during the isolation is gone (connections
			// were down), apart from a tape-chosen few stragglers
			held := s.held
			s.held = nil
			kept := 0
			for _, h := range held {
				if s.tape.Permille("iso.straggler", 30) {
					s.send(s.nodes[h.src], s.nodes[h.dst], h.m, true)
					kept++
				}
			}
			s.rc.Fault("validator_reconnected_far_behind")
			s.rc.Event("RECONNECT n%d at height %d, others at %d (%d of %d held messages delivered late)", l.idx, l.lastSeenH, minH, kept, len(held))
			for _, n := range s.nodes {
				if n != l && n.inc != nil && n.inc.alive() && l.inc != nil && l.inc.alive() {
					s.notifyJoin(n.inc, l.peerID)
					s.notifyJoin(l.inc, n.peerID)
				}
			}
		}
		s.schedule(100*time.Millisecond, "isolation-wait", tick)
	})
}

var _ = module.ProtoFastSync
