package netsim

import (
	"container/heap"
	"crypto/sha256"
	"encoding/hex"
	"fmt"
	"os"
	"testing/synctest"
	"time"

	"github.com/icon-project/goloop/common"
	"github.com/icon-project/goloop/consensus"
	"github.com/icon-project/goloop/consensus/fastsync"
	"github.com/icon-project/goloop/module"
	"github.com/icon-project/goloop/test"
)

func short(b []byte) string {
	h := sha256.Sum256(b)
	return hex.EncodeToString(h[:4])
}

func (s *sim) partitioned(a, b int) bool {
	if a > b {
		a, b = b, a
	}
	return s.part[[2]int{a, b}]
}

// drainOutboxes turns everything the nodes handed to the network since the
// last quiescence into delivery events. Nodes in index order, each node's
// entries in canonical order.
func (s *sim) drainOutboxes() bool {
	did := false
	for _, n := range s.nodes {
		s.mu.Lock()
		ms := n.outbox
		n.outbox = nil
		s.mu.Unlock()
		if len(ms) == 0 {
			continue
		}
		did = true
		sortOutbox(ms)
		if n.byz && s.byz.active {
			for _, r := range s.byz.rewriteBatch(n, ms) {
				if r.dst == nil {
					s.route(n, r.m)
				} else {
					s.orc.onWire(n, r.m.proto, r.m.sub, r.m.data)
					s.send(n, r.dst, r.m, false)
				}
			}
			continue
		}
		for _, m := range ms {
			s.route(n, m)
		}
	}
	return did
}

// route expands one send into per-destination deliveries.
func (s *sim) route(src *node, m outMsg) {
	s.orc.onWire(src, m.proto, m.sub, m.data)
	s.byz.learn(m.sub, m.proto, m.data)
	if s.cfg.ReplayOld && (m.proto == module.ProtoConsensus || m.proto == module.ProtoConsensusSync) && len(m.data) < 4096 {
		// pool of old traffic for the "very late duplicate" fault
		if len(s.recent) < 400 {
			s.recent = append(s.recent, heldMsg{src: src.idx, m: m})
		} else {
			s.recent[s.recentN%400] = heldMsg{src: src.idx, m: m}
		}
		s.recentN++
	}
	var dsts []*node
	switch m.kind {
	case sendUnicast:
		if d := s.nodeByPeer(m.dst); d != nil {
			dsts = append(dsts, d)
		}
	case sendBroadcast:
		for _, d := range s.nodes {
			if d != src {
				dsts = append(dsts, d)
			}
		}
	case sendMulticast:
		var roles map[string]module.Role
		if src.inc != nil {
			s.mu.Lock()
			roles = src.inc.nm.roles
			s.mu.Unlock()
		}
		for _, d := range s.nodes {
			if d == src {
				continue
			}
			if roles == nil || roles[string(d.peerID.Bytes())] == m.role {
				dsts = append(dsts, d)
			}
		}
	}
	for _, d := range dsts {
		s.send(src, d, m, false)
	}
}

func (s *sim) send(src, dst *node, m outMsg, released bool) {
	tag := fmt.Sprintf("n%d>n%d %s %s", src.idx, dst.idx, protoName(m.proto, m.sub), short(m.data))
	if s.partitioned(src.idx, dst.idx) {
		s.held = append(s.held, heldMsg{src.idx, dst.idx, m})
		s.rc.Fault("partition_held")
		s.rc.Event("HOLD %s", tag)
		return
	}
	if !released && s.cfg.DropPrecommitPm > 0 && m.proto == module.ProtoConsensus && m.sub == consensus.ProtoVote {
		// "precommit starvation": polkas form and validators lock, but commits fail,
		// so that later rounds run with locks held (where the lock rules matter)
		if msg, err := consensus.UnmarshalMessage(uint16(m.sub), m.data); err == nil {
			if vm, ok := msg.(*consensus.VoteMessage); ok && vm.Type == consensus.VoteTypePrecommit && vm.Round < 3 && s.tape.Permille("drop.pc", s.cfg.DropPrecommitPm) {
				s.rc.Fault("precommit_dropped")
				s.rc.Event("DROP-PC %s", tag)
				return
			}
		}
	}
	if !released && s.cfg.SplitPolkaPm > 0 && m.proto == module.ProtoConsensus && m.sub == consensus.ProtoVote {
		// "split polka": in some rounds the prevotes reach only part of the validators, so that
		// those lock (or see the polka late, through vote lists) while the others time out and
		// precommit nil: the following rounds run with different locks on different validators,
		// re-proposals with a proof-of-lock round and unlock decisions
		if msg, err := consensus.UnmarshalMessage(uint16(m.sub), m.data); err == nil {
			if vm, ok := msg.(*consensus.VoteMessage); ok && vm.Type == consensus.VoteTypePrevote && vm.Round < 3 {
				k := fmt.Sprintf("%d/%d", vm.Height, vm.Round)
				mask, seen := s.polkaSplit[k]
				if !seen {
					if s.polkaSplit == nil {
						s.polkaSplit = map[string]int{}
					}
					if s.tape.Permille("split.on", s.cfg.SplitPolkaPm) && len(s.nodes) > 1 {
						mask = 1 + s.tape.Choose("split.mask", (1<<len(s.nodes))-2)
						s.rc.Fault("polka_split_round")
						s.rc.Event("SPLIT-POLKA %s starved-mask=%b", k, mask)
					}
					s.polkaSplit[k] = mask
				}
				if mask&(1<<dst.idx) != 0 && s.tape.Permille("split.drop", 900) {
					s.rc.Fault("prevote_withheld_by_split")
					s.rc.Event("DROP-PV %s", tag)
					return
				}
			}
		}
	}
	if !released && s.tape.Permille("drop", s.cfg.DropPm) {
		s.rc.Fault("drop")
		s.rc.Event("DROP %s", tag)
		return
	}
	copies := 1
	if s.tape.Permille("dup", s.cfg.DupPm) {
		copies = 2
		s.rc.Fault("duplicate")
	}
	for c := 0; c < copies; c++ {
		lat := s.cfg.LatMin + time.Duration(s.tape.Choose("lat", int(s.cfg.LatJitter/time.Millisecond)+1))*time.Millisecond
		if c > 0 {
			lat += time.Duration(s.tape.Range("duplat", 0, 200)) * time.Millisecond
		}
		if s.tape.Permille("slow", s.cfg.SlowPm) {
			lat += time.Duration(s.tape.Range("slowlat", 300, 5000)) * time.Millisecond
			s.rc.Fault("slow_delivery")
		}
		data := m.data
		if s.tape.Permille("corrupt", s.cfg.CorruptPm) {
			data = append([]byte(nil), data...)
			if len(data) > 0 {
				i := s.tape.Choose("corrupt.pos", len(data))
				data[i] ^= byte(1 << s.tape.Choose("corrupt.bit", 8))
			}
			s.rc.Fault("corrupt")
			tag += "~"
		}
		if m.proto == module.ProtoFastSync {
			// fast-sync answers of one server to one client travel on one ordered stream: metadata before
			// data, chunk after chunk (reordering them only makes the client drop the answer and time out)
			k := [2]int{src.idx, dst.idx}
			if s.fsLast == nil {
				s.fsLast = map[[2]int]time.Duration{}
			}
			at := s.now() + lat
			if last, ok := s.fsLast[k]; ok && at <= last {
				at = last + time.Millisecond
				lat = at - s.now()
			}
			s.fsLast[k] = at
		}
		mm := m
		mm.data = data
		s.rc.Event("SEND %s +%dms", tag, lat/time.Millisecond)
		s.schedule(lat, "deliver", func() { s.deliver(src, dst, mm) })
	}
}

func (s *sim) deliver(src, dst *node, m outMsg) {
	tag := fmt.Sprintf("n%d>n%d %s %s", src.idx, dst.idx, protoName(m.proto, m.sub), short(m.data))
	inc := dst.inc
	if inc == nil || !inc.alive() {
		s.rc.Event("LOST %s (down)", tag)
		s.rc.Metric("lost_to_down_node", 1)
		return
	}
	s.mu.Lock()
	h := inc.nm.handlerFor(m.proto, m.sub)
	s.mu.Unlock()
	if h == nil {
		s.rc.Event("LOST %s (no reactor)", tag)
		return
	}
	s.rc.Event("DELIVER %s", tag)
	s.rc.Metric("deliveries", 1)
	if dst.byz && s.byz.fastsync && m.proto == module.ProtoFastSync && m.sub == fastsync.ProtoBlockRequest {
		s.byz.onFastSyncRequest(src, m.data)
		s.rc.Probe("fastsync_request_to_byzantine_server")
	}
	// the reactor runs on this event goroutine; it parks for the consensus mutex
	_, _ = h.reactor.OnReceive(m.sub, m.data, src.peerID)
}

// replayOld re-delivers a few messages that were on the wire earlier (any
// sender, any age up to the pool size) to tape-chosen nodes: arbitrarily late
// duplicates, e.g. the votes of a round everybody has left long ago.
func (s *sim) replayOld() {
	t := s.tape
	if len(s.recent) == 0 {
		return
	}
	k := 1 + t.Choose("replay.n", 5)
	for i := 0; i < k; i++ {
		// bias towards old entries: they are the ones ordinary duplication never produces
		h := s.recent[t.Choose("replay.which", len(s.recent))]
		dst := s.nodes[t.Choose("replay.dst", len(s.nodes))]
		src := s.nodes[h.src]
		if dst == src {
			continue
		}
		mm := h.m
		mm.kind, mm.dst = sendUnicast, dst.peerID
		s.rc.Fault("late_duplicate")
		s.send(src, dst, mm, true)
	}
	// a burst: every vote-carrying message of one old (height, round) to one victim
	if t.Permille("replay.burst", 300) {
		v := s.nodes[t.Choose("replay.victim", len(s.nodes))]
		pivot := s.recent[t.Choose("replay.pivot", len(s.recent))]
		key := voteKeyOf(pivot.m)
		if key != "" {
			n := 0
			for _, h := range s.recent {
				if voteKeyOf(h.m) == key && s.nodes[h.src] != v {
					mm := h.m
					mm.kind, mm.dst = sendUnicast, v.peerID
					s.send(s.nodes[h.src], v, mm, true)
					n++
				}
			}
			s.rc.Fault("late_round_burst")
			s.rc.Event("REPLAY-BURST %s x%d to n%d", key, n, v.idx)
		}
	}
}

// voteKeyOf returns "height/round/type" of a single vote message, "" otherwise.
func voteKeyOf(m outMsg) string {
	if m.proto != module.ProtoConsensus || m.sub != consensus.ProtoVote {
		return ""
	}
	msg, err := consensus.UnmarshalMessage(uint16(m.sub), m.data)
	if err != nil {
		return ""
	}
	if vm, ok := msg.(*consensus.VoteMessage); ok {
		return fmt.Sprintf("%d/%d/%d", vm.Height, vm.Round, vm.Type)
	}
	return ""
}

// flushObs runs observations queued by SUT goroutines, on the driver.
func (s *sim) flushObs() bool {
	s.mu.Lock()
	obs := s.obs
	s.obs = nil
	s.mu.Unlock()
	for _, f := range obs {
		f()
	}
	return len(obs) > 0
}

func (s *sim) submitTx(kind int) {
	s.txSeq++
	tx := test.NewTx()
	tx.SetTimestamp(common.UnixMicroFromTime(time.Now()))
	v := fmt.Sprintf("v%d", s.txSeq)
	tx.SetVarTest(&v)
	desc := "plain"
	if kind == 1 {
		// validator set change: drop or re-add the last validator (never below 4 where f>0)
		var vals []module.Address
		cur := s.orc.currentValidators()
		if len(cur) > 2 && len(cur) == len(s.nodes) {
			drop := len(cur) - 1
			if s.cfg.F > 0 && (len(cur)-1) < 3*s.cfg.F+1 {
				drop = -1
			}
			for i, a := range cur {
				if i != drop {
					vals = append(vals, a)
				}
			}
		} else {
			for _, n := range s.nodes {
				vals = append(vals, n.addr)
			}
		}
		tx.SetValidators(vals...)
		desc = fmt.Sprintf("validators=%d", len(vals))
		s.rc.Probe("validator_set_change_submitted")
	}
	if kind == 2 {
		// the state produced by the block carrying this transaction requires a block
		// version nobody can produce: the chain must stop there, never continue with
		// blocks of the old version
		v3 := int32(3)
		tx.SetNextBlockVersion(&v3)
		desc = "nextBlockVersion=3"
		s.rc.Probe("next_block_version_change_submitted")
	}
	txs := tx.String()
	// gossip stand-in: hand it to a non-empty tape-chosen subset of live nodes
	var targets []*incarnation
	for _, n := range s.nodes {
		if n.byz || n.inc == nil || !n.inc.alive() || n.inc.chain == nil || n.inc.chain.sm == nil {
			continue
		}
		if len(targets) == 0 || s.tape.Permille("tx.to", 700) {
			targets = append(targets, n.inc)
		}
	}
	s.rc.Event("TX %d %s to %d nodes", s.txSeq, desc, len(targets))
	s.rc.Metric("tx_submitted", 1)
	// no tape draws or log writes after this point: SendTransaction may park for a consensus mutex
	for _, inc := range targets {
		inc := inc
		go func() { _, _ = inc.chain.sm.SendTransaction(nil, 0, txs) }()
	}
}

// mainLoop is the driver. It owns the event heap and is the only goroutine
// that draws from the tape or writes the event log.
func (s *sim) mainLoop() {
	idle := 0
	streak := 0
	for {
		synctest.Wait() // every other goroutine in the bubble is durably blocked
		s.rc.Steps++
		if traceOn && s.rc.Steps%2000 == 0 {
			s.mu.Lock()
			fmt.Fprintf(os.Stderr, "TRACE steps=%d now=%v heap=%d lockreqs=%d events=%d\n", s.rc.Steps, s.now(), len(s.heap), len(s.lockReqs), s.rc.EventSeq())
			for _, r := range s.lockReqs {
				fmt.Fprintf(os.Stderr, "   req n%d inc%d held=%v gid=%d %s\n", r.ms.node.idx, r.ms.inc.n, r.ms.held, r.gid, r.site)
			}
			s.mu.Unlock()
		}
		progressed := false
		s.registerFastSyncMutexes()
		if s.flushObs() {
			progressed = true
		}
		if s.rc.Failed() {
			return
		}
		if s.startDeferred() {
			idle = 0
			s.dirty = true
			continue
		}
		if s.releaseFlusherSet() {
			idle = 0
			s.dirty = true
			continue
		}
		if streak < 64 && s.grantOne() {
			// let the critical section run before looking at outboxes; but never
			// starve the rest of the loop (a node can produce blocks in zero
			// simulated time and would otherwise keep the driver here forever)
			idle = 0
			s.dirty = true
			streak++
			continue
		}
		if streak >= 64 {
			// simulated computation is free, so a node can loop without the clock ever
			// moving; charge one millisecond per 64 critical sections
			time.Sleep(time.Millisecond)
		}
		streak = 0
		if s.handleCrashes() {
			progressed = true
		}
		if s.drainOutboxes() {
			progressed = true
		}
		if s.dirty {
			s.dirty = false
			s.orc.poll()
		}
		if s.rc.Failed() {
			return
		}
		now := s.now()
		s.rc.SimTime = now
		if s.done(now) {
			return
		}
		if len(s.heap) > 0 && s.heap[0].at <= now {
			ev := heap.Pop(&s.heap).(*event)
			idle = 0
			go ev.run()
			continue
		}
		if progressed {
			idle = 0
			continue
		}
		// nothing runnable: sleep until the next event, or until a node's own
		// timer makes it ask for its mutex / send something
		wait := 2 * time.Second
		if len(s.heap) > 0 {
			wait = s.heap[0].at - now
		} else {
			idle++
			if idle > 60 {
				s.rc.Probe("stalled")
				s.rc.Event("STALLED at %v", now)
				return
			}
		}
		tm := time.NewTimer(wait)
		select {
		case <-tm.C:
		case <-s.wake:
		}
		tm.Stop()
	}
}

func (s *sim) done(now time.Duration) bool {
	if now > s.cfg.MaxSim || s.rc.Steps > s.cfg.MaxSteps {
		s.rc.Probe("cap_reached")
		return true
	}
	// liveness is not a listed property: a cluster that makes no progress for a
	// long simulated time (e.g. quorum lost to a partition) just ends the run
	if fin := s.rc.Metrics["finalizations"] + s.rc.Faults["restart"] + s.rc.Faults["heal"]; fin != s.lastProgressCount {
		s.lastProgressCount, s.lastProgressAt = fin, now
	} else if now-s.lastProgressAt > 12*time.Second {
		s.rc.Probe("stalled")
		s.rc.Event("STALLED at %v", now)
		return true
	}
	// all correct nodes that are up reached the target and nothing is scheduled to restart
	for _, n := range s.nodes {
		if n.byz {
			continue
		}
		if n.inc == nil || !n.inc.alive() {
			return false // wait for its restart
		}
		if n.lastSeenH < s.cfg.TargetHeight {
			return false
		}
	}
	return true
}

// shutdown terminates everything so that the bubble can end.
func (s *sim) shutdown() {
	for _, n := range s.nodes {
		if n.inc != nil {
			n.inc.dead.Store(true)
			s.termIncarnation(n.inc)
		}
	}
	// keep granting mutex requests until every goroutine is gone or parked for good
	for i := 0; i < 100000; i++ {
		synctest.Wait()
		s.flushObsQuiet()
		if s.grantOne() {
			continue
		}
		if len(s.heap) > 0 {
			// pending deliveries are simply discarded
			s.heap = nil
		}
		// let goloop's remaining timers fire (they find started==false and return)
		s.mu.Lock()
		pending := len(s.lockReqs)
		s.mu.Unlock()
		if pending == 0 {
			tm := time.NewTimer(3 * time.Second)
			select {
			case <-tm.C:
				tm.Stop()
				synctest.Wait()
				s.mu.Lock()
				pending = len(s.lockReqs)
				s.mu.Unlock()
				if pending == 0 {
					return
				}
			case <-s.wake:
				tm.Stop()
			}
		}
	}
}

func (s *sim) flushObsQuiet() {
	s.mu.Lock()
	s.obs = nil
	s.mu.Unlock()
}

var _ = common.HexPre
