package netsim

import (
	"bytes"

	"github.com/icon-project/goloop/common/codec"
	"github.com/icon-project/goloop/module"
)

// checkChainLink re-derives the C07 clauses for a block a correct validator
// reports as finalized, from the parent block the same validator reports and
// from the commit votes carried by the block itself: height = parent+1, names
// its parent's id, has the version the parent's state requires, and (above
// height 1) a timestamp equal to the median of its commit vote timestamps and
// strictly greater than the parent's. Whatever path the block took (proposal,
// vote sync, fast sync), an accepted block that breaks a clause is a violation.
func (o *oracle) checkChainLink(n *node, h int64, blk module.Block) {
	s := o.s
	if h < 1 || n.inc == nil || n.inc.bm == nil {
		return
	}
	parent, err := n.inc.bm.GetBlockByHeight(h - 1)
	if err != nil || parent == nil {
		return
	}
	s.rc.Metric("chain_links_checked", 1)
	bad := func(sig, format string, args ...any) {
		s.rc.Violate("finalized-block-breaks-chain-rule", sig, "n%d height %d: "+format, append([]any{n.idx, h}, args...)...)
	}
	if blk.Height() != parent.Height()+1 {
		bad("height", "block height %d on parent height %d", blk.Height(), parent.Height())
		return
	}
	if !bytes.Equal(blk.PrevID(), parent.ID()) {
		bad("prev-id", "previous id %x is not the parent's id %x", blk.PrevID(), parent.ID())
		return
	}
	if n.inc.chain != nil && n.inc.chain.sm != nil {
		if want := n.inc.chain.sm.GetNextBlockVersion(parent.Result()); want != blk.Version() {
			bad("version", "block version %d but the parent's state requires %d", blk.Version(), want)
			return
		}
	}
	if h > 1 {
		if blk.Timestamp() <= parent.Timestamp() {
			bad("timestamp-not-increasing", "timestamp %d is not greater than the parent's %d", blk.Timestamp(), parent.Timestamp())
			return
		}
		var c cvlFormat
		if vs := blk.Votes(); vs != nil {
			if _, err := codec.BC.UnmarshalFromBytes(vs.Bytes(), &c); err == nil && len(c.Items) > 0 {
				if m := medianTS(c.Items); m != blk.Timestamp() {
					bad("timestamp-not-median", "timestamp %d is not the median %d of its %d commit vote timestamps", blk.Timestamp(), m, len(c.Items))
					return
				}
			}
		}
	}
}
