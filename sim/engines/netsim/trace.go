package netsim

import "os"

var traceOn = os.Getenv("VERIF_TRACE") != ""
