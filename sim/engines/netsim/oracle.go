package netsim

import (
	"encoding/binary"
	"encoding/hex"
	"fmt"
	"sort"

	"github.com/icon-project/goloop/common"
	"github.com/icon-project/goloop/common/crypto"
	"github.com/icon-project/goloop/consensus"
	"github.com/icon-project/goloop/module"
)

// oracle holds the reference bookkeeping for C01/C02 (and feeds the other
// monitors): everything is recomputed from what appeared on the wire and from
// what nodes report as finalized, never from the engine's own tallies.
type oracle struct {
	s *sim

	finalID map[int64]string // cluster-wide: height -> block id
	finalBy map[int64]int

	// precommits seen on the wire with a valid signature:
	// (height, round, blockID, partSetID) -> signer address -> true
	precommits map[string]map[string]bool
	// per (height, blockID): the keys above, to find candidate rounds quickly
	pcKeys map[string][]string

	// (signer, height, round, kind) -> content hash -> description
	signed map[string]map[string]string

	validators map[int64][]module.Address // validators designated for height h (by block h-1)
	certOK     map[int64]bool

	// lock-rule monitor (lockrule.go)
	prevotes map[string]map[string]map[string]bool // "height/round" -> value -> signers (any validator, verified signature)
	lastPC   map[string]lockState                  // "signer/height" -> highest-round non-nil precommit of a correct validator
}

func newOracle(s *sim) *oracle {
	return &oracle{s: s, finalID: map[int64]string{}, finalBy: map[int64]int{},
		precommits: map[string]map[string]bool{}, pcKeys: map[string][]string{},
		signed: map[string]map[string]string{}, validators: map[int64][]module.Address{}, certOK: map[int64]bool{},
		prevotes: map[string]map[string]map[string]bool{}, lastPC: map[string]lockState{}}
}

func signerOf(sig common.Signature, signedBytes []byte) string {
	if sig.Signature == nil || signedBytes == nil {
		return ""
	}
	pk, err := sig.RecoverPublicKey(crypto.SHA3Sum256(signedBytes))
	if err != nil || pk == nil {
		return ""
	}
	return common.NewAccountAddressFromPublicKey(pk).String()
}

func (o *oracle) isCorrect(addr string) *node {
	for _, n := range o.s.nodes {
		if !n.byz && n.addr.String() == addr {
			return n
		}
	}
	return nil
}

func (o *oracle) noteSigned(src *node, signer string, h int64, r int32, kind string, signedBytes []byte, desc string) {
	n := o.isCorrect(signer)
	if n == nil {
		return
	}
	k := fmt.Sprintf("%s/%d/%d/%s", signer, h, r, kind)
	m := o.signed[k]
	if m == nil {
		m = map[string]string{}
		o.signed[k] = m
	}
	ch := short(signedBytes) + hex.EncodeToString(crypto.SHA3Sum256(signedBytes)[:8])
	if _, ok := m[ch]; ok {
		return
	}
	m[ch] = desc
	if len(m) > 1 {
		var ds []string
		for _, d := range m {
			ds = append(ds, d)
		}
		sort.Strings(ds)
		o.s.rc.Violate("equivocation", kind, "correct validator n%d signed %d different %ss for height %d round %d: %v (crashes so far: %d)",
			n.idx, len(m), kind, h, r, ds, n.crashes)
	}
}

func (o *oracle) noteVote(src *node, vm *consensus.VoteMessage, own bool) {
	sb := consensus.SimSignedBytes(vm)
	signer := signerOf(vm.Signature, sb)
	if signer == "" {
		return
	}
	kind := "prevote"
	if vm.Type == consensus.VoteTypePrecommit {
		kind = "precommit"
	}
	bid := hex.EncodeToString(vm.BlockID)
	psid := "nil"
	if vm.BlockPartSetIDAndNTSVoteCount != nil {
		psid = fmt.Sprintf("%x:%x", vm.BlockPartSetIDAndNTSVoteCount.CountWord, vm.BlockPartSetIDAndNTSVoteCount.Hash)
	}
	o.noteSigned(src, signer, vm.Height, vm.Round, kind, sb, fmt.Sprintf("%s(bid=%.8s psid=%.12s ts=%d)", kind, bid, psid, vm.Timestamp))
	if c := o.isCorrect(signer); c != nil {
		o.s.byz.onAcceptedVote(c, vm)
	}
	o.lockRule(signer, vm, bid+"/"+psid)
	if vm.Type == consensus.VoteTypePrecommit && vm.BlockPartSetIDAndNTSVoteCount != nil {
		k := fmt.Sprintf("%d/%d/%s/%s", vm.Height, vm.Round, bid, psid)
		m := o.precommits[k]
		if m == nil {
			m = map[string]bool{}
			o.precommits[k] = m
			hk := fmt.Sprintf("%d/%s", vm.Height, bid)
			o.pcKeys[hk] = append(o.pcKeys[hk], k)
		}
		m[signer] = true
	}
}

// onWire is called for every message a node hands to the network (before
// loss/duplication is decided): what a validator put on the wire is what it
// has signed, whether or not anybody receives it.
func (o *oracle) onWire(src *node, proto, sub module.ProtocolInfo, data []byte) {
	if proto != module.ProtoConsensus && proto != module.ProtoConsensusSync {
		return
	}
	msg, err := consensus.UnmarshalMessage(uint16(sub), data)
	if err != nil {
		return
	}
	switch m := msg.(type) {
	case *consensus.ProposalMessage:
		sb := consensus.SimSignedBytes(m)
		signer := signerOf(m.Signature, sb)
		if signer == "" {
			return
		}
		o.noteSigned(src, signer, m.Height, m.Round, "proposal", sb, fmt.Sprintf("proposal(psid=%v pol=%d)", m.BlockPartSetID, m.POLRound))
		if !src.byz && signer == src.addr.String() {
			o.checkDurable(src, sub, data, "proposal")
		}
	case *consensus.VoteMessage:
		o.noteVote(src, m, true)
		if !src.byz && proto == module.ProtoConsensus && signerOf(m.Signature, consensus.SimSignedBytes(m)) == src.addr.String() {
			o.checkDurable(src, sub, data, "vote")
		}
	case *consensus.VoteListMessage:
		if m.VoteList == nil {
			return
		}
		for i := 0; i < m.VoteList.Len(); i++ {
			o.noteVote(src, m.VoteList.Get(i), false)
		}
	}
}

// checkDurable: C02, second sentence — a vote or proposal is in the synced
// part of the round WAL at the moment it is handed to the network.
func (o *oracle) checkDurable(src *node, sub module.ProtocolInfo, data []byte, what string) {
	inc := src.inc
	if inc == nil || !inc.alive() {
		return
	}
	rec := make([]byte, 2+len(data))
	binary.BigEndian.PutUint16(rec, uint16(sub))
	copy(rec[2:], data)
	o.s.rc.Metric("durable_checks", 1)
	if !inc.wal.isDurable("round", rec) {
		o.s.rc.Violate("sent-before-durable", what, "n%d put its own %s on the wire but the record is not covered by an acknowledged WAL sync", src.idx, what)
	}
}

func (o *oracle) onCrash(n *node) {}

func (o *oracle) currentValidators() []module.Address {
	// validators designated by the highest finalized block known to the oracle
	var maxH int64 = -1
	for h := range o.validators {
		if h > maxH {
			maxH = h
		}
	}
	if maxH < 0 {
		return nil
	}
	return o.validators[maxH]
}

func validatorsOf(vl module.ValidatorList) []module.Address {
	var out []module.Address
	for i := 0; i < vl.Len(); i++ {
		v, _ := vl.Get(i)
		out = append(out, v.Address())
	}
	return out
}

// poll reads what every live correct node reports as finalized (through the
// block manager's public API) and checks agreement and certificates.
func (o *oracle) poll() {
	s := o.s
	for _, n := range s.nodes {
		if n.byz || n.inc == nil || !n.inc.alive() || n.inc.bm == nil {
			continue
		}
		last, err := n.inc.bm.GetLastBlock()
		if err != nil || last == nil {
			continue
		}
		if _, ok := o.validators[1]; !ok {
			if g, err := n.inc.bm.GetBlockByHeight(0); err == nil {
				o.validators[1] = validatorsOf(g.NextValidators())
			}
		}
		if s.rc.Property == "C08" && !n.inc.genesisRT {
			n.inc.genesisRT = true
			if g, err := n.inc.bm.GetBlockByHeight(0); err == nil {
				o.checkRoundTrip(n, 0, g) // the genesis block has no proposer and no votes
				if s.rc.Failed() {
					return
				}
			}
		}
		for h := n.lastSeenH + 1; h <= last.Height(); h++ {
			blk, err := n.inc.bm.GetBlockByHeight(h)
			if err != nil {
				break
			}
			id := hex.EncodeToString(blk.ID())
			n.lastSeenH = h
			if prev, ok := n.finalized[h]; ok && prev != id {
				s.rc.Violate("disagreement", "same-node-across-restart", "n%d finalized two blocks at height %d: %.12s then %.12s", n.idx, h, prev, id)
				return
			}
			n.finalized[h] = id
			s.rc.Event("FINAL n%d h=%d id=%.12s txs=%d", n.idx, h, id, countTxs(blk))
			s.rc.Metric("finalizations", 1)
			if other, ok := o.finalID[h]; ok {
				if other != id {
					s.rc.Violate("disagreement", "two-nodes", "height %d: n%d finalized %.12s but n%d finalized %.12s", h, o.finalBy[h], other, n.idx, id)
					return
				}
			} else {
				o.finalID[h] = id
				o.finalBy[h] = n.idx
				o.validators[h+1] = validatorsOf(blk.NextValidators())
				if len(o.validators[h+1]) != len(o.validators[h]) {
					s.rc.Probe("validator_set_changed")
				}
			}
			o.checkCertificate(n, h, id)
			if !s.rc.Failed() {
				o.checkChainLink(n, h, blk)
			}
			if !s.rc.Failed() {
				o.checkLocalCertificate(n, h, id)
			}
			if !s.rc.Failed() && s.rc.Property == "C08" {
				o.checkRoundTrip(n, h, blk)
			}
			if s.rc.Failed() {
				return
			}
		}
		if n.touched && n.inc.started.Load() && n.inc.alive() {
			n.touched = false
			s.monitorVoteSets(n)
		}
	}
}

func countTxs(blk module.Block) int {
	c := 0
	for it := blk.NormalTransactions().Iterator(); it.Has(); it.Next() {
		c++
	}
	return c
}

// checkCertificate: a block is finalized only after more than two thirds of
// the validators designated by its parent precommitted it in one round.
// Recount over every precommit that ever appeared on the wire.
func (o *oracle) checkCertificate(n *node, h int64, id string) {
	if o.certOK[h] {
		return
	}
	vals := o.validators[h]
	if len(vals) == 0 {
		return
	}
	isVal := map[string]bool{}
	for _, v := range vals {
		isVal[v.String()] = true
	}
	best := 0
	for _, k := range o.pcKeys[fmt.Sprintf("%d/%s", h, id)] {
		c := 0
		for signer := range o.precommits[k] {
			if isVal[signer] {
				c++
			}
		}
		if c > best {
			best = c
		}
	}
	if 3*best > 2*len(vals) {
		o.certOK[h] = true
		return
	}
	o.s.rc.Violate("finalized-without-quorum", "wire-recount", "n%d finalized height %d block %.12s but the best single-round precommit count seen on the wire is %d of %d validators", n.idx, h, id, best, len(vals))
}

// onRecoveredWAL registers the validator's own votes and proposals found in
// the round WAL image it restarts from: they were signed by it even if the
// crash came before they reached the network.
func (o *oracle) onRecoveredWAL(n *node, recs [][]byte) {
	for _, r := range recs {
		if len(r) < 2 {
			continue
		}
		sub := binary.BigEndian.Uint16(r[:2])
		msg, err := consensus.UnmarshalMessage(sub, r[2:])
		if err != nil {
			continue
		}
		switch m := msg.(type) {
		case *consensus.VoteMessage:
			if signerOf(m.Signature, consensus.SimSignedBytes(m)) == n.addr.String() {
				o.noteVote(n, m, true)
				o.s.rc.Probe("own_vote_recovered_from_wal")
			}
		case *consensus.ProposalMessage:
			sb := consensus.SimSignedBytes(m)
			if signerOf(m.Signature, sb) == n.addr.String() {
				o.noteSigned(n, n.addr.String(), m.Height, m.Round, "proposal", sb, fmt.Sprintf("proposal(psid=%v pol=%d)", m.BlockPartSetID, m.POLRound))
			}
		case *consensus.VoteListMessage:
			if m.VoteList != nil {
				for i := 0; i < m.VoteList.Len(); i++ {
					o.noteVote(n, m.VoteList.Get(i), false)
				}
			}
		}
	}
}
