package netsim

import (
	"bytes"
	"fmt"
	"strings"

	"github.com/icon-project/goloop/block"
	"github.com/icon-project/goloop/common/codec"
	"github.com/icon-project/goloop/common/crypto"
	"github.com/icon-project/goloop/module"
)

// checkRoundTrip is the C08 monitor on every block a correct validator reports
// as finalized (and on its genesis block): what the node serializes for its
// peers must decode, through the node's own wire decoder, to a block with the
// same id and the same contents, and must re-serialize to the same bytes; the
// votes carried in the body must hash to what the header commits to. A panic
// anywhere in here is a crash of the decoder or of the decoded block's
// accessors, i.e. a violation, not a harness error.
func (o *oracle) checkRoundTrip(n *node, h int64, blk module.Block) {
	s := o.s
	if n.inc == nil || n.inc.bm == nil || blk == nil {
		return
	}
	bad := func(sig, format string, args ...any) {
		s.rc.Violate("block-round-trip", sig, "n%d height %d: "+format, append([]any{n.idx, h}, args...)...)
	}
	defer func() {
		if p := recover(); p != nil {
			bad("panic", "serializing / decoding / reading back a block the node itself finalized panicked: %v", p)
		}
	}()
	s.rc.Metric("block_round_trips_checked", 1)
	var buf bytes.Buffer
	if err := blk.MarshalHeader(&buf); err != nil {
		bad("marshal-header", "%v", err)
		return
	}
	if err := blk.MarshalBody(&buf); err != nil {
		bad("marshal-body", "%v", err)
		return
	}
	wire := append([]byte(nil), buf.Bytes()...)
	bd, err := n.inc.bm.NewBlockDataFromReader(bytes.NewReader(wire))
	if err != nil {
		bad("decode-failed", "the node's own serialization does not decode: %v", err)
		return
	}
	if !bytes.Equal(bd.ID(), blk.ID()) {
		bad("id", "decoded id %x differs from %x", bd.ID(), blk.ID())
		return
	}
	addrBytes := func(a module.Address) []byte {
		if a == nil {
			return nil
		}
		return a.Bytes()
	}
	switch {
	case bd.Height() != blk.Height():
		bad("height", "decoded height %d vs %d", bd.Height(), blk.Height())
	case bd.Timestamp() != blk.Timestamp():
		bad("timestamp", "decoded timestamp %d vs %d", bd.Timestamp(), blk.Timestamp())
	case bd.Version() != blk.Version():
		bad("version", "decoded version %d vs %d", bd.Version(), blk.Version())
	case !bytes.Equal(bd.PrevID(), blk.PrevID()):
		bad("prev-id", "decoded previous id differs")
	case (bd.Proposer() == nil) != (blk.Proposer() == nil) || !bytes.Equal(addrBytes(bd.Proposer()), addrBytes(blk.Proposer())):
		bad("proposer", "decoded proposer %v vs %v", bd.Proposer(), blk.Proposer())
	case !bytes.Equal(bd.Result(), blk.Result()):
		bad("result", "decoded result differs")
	case !bytes.Equal(bd.NextValidatorsHash(), blk.NextValidatorsHash()):
		bad("next-validators-hash", "decoded next validators hash differs")
	case !bytes.Equal(bd.LogsBloom().CompressedBytes(), blk.LogsBloom().CompressedBytes()):
		bad("logs-bloom", "decoded logs bloom differs")
	case !bytes.Equal(bd.NormalTransactions().Hash(), blk.NormalTransactions().Hash()) || !bytes.Equal(bd.PatchTransactions().Hash(), blk.PatchTransactions().Hash()):
		bad("transactions", "decoded transaction lists differ")
	case !bytes.Equal(bd.Votes().Bytes(), blk.Votes().Bytes()):
		bad("votes", "decoded votes differ")
	}
	if s.rc.Failed() {
		return
	}
	if countTxsData(bd) != countTxs(blk) {
		bad("transactions", "decoded block has %d transactions, the original %d", countTxsData(bd), countTxs(blk))
		return
	}
	var buf2 bytes.Buffer
	if err := bd.MarshalHeader(&buf2); err == nil {
		err = bd.MarshalBody(&buf2)
	}
	if !bytes.Equal(buf2.Bytes(), wire) {
		bad("re-encode", "decoded block re-serializes to different bytes (%d vs %d)", buf2.Len(), len(wire))
		return
	}
	// JSON view must not crash either and must name the same id
	if js, err := bd.ToJSON(module.JSONVersion3); err == nil {
		if m, ok := js.(map[string]interface{}); ok {
			if v, ok := m["block_hash"]; ok && fmt.Sprint(v) != fmt.Sprintf("%x", blk.ID()) {
				bad("json-id", "JSON view names block %v, the block is %x", v, blk.ID())
				return
			}
		}
	}
	// the chain-less entry point (BlockDataFactory, used by tools and by block import from files) must agree
	if f, err := block.NewBlockDataFactory(n.inc.chain, nil); err == nil {
		fd, err := f.NewBlockDataFromReader(bytes.NewReader(wire))
		if err != nil {
			bad("factory-decode-failed", "BlockDataFactory does not decode the node's own serialization: %v", err)
			return
		}
		if !bytes.Equal(fd.ID(), blk.ID()) {
			bad("factory-id", "BlockDataFactory decodes the block to id %x, the block is %x", fd.ID(), blk.ID())
			return
		}
	}
	// independent binding check: votes bytes hash to the header's votes hash
	hf, bf, err := readBlock(wire)
	if err != nil {
		bad("independent-decode", "%v", err)
		return
	}
	if !bytes.Equal(crypto.SHA3Sum256(codec.BC.MustMarshalToBytes(hf)), blk.ID()) {
		bad("id-not-header-hash", "block id is not the hash of the serialized header")
		return
	}
	if len(bf.Votes) > 0 && !bytes.Equal(crypto.SHA3Sum256(bf.Votes), hf.VotesHash) {
		bad("votes-unbound", "votes in the body do not hash to the header's votes hash")
		return
	}
	// and what the node reads back from its database by id is the same block
	if byID, err := n.inc.bm.GetBlock(blk.ID()); err != nil || byID == nil || byID.Height() != blk.Height() {
		bad("db-read-back", "block read back by id: err=%v", err)
	}
}

func countTxsData(bd module.BlockData) int {
	c := 0
	for it := bd.NormalTransactions().Iterator(); it.Has(); _ = it.Next() {
		c++
	}
	return c
}

// decodeForged feeds a forged block encoding to the decoders of a live correct node directly (wire
// decoder of the block manager and the chain-less BlockDataFactory), whatever the consensus engine
// will make of the proposal later: neither may panic, both must agree on accept/reject, and whatever
// is accepted must be self-consistent (id = hash of the re-serialized header, votes bound to the header).
func (s *sim) decodeForged(raw []byte, kind string) {
	var n *node
	for _, c := range s.nodes {
		if !c.byz && c.inc != nil && c.inc.alive() && c.inc.bm != nil && c.inc.chain != nil {
			n = c
			break
		}
	}
	if n == nil {
		return
	}
	defer func() {
		if p := recover(); p != nil {
			s.rc.Violate("decoder-panic", kind, "decoding a forged block encoding (%s, %d bytes) panicked: %v", kind, len(raw), p)
		}
	}()
	s.rc.Metric("forged_encodings_decoded_directly", 1)
	bd1, err1 := n.inc.bm.NewBlockDataFromReader(bytes.NewReader(raw))
	var bd2 module.BlockData
	var err2 error
	if f, err := block.NewBlockDataFactory(n.inc.chain, nil); err == nil {
		bd2, err2 = f.NewBlockDataFromReader(bytes.NewReader(raw))
	}
	if (err1 == nil) != (err2 == nil) {
		s.rc.Violate("decoders-disagree", kind, "block manager decoder: %v; BlockDataFactory: %v", err1, err2)
		return
	}
	if err1 != nil {
		s.rc.Probe("forged_encoding_rejected_by_decoder")
		return
	}
	s.rc.Probe("forged_encoding_decoded")
	// what the decoder accepted must be the block the INPUT header commits to: same id as the hash of the
	// input header, and lists / votes that hash to what that header says (a body cannot be swapped or
	// stripped under a header)
	inHdr, inBody, inErr := readBlock(raw)
	for _, bd := range []module.BlockData{bd1, bd2} {
		if bd == nil {
			continue
		}
		if inErr == nil {
			same := func(a, b []byte) bool { return bytes.Equal(a, b) || (len(a) == 0 && len(b) == 0) }
			// the id comparison only where the forgery left the header encoding as a node writes it: the decoder
			// accepts some non-canonical header field encodings (e.g. other byte forms of the proposer address)
			// and re-encodes them, which changes the id; C08 says nothing about that
			canonicalHeader := !strings.HasPrefix(kind, "header-field") && kind != "byteflip" && kind != "truncated" && kind != "random-bytes"
			switch {
			case canonicalHeader && !bytes.Equal(bd.ID(), crypto.SHA3Sum256(codec.BC.MustMarshalToBytes(inHdr))):
				s.rc.Violate("unbound-or-malformed-block-accepted", kind+"/decoder-id", "decoder accepted a forged encoding (%s) as block %x, but the header in the input hashes to another id: the decoded block is not the block the input describes", kind, bd.ID())
				return
			case !same(bd.NormalTransactions().Hash(), inHdr.NormalTransactionsHash):
				s.rc.Violate("unbound-or-malformed-block-accepted", kind+"/decoder-normal-txs", "decoder accepted a block whose %d normal transactions do not hash to the input header's normal transactions hash", len(inBody.NormalTransactions))
				return
			case !same(bd.PatchTransactions().Hash(), inHdr.PatchTransactionsHash):
				s.rc.Violate("unbound-or-malformed-block-accepted", kind+"/decoder-patch-txs", "decoder accepted a block whose patch transactions do not hash to the input header's patch transactions hash")
				return
			}
		}
		var buf bytes.Buffer
		if err := bd.MarshalHeader(&buf); err != nil {
			s.rc.Violate("block-round-trip", "forged/marshal-header", "%v", err)
			return
		}
		hdr := append([]byte(nil), buf.Bytes()...)
		if err := bd.MarshalBody(&buf); err != nil {
			s.rc.Violate("block-round-trip", "forged/marshal-body", "%v", err)
			return
		}
		if !bytes.Equal(crypto.SHA3Sum256(hdr), bd.ID()) {
			s.rc.Violate("block-round-trip", "forged/id-not-header-hash", "decoded forged block (%s): id is not the hash of its serialized header", kind)
			return
		}
		if hf, bf, err := readBlock(buf.Bytes()); err == nil && len(bf.Votes) > 0 && !bytes.Equal(crypto.SHA3Sum256(bf.Votes), hf.VotesHash) {
			s.rc.Violate("unbound-or-malformed-block-accepted", kind+"/decoder", "decoder accepted a block whose votes do not hash to the header's votes hash")
			return
		}
		_, _ = bd.ToJSON(module.JSONVersion3)
	}
}
