package netsim

import (
	"os"
	"path/filepath"
	"sort"
	"strconv"
	"strings"
	"sync"

	"github.com/icon-project/goloop/consensus"
)

// walMgr decorates the real file WAL (consensus.OpenWALForWrite/Read on a
// tmpfs directory) of one node incarnation: it is a crash point before and
// after every write and sync, and it keeps the durability bookkeeping the
// crash-image builder and the C02 "remembered before sent" oracle need.
type walMgr struct {
	inc *incarnation
	mu  sync.Mutex
	ws  map[string]*walW // by id (path prefix)
}

type walW struct {
	m        *walMgr
	id       string
	inner    consensus.WALWriter
	written  [][]byte // payloads written since open, in order
	nDurable int      // leading payloads of written covered by an acknowledged Sync
	floorIdx uint64   // tail segment index and size right after the last acknowledged Sync
	floorLen int64
	durable  map[string]bool // payloads (as string) covered by an acknowledged sync, incl. those recovered at open
}

func newWalMgr(inc *incarnation) *walMgr {
	return &walMgr{inc: inc, ws: map[string]*walW{}}
}

func (m *walMgr) OpenForRead(id string) (consensus.WALReader, error) {
	return consensus.OpenWALForRead(id)
}

func (m *walMgr) OpenForWrite(id string, cfg *consensus.WALConfig) (consensus.WALWriter, error) {
	// records already in the log at open time are durable: they are the crash image
	pre := readAllRecords(id)
	w, err := consensus.OpenWALForWrite(id, cfg)
	if err != nil {
		return nil, err
	}
	ww := &walW{m: m, id: id, inner: w, durable: map[string]bool{}}
	for _, r := range pre {
		ww.durable[string(r)] = true
	}
	if filepath.Base(id) == "commit" && len(pre) > 0 {
		inc := m.inc
		inc.s.observe(func() {
			for _, r := range pre {
				inc.s.orc.onCommitWAL(inc.node, r)
			}
		})
	}
	if filepath.Base(id) == "round" && len(pre) > 0 {
		// what the restarted validator finds in its own log it has signed
		inc := m.inc
		inc.s.observe(func() { inc.s.orc.onRecoveredWAL(inc.node, pre) })
	}
	ww.noteFloor()
	m.mu.Lock()
	m.ws[id] = ww
	m.mu.Unlock()
	return ww, nil
}

func readAllRecords(id string) [][]byte {
	r, err := consensus.OpenWALForRead(id)
	if err != nil {
		return nil
	}
	defer r.Close()
	var out [][]byte
	for {
		bs, err := r.ReadBytes()
		if err != nil {
			return out
		}
		out = append(out, bs)
	}
}

type segInfo struct {
	idx  uint64
	path string
	size int64
}

func listSegs(id string) []segInfo {
	dir, prefix := filepath.Dir(id), filepath.Base(id)+"_"
	ents, _ := os.ReadDir(dir)
	var out []segInfo
	for _, e := range ents {
		if !strings.HasPrefix(e.Name(), prefix) {
			continue
		}
		idx, err := strconv.ParseUint(e.Name()[len(prefix):], 10, 64)
		if err != nil {
			continue
		}
		fi, err := e.Info()
		if err != nil {
			continue
		}
		out = append(out, segInfo{idx, filepath.Join(dir, e.Name()), fi.Size()})
	}
	sort.Slice(out, func(i, j int) bool { return out[i].idx < out[j].idx })
	return out
}

func (w *walW) noteFloor() {
	segs := listSegs(w.id)
	if len(segs) > 0 {
		w.floorIdx, w.floorLen = segs[len(segs)-1].idx, segs[len(segs)-1].size
	}
}

func (w *walW) WriteBytes(b []byte) (int, error) {
	w.m.inc.crashPoint(siteWALWriteBefore)
	n, err := w.inner.WriteBytes(b)
	if err == nil {
		cp := append([]byte(nil), b...)
		w.m.mu.Lock()
		w.written = append(w.written, cp)
		w.m.mu.Unlock()
		if filepath.Base(w.id) == "commit" && w.m.inc.alive() {
			inc := w.m.inc
			inc.s.observe(func() { inc.s.orc.onCommitWAL(inc.node, cp) })
		}
	}
	w.m.inc.crashPoint(siteWALWriteAfter)
	return n, err
}

func (w *walW) Sync() error {
	err := w.inner.Sync()
	// a crash during fsync can persist any prefix of what was flushed: the image
	// taken here still uses the floor from before this sync
	w.m.inc.crashPoint(siteWALSyncMid)
	if err == nil {
		w.m.mu.Lock()
		for _, p := range w.written[w.nDurable:] {
			w.durable[string(p)] = true
		}
		w.nDurable = len(w.written)
		w.noteFloor()
		w.m.mu.Unlock()
	}
	w.m.inc.crashPoint(siteWALSyncAfter)
	return err
}

func (w *walW) Close() error {
	return w.inner.Close()
}

// isDurable reports whether a record with this payload is covered by an
// acknowledged sync of the WAL with the given base name.
func (m *walMgr) isDurable(base string, payload []byte) bool {
	m.mu.Lock()
	defer m.mu.Unlock()
	for id, w := range m.ws {
		if filepath.Base(id) == base && w.durable[string(payload)] {
			return true
		}
	}
	return false
}

// walImage is a copy of a WAL directory frozen at a crash instant together
// with, per log, the range the tail segment may be truncated to.
type walImage struct {
	dir  string
	logs []walImageLog
}

type walImageLog struct {
	base     string
	tailPath string // "" if the log has no segment
	floor    int64
	size     int64
	tailNew  bool // the tail segment holds no durable byte and other segments exist: it may be missing entirely
	data     []byte
}

// freeze copies the WAL directory of the incarnation into dst.
func (m *walMgr) freeze(srcDir, dst string) *walImage {
	os.MkdirAll(dst, 0700)
	img := &walImage{dir: dst}
	ents, _ := os.ReadDir(srcDir)
	for _, e := range ents {
		b, err := os.ReadFile(filepath.Join(srcDir, e.Name()))
		if err == nil {
			os.WriteFile(filepath.Join(dst, e.Name()), b, 0600)
		}
	}
	m.mu.Lock()
	defer m.mu.Unlock()
	ids := make([]string, 0, len(m.ws))
	for id := range m.ws {
		ids = append(ids, id)
	}
	sort.Strings(ids)
	for _, id := range ids {
		w := m.ws[id]
		base := filepath.Base(id)
		segs := listSegs(filepath.Join(dst, base))
		l := walImageLog{base: base}
		if len(segs) > 0 {
			t := segs[len(segs)-1]
			l.tailPath, l.size = t.path, t.size
			if t.idx == w.floorIdx {
				l.floor = w.floorLen
			}
			if l.floor > l.size {
				l.floor = l.size
			}
			l.tailNew = l.floor == 0 && len(segs) > 1
			l.data, _ = os.ReadFile(t.path)
		}
		img.logs = append(img.logs, l)
	}
	return img
}
