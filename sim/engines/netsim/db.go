package netsim

import (
	"runtime"
	"strings"
	"sync"

	"github.com/icon-project/goloop/common/db"
)

// simDB is a map database (same semantics as db.NewMapDB) that can be cloned
// at an arbitrary instant: the clone is the durable image a crashed process
// leaves behind (process-crash model: every completed Set survives). Every
// Set/Delete is a crash point of the owning node.
type simDB struct {
	mu   sync.Mutex
	bks  map[db.BucketID]*simBucket
	inc  *incarnation
	sets int64
}

type simBucket struct {
	d    *simDB
	id   db.BucketID
	data map[string][]byte
}

func newSimDB() *simDB { return &simDB{bks: map[db.BucketID]*simBucket{}} }

func (d *simDB) GetBucket(id db.BucketID) (db.Bucket, error) {
	d.mu.Lock()
	defer d.mu.Unlock()
	b := d.bks[id]
	if b == nil {
		b = &simBucket{d: d, id: id, data: map[string][]byte{}}
		d.bks[id] = b
	}
	return b, nil
}

func (d *simDB) Close() error { return nil }

// clone copies the database as of now.
func (d *simDB) clone() *simDB {
	d.mu.Lock()
	defer d.mu.Unlock()
	n := newSimDB()
	for id, b := range d.bks {
		nb := &simBucket{d: n, id: id, data: make(map[string][]byte, len(b.data))}
		for k, v := range b.data {
			nb.data[k] = v // values are never mutated in place
		}
		n.bks[id] = nb
	}
	return n
}

func (b *simBucket) Get(k []byte) ([]byte, error) {
	b.d.mu.Lock()
	defer b.d.mu.Unlock()
	v, ok := b.data[string(k)]
	if !ok {
		return nil, nil
	}
	return append([]byte(nil), v...), nil
}

func (b *simBucket) Has(k []byte) (bool, error) {
	b.d.mu.Lock()
	defer b.d.mu.Unlock()
	_, ok := b.data[string(k)]
	return ok, nil
}

func (b *simBucket) Set(k, v []byte) error {
	if n := b.d.inc; n != nil {
		if traceSites {
			n.s.rc.Event("DBSET n%d %q %x by %s", n.node.idx, string(b.id), k[:min(len(k), 4)], callerChain())
		}
		if b.id == db.TransactionLocatorByHash && fromLocatorFlusher() {
			n.s.gateFlusherSet(n)
		}
		n.crashPoint(siteDBSet)
	}
	b.d.mu.Lock()
	defer b.d.mu.Unlock()
	b.data[string(k)] = append([]byte(nil), v...)
	b.d.sets++
	return nil
}

func (b *simBucket) Delete(k []byte) error {
	if n := b.d.inc; n != nil {
		n.crashPoint(siteDBSet)
	}
	b.d.mu.Lock()
	defer b.d.mu.Unlock()
	delete(b.data, string(k))
	return nil
}

// callerChain (VERIF_TRACE_SITES only): the goloop functions a database write comes from.
func callerChain() string {
	var pcs [24]uintptr
	n := runtime.Callers(3, pcs[:])
	frames := runtime.CallersFrames(pcs[:n])
	var out []string
	for {
		f, more := frames.Next()
		if i := strings.LastIndex(f.Function, "/"); i >= 0 && strings.Contains(f.Function, "goloop") {
			out = append(out, f.Function[i+1:])
		}
		if !more || len(out) >= 6 {
			break
		}
	}
	return strings.Join(out, " < ")
}

// The locator manager of goloop flushes finalised transaction ids on a background goroutine. Its writes
// race with the writes of the finalising goroutine, and a crash image taken in between (or a crash
// countdown counting both) depended on the Go scheduler (found by the determinism self-test: 2 of 48
// identical runs differed). Each write of that goroutine is therefore a scheduled event: it waits until
// the driver, at quiescence, lets exactly one of them through.
type flushWaiter struct {
	inc *incarnation
	ch  chan struct{}
}

func fromLocatorFlusher() bool {
	var pcs [12]uintptr
	n := runtime.Callers(3, pcs[:])
	frames := runtime.CallersFrames(pcs[:n])
	for {
		f, more := frames.Next()
		if strings.HasSuffix(f.Function, "txlocator.(*manager).handleFlushJobs") {
			return true
		}
		if !more {
			return false
		}
	}
}

func (s *sim) gateFlusherSet(inc *incarnation) {
	s.mu.Lock()
	if inc.ungated.Load() || inc.dead.Load() {
		s.mu.Unlock()
		return
	}
	w := &flushWaiter{inc: inc, ch: make(chan struct{})}
	s.flushGate = append(s.flushGate, w)
	s.mu.Unlock()
	s.poke()
	<-w.ch
}

// releaseFlusherSet runs on the driver at quiescence: lets the held write of the lowest-numbered node through.
func (s *sim) releaseFlusherSet() bool {
	s.mu.Lock()
	best := -1
	for i, w := range s.flushGate {
		if best < 0 || w.inc.node.idx < s.flushGate[best].inc.node.idx {
			best = i
		}
	}
	if best < 0 {
		s.mu.Unlock()
		return false
	}
	w := s.flushGate[best]
	s.flushGate = append(s.flushGate[:best], s.flushGate[best+1:]...)
	s.mu.Unlock()
	s.rc.Event("LOCATOR-FLUSH n%d", w.inc.node.idx)
	close(w.ch)
	return true
}

// releaseFlusherOf: the incarnation crashed or is being stopped; its flusher runs free from now on.
func (s *sim) releaseFlusherOf(inc *incarnation) {
	inc.ungated.Store(true)
	s.mu.Lock()
	var keep []*flushWaiter
	for _, w := range s.flushGate {
		if w.inc == inc {
			close(w.ch)
		} else {
			keep = append(keep, w)
		}
	}
	s.flushGate = keep
	s.mu.Unlock()
}
