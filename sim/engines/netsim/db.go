package netsim

import (
	"sync"

	"github.com/icon-project/goloop/common/db"
)

// simDB is a map database (same semantics as db.NewMapDB) that can be cloned
// at an arbitrary instant: the clone is the durable image a crashed process
// leaves behind (process-crash model: every completed Set survives). Every
// Set/Delete is a crash point of the owning node.
type simDB struct {
	mu   sync.Mutex
	bks  map[db.BucketID]*simBucket
	inc  *incarnation
	sets int64
}

type simBucket struct {
	d    *simDB
	id   db.BucketID
	data map[string][]byte
}

func newSimDB() *simDB { return &simDB{bks: map[db.BucketID]*simBucket{}} }

func (d *simDB) GetBucket(id db.BucketID) (db.Bucket, error) {
	d.mu.Lock()
	defer d.mu.Unlock()
	b := d.bks[id]
	if b == nil {
		b = &simBucket{d: d, id: id, data: map[string][]byte{}}
		d.bks[id] = b
	}
	return b, nil
}

func (d *simDB) Close() error { return nil }

// clone copies the database as of now.
func (d *simDB) clone() *simDB {
	d.mu.Lock()
	defer d.mu.Unlock()
	n := newSimDB()
	for id, b := range d.bks {
		nb := &simBucket{d: n, id: id, data: make(map[string][]byte, len(b.data))}
		for k, v := range b.data {
			nb.data[k] = v // values are never mutated in place
		}
		n.bks[id] = nb
	}
	return n
}

func (b *simBucket) Get(k []byte) ([]byte, error) {
	b.d.mu.Lock()
	defer b.d.mu.Unlock()
	v, ok := b.data[string(k)]
	if !ok {
		return nil, nil
	}
	return append([]byte(nil), v...), nil
}

func (b *simBucket) Has(k []byte) (bool, error) {
	b.d.mu.Lock()
	defer b.d.mu.Unlock()
	_, ok := b.data[string(k)]
	return ok, nil
}

func (b *simBucket) Set(k, v []byte) error {
	if n := b.d.inc; n != nil {
		n.crashPoint(siteDBSet)
	}
	b.d.mu.Lock()
	defer b.d.mu.Unlock()
	b.data[string(k)] = append([]byte(nil), v...)
	b.d.sets++
	return nil
}

func (b *simBucket) Delete(k []byte) error {
	if n := b.d.inc; n != nil {
		n.crashPoint(siteDBSet)
	}
	b.d.mu.Lock()
	defer b.d.mu.Unlock()
	delete(b.data, string(k))
	return nil
}
