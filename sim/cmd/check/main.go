// Command check is the runner: it rebuilds an engine from /repo's working
// tree, fans seeds out over worker processes, minimises and re-plays failures
// in fresh processes, writes evidence and prints the verdict.
//
// exit 0: property held on everything explored (KNOWN-FINDING lines allowed)
// exit 1: "VIOLATION property=<id> replay=<path>" — reproduced oracle failure
// exit 2: harness trouble (build, divergence, watchdog, non-reproducing failure, unreached essential probe)
package main

import (
	"bufio"
	"bytes"
	"crypto/sha256"
	"encoding/hex"
	"encoding/json"
	"flag"
	"fmt"
	"os"
	"os/exec"
	"path/filepath"
	"regexp"
	"runtime"
	"sort"
	"strconv"
	"strings"
	"sync"
	"time"

	"verif/sim/kit"
	"verif/sim/kit/instrument"
	_ "verif/sim/specs"
)

// verifRoot is where evidence, replays and the engine sources live: /verif, or the directory check.sh
// runs from (VERIF_ROOT; lets `vp run` snapshots of /verif work on their own copy).
var verifRoot = func() string {
	if r := os.Getenv("VERIF_ROOT"); r != "" {
		return r
	}
	return "/verif"
}()

var goEnv = []string{"GOFLAGS=-mod=mod", "GOPROXY=off", "GOSUMDB=off", "GOTOOLCHAIN=local", "CGO_ENABLED=1"}

func die2(format string, a ...any) {
	fmt.Printf("HARNESS-ERROR: "+format+"\n", a...)
	os.Exit(2)
}

func goBin() string {
	for _, c := range []string{"/opt/veriftools/go1.26.8/bin/go"} {
		if _, err := os.Stat(c); err == nil {
			return c
		}
	}
	if p, err := exec.LookPath("go1.26.8"); err == nil {
		return p
	}
	return "go"
}

func repoBuildID() string {
	rev, _ := exec.Command("git", "-C", "/repo", "rev-parse", "--short", "HEAD").Output()
	diff, _ := exec.Command("git", "-C", "/repo", "diff", "HEAD").Output()
	id := strings.TrimSpace(string(rev))
	if len(bytes.TrimSpace(diff)) > 0 {
		h := sha256.Sum256(diff)
		id += "+dirty-" + hex.EncodeToString(h[:4])
	}
	if ov := os.Getenv("VERIF_OVERLAY"); ov != "" {
		id += "+overlay"
	}
	return id
}

func buildEngine(engine string, race bool) string {
	// built into the per-invocation temp dir so that concurrent checks never clobber each other's binary
	out := filepath.Join(tmpDir, engine+".test")
	args := []string{"test", "-c", "-tags", "verif", "-vet=off", "-o", out}
	if race {
		args = append(args, "-race")
	}
	ov := os.Getenv("VERIF_OVERLAY") // mutation testing: substitute files of /repo at compile time without touching /repo
	if files := kit.EngineInstrument[engine]; len(files) > 0 {
		// lock sites of these files become scheduling points (rewritten copies, regenerated from the current tree)
		p, n, err := instrument.Build("/repo", files, ov, filepath.Join(tmpDir, "instr-"+engine))
		if err != nil {
			die2("instrumenting lock sites for engine %s: %v", engine, err)
		}
		fmt.Printf("instrumented %d lock sites in %v\n", n, files)
		ov = p
	}
	if ov != "" {
		args = append(args, "-overlay", ov)
	}
	args = append(args, "./engines/"+engine)
	cmd := exec.Command(goBin(), args...)
	cmd.Dir = filepath.Join(verifRoot, "sim")
	cmd.Env = append(os.Environ(), goEnv...)
	var buf bytes.Buffer
	cmd.Stdout, cmd.Stderr = &buf, &buf
	t0 := time.Now()
	if err := cmd.Run(); err != nil {
		fmt.Println(buf.String())
		die2("building engine %s from /repo failed: %v", engine, err)
	}
	fmt.Printf("built %s in %.1fs (repo %s)\n", filepath.Base(out), time.Since(t0).Seconds(), repoBuildID())
	return out
}

type workerOut struct {
	results  []kit.RunResult
	crashed  []crashInfo
	timedOut bool
}

type crashInfo struct {
	idx     int
	seed    uint64
	stderr  string
	profile string
}

var tmpDir string

// stopAll, when closed, kills running batch workers (early stop). nil = never.
var stopAll chan struct{}

// runWorker starts one worker process for a job and returns parsed results.
func runWorker(bin string, job kit.Job, hardDeadline time.Time, gomaxprocs int, extraEnv ...string) (res []kit.RunResult, lastStarted int, lastSeed uint64, done bool, stderrTail string, timedOut bool) {
	jobPath := filepath.Join(tmpDir, fmt.Sprintf("job-%d-%d-%s-%d.json", job.Start, job.Stride, job.Profile, time.Now().UnixNano()))
	job.Out = strings.TrimSuffix(jobPath, ".json") + ".out"
	jb, _ := json.Marshal(job)
	os.WriteFile(jobPath, jb, 0644)
	defer os.Remove(jobPath)
	defer os.Remove(job.Out)
	cmd := exec.Command(bin, "-test.run", "^TestWorker$", "-test.cpu", strconv.Itoa(gomaxprocs), "-test.timeout", "0", "-test.count", "1")
	cmd.Env = append(os.Environ(), "VERIF_JOB="+jobPath, "GOTRACEBACK=all")
	cmd.Env = append(cmd.Env, extraEnv...)
	var errb bytes.Buffer
	cmd.Stderr = &errb
	cmd.Stdout = &errb
	if err := cmd.Start(); err != nil {
		die2("cannot start worker: %v", err)
	}
	doneCh := make(chan error, 1)
	go func() { doneCh <- cmd.Wait() }()
	killed := false
	select {
	case <-doneCh:
	case <-stopAll: // early stop: a violation was found elsewhere; results so far are kept
		cmd.Process.Kill()
		<-doneCh
		killed = true
	case <-time.After(time.Until(hardDeadline)):
		cmd.Process.Kill()
		<-doneCh
		timedOut = true
	}
	lastStarted = -1
	f, err := os.Open(job.Out)
	if err == nil {
		defer f.Close()
		sc := bufio.NewScanner(f)
		sc.Buffer(make([]byte, 1<<20), 1<<30)
		pending := -1
		var pendingSeed uint64
		for sc.Scan() {
			line := sc.Bytes()
			var probe map[string]json.RawMessage
			if json.Unmarshal(line, &probe) != nil {
				continue
			}
			if _, ok := probe["started"]; ok {
				var s struct {
					Started int    `json:"started"`
					Seed    uint64 `json:"seed"`
				}
				json.Unmarshal(line, &s)
				pending, pendingSeed = s.Started, s.Seed
				continue
			}
			if _, ok := probe["done"]; ok {
				done = true
				continue
			}
			var r kit.RunResult
			if json.Unmarshal(line, &r) == nil && r.LogHash != "" {
				res = append(res, r)
				pending = -1
			}
		}
		lastStarted, lastSeed = pending, pendingSeed
	}
	if killed {
		done, lastStarted = true, -1 // not a crash: we stopped it
	}
	s := errb.String()
	if len(s) > 6000 && os.Getenv("VERIF_KEEP_STDERR") == "" {
		// keep the head of the panic, which names the failing frame
		if i := strings.Index(s, "RUN-TIMEOUT"); i >= 0 {
			s = s[i:]
			if len(s) > 400000 {
				s = s[:400000]
			}
		} else if i := strings.Index(s, "panic:"); i >= 0 && len(s)-i > 6000 {
			s = s[i : i+6000]
		} else if i := strings.Index(s, "fatal error:"); i >= 0 && len(s)-i > 6000 {
			s = s[i : i+6000]
		} else {
			s = s[len(s)-6000:]
		}
	}
	stderrTail = s
	return
}

type knownFinding struct {
	Property string `json:"property"`
	Status   string `json:"status"` // known | fixed
	Match    string `json:"match"`  // regexp matched against "class|signature"
	Commit   string `json:"commit,omitempty"`
	What     string `json:"what"`
}

func loadKnown() []knownFinding {
	var f struct {
		Findings []knownFinding `json:"findings"`
	}
	bs, err := os.ReadFile(filepath.Join(verifRoot, "known_findings.json"))
	if err != nil {
		return nil
	}
	if err := json.Unmarshal(bs, &f); err != nil {
		die2("known_findings.json: %v", err)
	}
	return f.Findings
}

func matchKnown(kf []knownFinding, prop string, v *kit.Violation) *knownFinding {
	for i := range kf {
		k := &kf[i]
		if k.Property != prop || k.Status != "known" {
			continue
		}
		if re, err := regexp.Compile(k.Match); err == nil && re.MatchString(v.Key()) {
			return k
		}
	}
	return nil
}

func main() {
	var (
		prop      = flag.String("property", "", "property id")
		tier      = flag.String("tier", os.Getenv("VERIF_TIER"), "quick|thorough")
		replay    = flag.String("replay", "", "replay file")
		runsFlag  = flag.Int("runs", 0, "override number of runs")
		budget    = flag.Int("budget", 0, "override wall budget (s)")
		workers   = flag.Int("workers", 0, "worker processes")
		profile   = flag.String("profile", "", "only this profile")
		noEvid    = flag.Bool("no-evidence", false, "do not write evidence (mutation sweeps)")
		selftest  = flag.Int("selftest", -1, "determinism self-test seeds (default per tier)")
		race      = flag.Bool("race", false, "build engine with -race")
		keepGoing = flag.Bool("no-early-stop", false, "do not stop the batch at the first violation")
	)
	genManifest := flag.Bool("gen-manifest", false, "print MANIFEST.json generated from the registry")
	buildOnly := flag.String("build-engine", "", "build this engine (with its lock-site instrumentation) into bin/<engine>.test and exit (for tools/difflog.py)")
	flag.Parse()
	if *genManifest {
		printManifest()
		return
	}
	if *buildOnly != "" {
		var err error
		if tmpDir, err = os.MkdirTemp("/dev/shm", "verif-check-"); err != nil {
			die2("%v", err)
		}
		bin := buildEngine(*buildOnly, *race)
		b, err := os.ReadFile(bin)
		if err == nil {
			err = os.WriteFile(filepath.Join(verifRoot, "bin", *buildOnly+".test"), b, 0755)
		}
		os.RemoveAll(tmpDir)
		if err != nil {
			die2("%v", err)
		}
		return
	}
	if *tier == "" {
		*tier = "quick"
	}
	var err error
	tmpDir, err = os.MkdirTemp("/dev/shm", "verif-check-")
	if err != nil {
		tmpDir, err = os.MkdirTemp("", "verif-check-")
		if err != nil {
			die2("mktemp: %v", err)
		}
	}
	defer os.RemoveAll(tmpDir)
	code := func() int {
		if *replay != "" {
			return doReplay(*replay)
		}
		spec := kit.Registry[*prop]
		if spec == nil {
			die2("unknown property %q", *prop)
		}
		return doCheck(spec, *tier, *runsFlag, *budget, *workers, *profile, *noEvid, *selftest, *race, !*keepGoing)
	}()
	os.RemoveAll(tmpDir)
	os.Exit(code)
}

func baseSeed() int64 {
	if s := os.Getenv("VERIF_SEED"); s != "" {
		if v, err := strconv.ParseInt(s, 10, 64); err == nil {
			return v
		}
	}
	return 20260921
}

func doReplay(path string) int {
	rf, err := kit.LoadReplay(path)
	if err != nil {
		die2("replay file: %v", err)
	}
	bin := buildEngine(rf.Engine, false)
	var env []string
	if rf.Violation != nil && rf.Violation.Class == "hang" {
		env = append(env, "VERIF_RUN_TIMEOUT_S=150")
	}
	res, _, _, _, stderr, timedOut := runWorker(bin, kit.Job{Mode: "replay", Replay: path}, time.Now().Add(20*time.Minute), 1, env...)
	if rf.Violation != nil && rf.Violation.Class == "hang" && len(res) == 0 && strings.Contains(stderr, "RUN-TIMEOUT") {
		sig := spinningFrame(stderr)
		fmt.Printf("replay: run exceeded the watchdog, spinning in %s (recorded %s)\n", sig, rf.Violation.Signature)
		if sig == rf.Violation.Signature {
			fmt.Printf("VIOLATION property=%s replay=%s\n", rf.Property, path)
			return 1
		}
	}
	if p := os.Getenv("VERIF_KEEP_STDERR"); p != "" {
		os.WriteFile(p, []byte(stderr), 0644)
	}
	if timedOut {
		die2("replay timed out")
	}
	if len(res) == 0 {
		// the worker died: that is the crash reproducing (or not)
		if rf.Violation != nil && rf.Violation.Class == "process-crash" {
			sig := kit.PanicSignature(stderr)
			fmt.Printf("replay: worker died, first goloop frame: %s\n%s\n", sig, stderr)
			if sig == rf.Violation.Signature {
				fmt.Printf("VIOLATION property=%s replay=%s\n", rf.Property, path)
				return 1
			}
		}
		fmt.Println(stderr)
		die2("replay produced no result")
	}
	r := res[0]
	for _, l := range r.Head {
		fmt.Println("  ", l)
	}
	if r.Violation == nil {
		fmt.Printf("replay: no violation (log %s, recorded %s)\n", r.LogHash, rf.LogHash)
		return 0
	}
	fmt.Printf("replay: %s | %s\n  %s\n  log %s (recorded %s) tape misses %d\n", r.Violation.Class, r.Violation.Signature, r.Violation.Detail, r.LogHash, rf.LogHash, r.TapeMisses)
	fmt.Printf("VIOLATION property=%s replay=%s\n", rf.Property, path)
	return 1
}

type agg struct {
	mu        sync.Mutex
	results   []kit.RunResult
	crashes   []crashInfo
	timedOut  int
	slowRuns  int // runs that exceeded the per-run wall-clock limit under load and completed when executed again alone
	earlyStop bool
}

func doCheck(spec *kit.PropertySpec, tier string, runsOverride, budgetOverride, nWorkers int, onlyProfile string, noEvidence bool, selftestSeeds int, race bool, earlyStop bool) int {
	t0 := time.Now()
	bin := buildEngine(spec.Engine, race)
	runs, budgetS := spec.QuickRuns, spec.QuickBudgetS
	if tier == "thorough" {
		runs, budgetS = spec.ThoroughRuns, spec.ThoroughBudgetS
	}
	if runsOverride > 0 {
		runs = runsOverride
	}
	if budgetOverride > 0 {
		budgetS = budgetOverride
	}
	if nWorkers <= 0 {
		nWorkers = runtime.NumCPU()
		if nWorkers > 16 {
			nWorkers = 16
		}
	}
	profiles := spec.Profiles
	if len(profiles) == 0 {
		profiles = []kit.ProfileSpec{{Name: "", Weight: 1}}
	}
	if onlyProfile != "" {
		profiles = []kit.ProfileSpec{{Name: onlyProfile, Weight: 1}}
	}
	wsum := 0
	for _, p := range profiles {
		wsum += p.Weight
	}
	seed := baseSeed()
	deadline := time.Now().Add(time.Duration(budgetS) * time.Second)
	// a run started just before the deadline may still take a while on a loaded
	// machine; the per-run watchdog inside the worker (kit.RunOnce) fires first
	hard := deadline.Add(260 * time.Second)
	if tier == "thorough" {
		hard = deadline.Add(400 * time.Second)
	}
	extraEnv := []string{}
	if race {
		extraEnv = append(extraEnv, "GORACE=halt_on_error=1 exitcode=66")
	}

	// work items: (profile, start, stride, count); each worker slot pulls items.
	type item struct {
		profile              string
		start, stride, count int
	}
	var items []item
	for _, p := range profiles {
		n := runs * p.Weight / wsum
		if n < 1 {
			n = 1
		}
		per := (n + nWorkers - 1) / nWorkers
		for w := 0; w < nWorkers; w++ {
			if w*1 >= n {
				break
			}
			items = append(items, item{p.Name, w, nWorkers, per})
		}
	}
	// interleave profiles so that the wall budget is shared fairly
	sort.SliceStable(items, func(i, j int) bool { return items[i].start < items[j].start })

	var a agg
	knownEarly := loadKnown()
	itemCh := make(chan item, len(items))
	for _, it := range items {
		itemCh <- it
	}
	close(itemCh)
	var wg sync.WaitGroup
	stop := make(chan struct{})
	stopAll = stop
	defer func() { stopAll = nil }()
	var stopOnce sync.Once
	for w := 0; w < nWorkers; w++ {
		wg.Add(1)
		go func() {
			defer wg.Done()
			for it := range itemCh {
				start, count := it.start, it.count
				for count > 0 {
					select {
					case <-stop:
						return
					default:
					}
					if time.Now().After(deadline) {
						return
					}
					job := kit.Job{Mode: "batch", Property: spec.ID, Tier: tier, Profile: it.profile, BaseSeed: seed,
						Start: start, Stride: it.stride, Count: count, DeadlineMs: deadline.UnixMilli()}
					res, lastStarted, lastSeed, done, stderr, to := runWorker(bin, job, hard, 1, extraEnv...)
					a.mu.Lock()
					a.results = append(a.results, res...)
					viol := false
					for _, r := range res {
						// a listed known finding does not cut the batch short
						if r.Violation != nil && matchKnown(knownEarly, spec.ID, r.Violation) == nil {
							viol = true
						}
					}
					if to {
						a.timedOut++
					}
					slowRetry := !done && !to && lastStarted >= 0 && strings.Contains(stderr, "RUN-TIMEOUT")
					if !done && !to && lastStarted >= 0 && !slowRetry {
						a.crashes = append(a.crashes, crashInfo{lastStarted, lastSeed, stderr, it.profile})
						viol = true
					}
					a.mu.Unlock()
					if slowRetry {
						// The per-run wall-clock watchdog fired. On a heavily loaded machine that can be a slow run
						// rather than a hang: execute this one run again with three times the limit. Its result
						// counts like any other; only a second time-out is recorded as a hang.
						job2 := job
						job2.Start, job2.Count = lastStarted, 1
						job2.DeadlineMs = time.Now().Add(30 * time.Minute).UnixMilli()
						res2, _, _, done2, stderr2, _ := runWorker(bin, job2, time.Now().Add(20*time.Minute), 1, append([]string{"VERIF_RUN_TIMEOUT_S=720"}, extraEnv...)...)
						a.mu.Lock()
						if done2 && len(res2) == 1 {
							a.results = append(a.results, res2...)
							a.slowRuns++
							if r := res2[0]; r.Violation != nil && matchKnown(knownEarly, spec.ID, r.Violation) == nil {
								viol = true
							}
						} else {
							if strings.Contains(stderr2, "RUN-TIMEOUT") {
								stderr = stderr2
							}
							a.crashes = append(a.crashes, crashInfo{lastStarted, lastSeed, stderr, it.profile})
							viol = true
						}
						a.mu.Unlock()
					}
					if viol && earlyStop {
						stopOnce.Do(func() { close(stop) })
					}
					if done || to {
						break
					}
					if lastStarted < 0 {
						// died before starting anything: harness trouble
						a.mu.Lock()
						a.crashes = append(a.crashes, crashInfo{-1, 0, stderr, it.profile})
						a.mu.Unlock()
						break
					}
					// continue after the crashed run
					doneRuns := (lastStarted-start)/it.stride + 1
					start += doneRuns * it.stride
					count -= doneRuns
				}
			}
		}()
	}

	// determinism self-test runs concurrently with the batch (load is what exposes divergence)
	stSeeds := selftestSeeds
	if stSeeds < 0 {
		stSeeds = 6
		if tier == "thorough" {
			stSeeds = 40
		}
	}
	type stResult struct {
		profile string
		res     []kit.RunResult
	}
	var stMu sync.Mutex
	var stAll []stResult
	var stWg sync.WaitGroup
	if stSeeds > 0 {
		reps := 2
		if tier == "thorough" {
			reps = 3
		}
		for _, p := range profiles {
			for rep := 0; rep < reps; rep++ {
				stWg.Add(1)
				go func(pn string, rep int) {
					defer stWg.Done()
					job := kit.Job{Mode: "batch", Property: spec.ID, Tier: tier, Profile: pn, BaseSeed: seed, Start: 0, Stride: 1, Count: stSeeds}
					env := append([]string{}, extraEnv...)
					if rep == 1 {
						env = append(env, "GOGC=25")
					}
					res, _, _, _, _, _ := runWorker(bin, job, hard, 1, env...)
					stMu.Lock()
					stAll = append(stAll, stResult{pn, res})
					stMu.Unlock()
				}(p.Name, rep)
			}
		}
	}
	wg.Wait()
	stWg.Wait()
	stopAll = nil // minimise/replay workers below must not be affected by the early stop

	// ---- determinism verdict
	diverged := 0
	stCompared := 0
	var divergeMsg string
	{
		byKey := map[string]map[string]bool{}
		for _, s := range stAll {
			for _, r := range s.res {
				k := fmt.Sprintf("%s#%d", s.profile, r.RunIndex)
				if byKey[k] == nil {
					byKey[k] = map[string]bool{}
				}
				byKey[k][r.LogHash] = true
			}
		}
		// also compare with the main batch's hashes
		for _, r := range a.results {
			k := fmt.Sprintf("%s#%d", r.Profile, r.RunIndex)
			if byKey[k] != nil {
				byKey[k][r.LogHash] = true
			}
		}
		for k, hs := range byKey {
			stCompared++
			if len(hs) > 1 {
				diverged++
				divergeMsg = k
			}
		}
	}

	// ---- aggregate
	wall := time.Since(t0).Seconds()
	evals := len(a.results)
	distinct := map[string]bool{}
	faults := map[string]int64{}
	probes := map[string]int64{}
	metrics := map[string]int64{}
	perProfile := map[string]int{}
	var simNs, steps, choices int64
	var samples []any
	violByKey := map[string][]kit.RunResult{}
	for _, r := range a.results {
		if r.Nontrivial {
			distinct[r.LogHash] = true
		}
		for k, v := range r.Faults {
			faults[k] += v
		}
		for k, v := range r.Probes {
			probes[k] += v
		}
		for k, v := range r.Metrics {
			metrics[k] += v
		}
		perProfile[r.Profile]++
		simNs += r.SimNs
		steps += r.Steps
		choices += int64(r.Choices)
		if r.Violation != nil {
			violByKey[r.Violation.Key()] = append(violByKey[r.Violation.Key()], r)
		}
	}
	// samples: first nontrivial runs of each profile (by run index, deterministic)
	sort.SliceStable(a.results, func(i, j int) bool {
		if a.results[i].Profile != a.results[j].Profile {
			return a.results[i].Profile < a.results[j].Profile
		}
		return a.results[i].RunIndex < a.results[j].RunIndex
	})
	perProfSample := map[string]int{}
	for _, r := range a.results {
		if !r.Nontrivial || perProfSample[r.Profile] >= 2 || len(samples) >= 6 {
			continue
		}
		perProfSample[r.Profile]++
		head := r.Head
		if len(head) > 30 {
			head = head[:30]
		}
		samples = append(samples, map[string]any{"profile": r.Profile, "run_index": r.RunIndex, "seed": r.Seed, "config": r.Config,
			"faults": r.Faults, "metrics": r.Metrics, "sim_seconds": float64(r.SimNs) / 1e9, "events": r.Events, "choices": r.Choices, "first_events": head})
	}

	known := loadKnown()
	exit := 0
	nViol := 0
	var lines []string

	// ---- crashes of worker processes
	for _, c := range a.crashes {
		if c.idx < 0 {
			fmt.Println(c.stderr)
			die2("worker died before starting a run")
		}
		if strings.Contains(c.stderr, "RUN-TIMEOUT") {
			dump := filepath.Join(verifRoot, "replays", fmt.Sprintf("%s-hang-%d.stacks.txt", spec.ID, c.idx))
			os.MkdirAll(filepath.Dir(dump), 0755)
			os.WriteFile(dump, []byte(c.stderr), 0644)
			// a goroutine that is still *running goloop code* when the watchdog fires is
			// the code under test spinning (e.g. a decoder looping on forged bytes):
			// for properties that exclude crashing the node that is a violation.
			if sig := spinningFrame(c.stderr); sig != "" && spec.CrashIsViolation {
				v := &kit.Violation{Property: spec.ID, Class: "hang", Signature: sig, Detail: "run exceeded the per-run wall-clock limit while a goroutine was executing " + sig + "; goroutine dump in " + dump}
				path := writeReplay(spec, tier, c.profile, seed, c.seed, c.idx, nil, v, "")
				// must reproduce from its seed in a fresh process: same spinning frame again
				_, _, _, _, stderr2, _ := runWorker(bin, kit.Job{Mode: "replay", Replay: path}, time.Now().Add(10*time.Minute), 1, append([]string{"VERIF_RUN_TIMEOUT_S=150"}, extraEnv...)...)
				if !strings.Contains(stderr2, "RUN-TIMEOUT") || spinningFrame(stderr2) != sig {
					die2("run %d (profile %q, seed %d) exceeded the per-run wall-clock limit in %s but that did not reproduce from its seed; goroutine dump in %s", c.idx, c.profile, c.seed, sig, dump)
				}
				if k := matchKnown(known, spec.ID, v); k != nil {
					lines = append(lines, fmt.Sprintf("KNOWN-FINDING: property=%s %s", spec.ID, k.What))
					continue
				}
				fmt.Printf("violation hang|%s\n  %s\n", sig, v.Detail)
				lines = append(lines, fmt.Sprintf("VIOLATION property=%s replay=%s", spec.ID, path))
				nViol++
				exit = 1
				continue
			}
			die2("run %d (profile %q, seed %d) exceeded the per-run wall-clock limit: simulator hang; goroutine dump in %s", c.idx, c.profile, c.seed, dump)
		}
		if race && strings.Contains(c.stderr, "WARNING: DATA RACE") {
			// data race reported by the race detector riding on the simulated schedule
			sig := raceSignature(c.stderr)
			v := &kit.Violation{Property: spec.ID, Class: "data-race", Signature: sig, Detail: firstLines(c.stderr, 60)}
			path := writeReplay(spec, tier, c.profile, seed, c.seed, c.idx, nil, v, "")
			if k := matchKnown(known, spec.ID, v); k != nil {
				lines = append(lines, fmt.Sprintf("KNOWN-FINDING: property=%s %s", spec.ID, k.What))
				continue
			}
			fmt.Println(firstLines(c.stderr, 80))
			lines = append(lines, fmt.Sprintf("VIOLATION property=%s replay=%s", spec.ID, path))
			nViol++
			exit = 1
			continue
		}
		sig := kit.PanicSignature(c.stderr)
		v := &kit.Violation{Property: spec.ID, Class: "process-crash", Signature: sig, Detail: firstLines(c.stderr, 40)}
		path := writeReplay(spec, tier, c.profile, seed, c.seed, c.idx, nil, v, "")
		// reproduce in a fresh process
		res, _, _, done, stderr2, _ := runWorker(bin, kit.Job{Mode: "replay", Replay: path}, time.Now().Add(10*time.Minute), 1, extraEnv...)
		reproduced := !done && len(res) == 0 && kit.PanicSignature(stderr2) == sig
		if !reproduced {
			fmt.Println(c.stderr)
			die2("worker crashed on run %d (seed %d, first goloop frame %s) but the crash did not reproduce from its seed", c.idx, c.seed, sig)
		}
		if !spec.CrashIsViolation {
			fmt.Println(c.stderr)
			die2("worker crashed reproducibly on run %d (seed %d) in %s; property %s does not speak about crashes — treat as harness or unrelated defect", c.idx, c.seed, sig, spec.ID)
		}
		if k := matchKnown(known, spec.ID, v); k != nil {
			lines = append(lines, fmt.Sprintf("KNOWN-FINDING: property=%s %s", spec.ID, k.What))
			continue
		}
		fmt.Println(firstLines(c.stderr, 60))
		lines = append(lines, fmt.Sprintf("VIOLATION property=%s replay=%s", spec.ID, path))
		nViol++
		exit = 1
	}

	// ---- oracle violations
	keys := make([]string, 0, len(violByKey))
	for k := range violByKey {
		keys = append(keys, k)
	}
	sort.Strings(keys)
	reported := 0
	for _, k := range keys {
		rs := violByKey[k]
		sort.Slice(rs, func(i, j int) bool { return len(rs[i].Tape) < len(rs[j].Tape) })
		r := rs[0]
		if kf := matchKnown(known, spec.ID, r.Violation); kf != nil {
			lines = append(lines, fmt.Sprintf("KNOWN-FINDING: property=%s %s (%d runs)", spec.ID, kf.What, len(rs)))
			continue
		}
		if reported >= 3 {
			continue
		}
		reported++
		path := writeReplay(spec, tier, r.Profile, seed, r.Seed, r.RunIndex, r.Tape, r.Violation, r.LogHash)
		// minimise in a worker process, then confirm in a fresh one
		minS := 90
		if tier == "thorough" {
			minS = 240
		}
		_, _, _, mdone, mstderr, _ := runWorker(bin, kit.Job{Mode: "minimise", Replay: path, MinReplays: 400, MinSeconds: minS}, time.Now().Add(time.Duration(minS+120)*time.Second), 1, extraEnv...)
		if !mdone {
			fmt.Println(mstderr)
			fmt.Printf("note: minimisation did not finish; keeping the unminimised replay\n")
		}
		rf, _ := kit.LoadReplay(path)
		res, _, _, _, rstderr, _ := runWorker(bin, kit.Job{Mode: "replay", Replay: path}, time.Now().Add(10*time.Minute), 1, extraEnv...)
		if len(res) == 0 || res[0].Violation == nil || res[0].Violation.Key() != r.Violation.Key() {
			fmt.Println(rstderr)
			got := "none"
			if len(res) > 0 && res[0].Violation != nil {
				got = res[0].Violation.Key()
			}
			fmt.Printf("NONREPRODUCIBLE property=%s replay=%s expected=%s got=%s\n", spec.ID, path, r.Violation.Key(), got)
			if exit == 0 {
				exit = 2
			}
			continue
		}
		if rf != nil && rf.LogHash != "" && res[0].LogHash != rf.LogHash {
			fmt.Printf("NONREPRODUCIBLE property=%s replay=%s: same violation but event log differs (%s vs %s)\n", spec.ID, path, res[0].LogHash, rf.LogHash)
			if exit == 0 {
				exit = 2
			}
			continue
		}
		fmt.Printf("violation %s\n  %s\n  seed=%d run=%d profile=%q occurrences=%d tape %d -> %d entries\n", k, res[0].Violation.Detail, r.Seed, r.RunIndex, r.Profile, len(rs), len(r.Tape), len(res[0].Tape))
		lines = append(lines, fmt.Sprintf("VIOLATION property=%s replay=%s", spec.ID, path))
		nViol++
		exit = 1
	}

	// ---- harness-health verdicts (never VIOLATION)
	var trouble []string
	if diverged > 0 {
		trouble = append(trouble, fmt.Sprintf("determinism self-test: %d of %d seeds diverged between identical runs (e.g. %s)", diverged, stCompared, divergeMsg))
	}
	if a.timedOut > 0 {
		trouble = append(trouble, fmt.Sprintf("%d worker(s) hit the hard watchdog", a.timedOut))
	}
	if evals == 0 {
		trouble = append(trouble, "no run completed")
	}
	var unreached []string
	need := append([]string{}, spec.QuickProbes...)
	if tier == "thorough" {
		need = append(need, spec.EssentialProbes...)
	}
	for _, p := range need {
		if probes[p] == 0 && faults[p] == 0 {
			unreached = append(unreached, p)
		}
	}
	if len(unreached) > 0 && exit == 0 && onlyProfile == "" && runsOverride == 0 {
		trouble = append(trouble, fmt.Sprintf("essential probes never hit: %v", unreached))
	}
	if len(distinct) < 2 && exit == 0 {
		trouble = append(trouble, fmt.Sprintf("only %d distinct non-trivial runs", len(distinct)))
	}

	// ---- evidence
	if !noEvidence {
		cov := map[string]any{
			"evaluations":            evals,
			"distinct_nontrivial":    len(distinct),
			"rule":                   spec.Rule,
			"samples":                samples,
			"runs_per_hour":          int(float64(evals) / wall * 3600),
			"sim_seconds_total":      float64(simNs) / 1e9,
			"sim_steps_total":        steps,
			"choices_total":          choices,
			"faults_fired":           faults,
			"probes":                 probes,
			"metrics":                metrics,
			"unreached_probes":       unreached,
			"runs_per_profile":       perProfile,
			"components_real":        spec.Real,
			"components_stubbed":     spec.Stubbed,
			"determinism_selftest":   map[string]any{"seeds_compared": stCompared, "diverged": diverged},
			"engine":                 spec.Engine,
			"engine_build":           repoBuildID(),
			"workers":                nWorkers,
			"distinct_measure":       "sha256 of the run's full event log (every delivery, fault, operation and observation), counted over runs the engine marked non-trivial",
			"known_findings_matched": countPrefix(lines, "KNOWN-FINDING"),
			"harness_trouble":        trouble,
		}
		if spec.Assumptions == nil {
			spec.Assumptions = []string{}
		}
		ev := map[string]any{
			"property_id": spec.ID, "tier": tier, "seed": seed, "level": "exploration",
			"coverage": cov, "assumptions": spec.Assumptions, "wall_s": wall, "violations": nViol,
		}
		b, _ := json.MarshalIndent(ev, "", " ")
		os.MkdirAll(filepath.Join(verifRoot, "evidence"), 0755)
		if err := os.WriteFile(filepath.Join(verifRoot, "evidence", spec.ID+".json"), b, 0644); err != nil {
			die2("writing evidence: %v", err)
		}
	}
	fmt.Printf("%s %s: %d runs (%d distinct non-trivial) in %.1fs, %.0f sim-s, faults=%v\n", spec.ID, tier, evals, len(distinct), wall, float64(simNs)/1e9, compact(faults))
	if a.slowRuns > 0 {
		fmt.Printf("note: %d run(s) exceeded the per-run wall-clock limit (machine load) and completed when executed again alone\n", a.slowRuns)
	}
	fmt.Printf("probes=%v\n", compact(probes))
	for _, l := range lines {
		fmt.Println(l)
	}
	if exit == 0 && len(trouble) > 0 {
		for _, t := range trouble {
			fmt.Println("HARNESS-ERROR:", t)
		}
		return 2
	}
	if exit == 0 {
		fmt.Printf("OK property=%s\n", spec.ID)
	}
	return exit
}

func countPrefix(ls []string, p string) int {
	n := 0
	for _, l := range ls {
		if strings.HasPrefix(l, p) {
			n++
		}
	}
	return n
}

func compact(m map[string]int64) string {
	ks := kit.SortedKeys(m)
	var sb strings.Builder
	for i, k := range ks {
		if i > 0 {
			sb.WriteByte(' ')
		}
		fmt.Fprintf(&sb, "%s:%d", k, m[k])
	}
	return sb.String()
}

func firstLines(s string, n int) string {
	ls := strings.Split(s, "\n")
	if len(ls) > n {
		ls = ls[:n]
	}
	return strings.Join(ls, "\n")
}

// spinningFrame returns the innermost goloop frame of a goroutine that was
// running or runnable inside a synctest bubble when the run watchdog fired.
func spinningFrame(dump string) string {
	for _, blk := range strings.Split(dump, "\n\n") {
		lines := strings.Split(blk, "\n")
		if len(lines) < 2 || !strings.HasPrefix(lines[0], "goroutine ") {
			continue
		}
		if !(strings.Contains(lines[0], "[runnable") || strings.Contains(lines[0], "[running")) || !strings.Contains(lines[0], "synctest bubble") {
			continue
		}
		for _, l := range lines[1:] {
			if strings.HasPrefix(l, "github.com/icon-project/goloop/") {
				if p := strings.LastIndex(l, "("); p > 0 {
					l = l[:p]
				}
				return strings.TrimPrefix(l, "github.com/icon-project/goloop/")
			}
			if strings.HasPrefix(l, "verif/sim/") {
				break // harness code on top: not the code under test
			}
		}
	}
	return ""
}

func raceSignature(s string) string {
	// first goloop frame after "WARNING: DATA RACE"
	i := strings.Index(s, "WARNING: DATA RACE")
	if i < 0 {
		return "unknown"
	}
	for _, l := range strings.Split(s[i:], "\n") {
		l = strings.TrimSpace(l)
		if strings.HasPrefix(l, "github.com/icon-project/goloop/") {
			if p := strings.LastIndex(l, "("); p > 0 {
				l = l[:p]
			}
			return strings.TrimPrefix(l, "github.com/icon-project/goloop/")
		}
	}
	return "unknown"
}

func writeReplay(spec *kit.PropertySpec, tier, profile string, base int64, seed uint64, idx int, tape []kit.TapeEntry, v *kit.Violation, logHash string) string {
	dir := filepath.Join(verifRoot, "replays")
	os.MkdirAll(dir, 0755)
	name := fmt.Sprintf("%s-%s-%d-%d.json", spec.ID, sanitize(v.Class), base, idx)
	if profile != "" {
		name = fmt.Sprintf("%s-%s-%s-%d-%d.json", spec.ID, profile, sanitize(v.Class), base, idx)
	}
	path := filepath.Join(dir, name)
	rf := kit.ReplayFile{Property: spec.ID, Engine: spec.Engine, EngineBuild: repoBuildID(), Tier: tier, Profile: profile,
		BaseSeed: base, Seed: seed, RunIndex: idx, Tape: tape, OrigTapeLen: len(tape), Violation: v, LogHash: logHash}
	b, _ := json.MarshalIndent(rf, "", " ")
	os.WriteFile(path, b, 0644)
	return path
}

func sanitize(s string) string {
	return regexp.MustCompile(`[^A-Za-z0-9_.-]+`).ReplaceAllString(s, "_")
}

func printManifest() {
	ids := kit.SortedKeys(kit.Registry)
	var checks []any
	engines := map[string][]string{}
	for _, id := range ids {
		sp := kit.Registry[id]
		if kit.Pending[id] {
			continue
		}
		engines[sp.Engine] = append(engines[sp.Engine], id)
		checks = append(checks, map[string]any{
			"property_id":         id,
			"quick_cmd":           "./check.sh " + id + " quick",
			"thorough_cmd":        "./check.sh " + id + " thorough",
			"evidence_file":       "/verif/evidence/" + id + ".json",
			"replay_cmd_template": "./check.sh --replay {path}",
			"engine":              sp.Engine,
			"level_claimed":       map[string]any{"category": "exploration", "text": sp.LevelText, "design_ref": "DESIGN.md section " + sp.DesignRef},
			"level_note":          sp.LevelNote,
			"technique":           sp.Technique,
		})
	}
	var engs []any
	for _, e := range kit.SortedKeys(engines) {
		engs = append(engs, map[string]any{"name": e, "path": "/verif/sim/engines/" + e, "serves_properties": engines[e],
			"kind_free_text": "go test binary (go1.26.8, testing/synctest fake clock where timers exist) run as seeded worker processes by sim/cmd/check"})
	}
	var na []any
	for _, x := range kit.NotApplicable {
		na = append(na, map[string]any{"property_id": x[0], "reason": x[1]})
	}
	hooks := kit.Hooks
	m := map[string]any{
		"version":        1,
		"setup_cmd":      "./setup.sh",
		"hooks":          hooks,
		"engines":        engs,
		"checks":         checks,
		"not_applicable": na,
		"notes":          "Deterministic simulation with fault injection. Every check rebuilds its engine from /repo's working tree with -tags verif, runs seeded simulated executions on worker processes (one tape of decisions per run), minimises and replays failures in a fresh process. exit 0 held / exit 1 VIOLATION (reproduced) / exit 2 harness trouble. VERIF_SEED and VERIF_TIER honoured.",
	}
	b, _ := json.MarshalIndent(m, "", " ")
	fmt.Println(string(b))
}
