// Package instrument rewrites selected source files of /repo at build time so
// that every acquisition and release of a sync.Mutex / sync.RWMutex in them
// becomes a scheduling point of the simulator: a call to common.SimAcquire is
// inserted before X.Lock() / X.RLock() and a call to common.SimRelease after
// X.Unlock() / X.RUnlock() (also when deferred). The rewritten copies live in a
// scratch directory and are handed to `go test -c -overlay`; /repo itself is
// never modified, and the copies are regenerated from /repo's current working
// tree (or from a mutant overlay's replacement of the file) on every build.
package instrument

import (
	"bytes"
	"encoding/json"
	"fmt"
	"go/ast"
	"go/parser"
	"go/printer"
	"go/token"
	"os"
	"path/filepath"
	"strconv"
	"strings"
)

const commonPath = "github.com/icon-project/goloop/common"

type Overlay struct {
	Replace map[string]string
}

func lockCall(e ast.Expr) (recv ast.Expr, name string, ok bool) {
	c, isCall := e.(*ast.CallExpr)
	if !isCall || len(c.Args) != 0 {
		return nil, "", false
	}
	sel, isSel := c.Fun.(*ast.SelectorExpr)
	if !isSel {
		return nil, "", false
	}
	switch sel.Sel.Name {
	case "Lock", "RLock", "Unlock", "RUnlock":
	default:
		return nil, "", false
	}
	if !addressable(sel.X) {
		return nil, "", false
	}
	return sel.X, sel.Sel.Name, true
}

// addressable: identifiers and field selector chains only (p.mtx, s, s.a.mu).
func addressable(e ast.Expr) bool {
	switch x := e.(type) {
	case *ast.Ident:
		return x.Name != "_"
	case *ast.SelectorExpr:
		return addressable(x.X)
	}
	return false
}

type rewriter struct {
	fset  *token.FileSet
	base  string
	count int
}

func (r *rewriter) hook(fn string, recv ast.Expr, name string, pos token.Pos) *ast.ExprStmt {
	mode := "'w'"
	if strings.HasPrefix(name, "R") {
		mode = "'r'"
	}
	p := r.fset.Position(pos)
	r.count++
	return &ast.ExprStmt{X: &ast.CallExpr{
		Fun: &ast.SelectorExpr{X: ast.NewIdent("common"), Sel: ast.NewIdent(fn)},
		Args: []ast.Expr{
			&ast.UnaryExpr{Op: token.AND, X: recv},
			&ast.BasicLit{Kind: token.CHAR, Value: mode},
			&ast.BasicLit{Kind: token.STRING, Value: strconv.Quote(fmt.Sprintf("%s:%d", r.base, p.Line))},
		},
	}}
}

func (r *rewriter) list(in []ast.Stmt) []ast.Stmt {
	var out []ast.Stmt
	for _, st := range in {
		r.stmt(st)
		switch s := st.(type) {
		case *ast.ExprStmt:
			if recv, name, ok := lockCall(s.X); ok {
				if name == "Lock" || name == "RLock" {
					out = append(out, r.hook("SimAcquire", recv, name, s.Pos()), st)
				} else {
					out = append(out, st, r.hook("SimRelease", recv, name, s.Pos()))
				}
				continue
			}
		case *ast.DeferStmt:
			if recv, name, ok := lockCall(s.Call); ok && (name == "Unlock" || name == "RUnlock") {
				body := &ast.BlockStmt{List: []ast.Stmt{&ast.ExprStmt{X: s.Call}, r.hook("SimRelease", recv, name, s.Pos())}}
				out = append(out, &ast.DeferStmt{Call: &ast.CallExpr{Fun: &ast.FuncLit{Type: &ast.FuncType{Params: &ast.FieldList{}}, Body: body}}})
				continue
			}
		}
		out = append(out, st)
	}
	return out
}

// stmt descends into nested statement lists and function literals.
func (r *rewriter) stmt(n ast.Node) {
	ast.Inspect(n, func(x ast.Node) bool {
		switch b := x.(type) {
		case *ast.BlockStmt:
			if b != nil {
				b.List = r.list(b.List)
			}
			return false
		case *ast.CaseClause:
			b.Body = r.list(b.Body)
			return false
		case *ast.CommClause:
			b.Body = r.list(b.Body)
			return false
		}
		return true
	})
}

// File instruments one source file; returns the new source and the number of hooks inserted.
func File(path string, src []byte) ([]byte, int, error) {
	fset := token.NewFileSet()
	f, err := parser.ParseFile(fset, path, src, parser.ParseComments)
	if err != nil {
		return nil, 0, err
	}
	r := &rewriter{fset: fset, base: filepath.Base(path)}
	for _, d := range f.Decls {
		if fd, ok := d.(*ast.FuncDecl); ok && fd.Body != nil {
			fd.Body.List = r.list(fd.Body.List)
		}
	}
	if r.count == 0 {
		return src, 0, nil
	}
	// import "github.com/icon-project/goloop/common" unless present (under its default name)
	have := false
	for _, im := range f.Imports {
		if im.Path.Value == strconv.Quote(commonPath) && (im.Name == nil || im.Name.Name == "common") {
			have = true
		}
	}
	var buf bytes.Buffer
	// comments are dropped from position bookkeeping problems by printing without them when
	// statements were inserted: free-floating comments would otherwise land in odd places
	f.Comments = nil
	if err := printer.Fprint(&buf, fset, f); err != nil {
		return nil, 0, err
	}
	out := buf.Bytes()
	if !have {
		// add a separate import declaration right after the package clause
		i := bytes.Index(out, []byte("\npackage "))
		if bytes.HasPrefix(out, []byte("package ")) {
			i = -1
		}
		j := bytes.IndexByte(out[i+1:], '\n') + i + 1
		out = append(append(append([]byte{}, out[:j+1]...), []byte("\nimport \""+commonPath+"\"\n")...), out[j+1:]...)
	}
	return out, r.count, nil
}

// Build writes instrumented copies of files (paths relative to repo) into dir and returns the path
// of an overlay JSON that replaces them; base is an optional overlay whose replacements are taken as
// the source of a file (mutants) and are carried over into the result.
func Build(repo string, files []string, baseOverlay string, dir string) (string, int, error) {
	ov := Overlay{Replace: map[string]string{}}
	if baseOverlay != "" {
		bs, err := os.ReadFile(baseOverlay)
		if err != nil {
			return "", 0, err
		}
		if err := json.Unmarshal(bs, &ov); err != nil {
			return "", 0, err
		}
		if ov.Replace == nil {
			ov.Replace = map[string]string{}
		}
	}
	total := 0
	for _, rel := range files {
		orig := filepath.Join(repo, rel)
		srcPath := orig
		if p, ok := ov.Replace[orig]; ok {
			srcPath = p
		}
		src, err := os.ReadFile(srcPath)
		if err != nil {
			return "", 0, err
		}
		out, n, err := File(orig, src)
		if err != nil {
			return "", 0, fmt.Errorf("instrumenting %s: %w", rel, err)
		}
		total += n
		dst := filepath.Join(dir, "instrumented", rel)
		if err := os.MkdirAll(filepath.Dir(dst), 0755); err != nil {
			return "", 0, err
		}
		if err := os.WriteFile(dst, out, 0644); err != nil {
			return "", 0, err
		}
		ov.Replace[orig] = dst
	}
	bs, _ := json.MarshalIndent(ov, "", " ")
	p := filepath.Join(dir, "overlay-instrumented.json")
	if err := os.WriteFile(p, bs, 0644); err != nil {
		return "", 0, err
	}
	return p, total, nil
}
