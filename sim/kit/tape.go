// Package kit is the simulation kit shared by all engines: the choice tape
// (single source of every random decision of a run), the event log, the
// per-run result record and the worker protocol spoken with cmd/check.
package kit

import (
	"math/rand/v2"
)

// TapeEntry is one recorded decision: label, number of alternatives, value.
type TapeEntry struct {
	L string `json:"l"`
	N int    `json:"n"`
	V int    `json:"v"`
}

// Tape is the only source of nondeterministic decisions in a run. In record
// mode values are drawn from a PCG seeded by the run seed; in replay mode they
// are read back. Every choice site is built so that value 0 means "no fault,
// shortest delay, first candidate, smallest size", which is what a replay
// falls back to when the tape is exhausted or no longer lines up (after
// minimisation removed something upstream).
type Tape struct {
	rng     *rand.Rand
	replay  []TapeEntry
	pos     int
	Rec     []TapeEntry
	keep    bool
	Misses  int // replay entries that did not line up
	Choices int
}

func SplitMix64(x uint64) uint64 {
	x += 0x9e3779b97f4a7c15
	z := x
	z = (z ^ (z >> 30)) * 0xbf58476d1ce4e5b9
	z = (z ^ (z >> 27)) * 0x94d049bb133111eb
	return z ^ (z >> 31)
}

// RunSeed derives the seed of run i of an engine/property batch from VERIF_SEED.
func RunSeed(base int64, salt string, i int) uint64 {
	h := uint64(base)
	for _, c := range []byte(salt) {
		h = SplitMix64(h ^ uint64(c))
	}
	return SplitMix64(h ^ uint64(i)*0x100000001b3)
}

func NewTape(seed uint64) *Tape {
	return &Tape{rng: rand.New(rand.NewPCG(seed, SplitMix64(seed))), keep: true}
}

func NewReplayTape(entries []TapeEntry) *Tape {
	return &Tape{replay: entries, keep: true}
}

func (t *Tape) Replaying() bool { return t.rng == nil }

// Choose returns a value in [0,n). n<=1 returns 0 without consuming the tape.
func (t *Tape) Choose(label string, n int) int {
	if n <= 1 {
		return 0
	}
	t.Choices++
	var v int
	if t.rng != nil {
		v = t.rng.IntN(n)
	} else {
		if t.pos < len(t.replay) {
			e := t.replay[t.pos]
			t.pos++
			if e.L == label && e.V < n && e.V >= 0 {
				v = e.V
			} else {
				t.Misses++
				if e.L == label && e.V >= n {
					v = n - 1
				}
			}
		} else {
			t.Misses++
		}
	}
	if t.keep {
		t.Rec = append(t.Rec, TapeEntry{label, n, v})
	}
	return v
}

// Permille returns true with probability p/1000. 0 = "no".
func (t *Tape) Permille(label string, p int) bool {
	if p <= 0 {
		return false
	}
	if p >= 1000 {
		return true
	}
	// value 0 must mean "no": draw v in [0,1000), yes iff v >= 1000-p
	return t.Choose(label, 1000) >= 1000-p
}

// Range returns a value in [lo,hi].
func (t *Tape) Range(label string, lo, hi int) int {
	if hi <= lo {
		return lo
	}
	return lo + t.Choose(label, hi-lo+1)
}

// Pick returns one of the weighted alternatives; index 0 should be the benign one.
func (t *Tape) Weighted(label string, weights ...int) int {
	sum := 0
	for _, w := range weights {
		sum += w
	}
	if sum <= 0 {
		return 0
	}
	v := t.Choose(label, sum)
	for i, w := range weights {
		if v < w {
			return i
		}
		v -= w
	}
	return len(weights) - 1
}

// Bytes returns n pseudo-random bytes (recorded as n/7+1 choices of 2^56).
func (t *Tape) Bytes(label string, n int) []byte {
	b := make([]byte, n)
	for i := 0; i < n; {
		v := uint64(t.Choose(label, 1<<56))
		for k := 0; k < 7 && i < n; k++ {
			b[i] = byte(v >> (8 * k))
			i++
		}
	}
	return b
}

// Perm returns a permutation of [0,n) (Fisher-Yates driven by the tape; all-zero tape = identity).
func (t *Tape) Perm(label string, n int) []int {
	p := make([]int, n)
	for i := range p {
		p[i] = i
	}
	for i := 0; i < n-1; i++ {
		j := i + t.Choose(label, n-i)
		p[i], p[j] = p[j], p[i]
	}
	return p
}
