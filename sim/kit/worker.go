package kit

import (
	"bufio"
	"encoding/json"
	"fmt"
	"os"
	"path/filepath"
	"runtime"
	"runtime/debug"
	"sort"
	"strconv"
	"strings"
	"time"
)

// Engine is one simulated system. Run must be a pure function of rc.Tape (and
// the code under test): one tape, one execution.
type Engine interface {
	Name() string
	Run(rc *RunCtx)
}

// Job is what cmd/check hands to a worker process (path in $VERIF_JOB).
type Job struct {
	Mode       string `json:"mode"` // batch | replay | minimise
	Property   string `json:"property"`
	Tier       string `json:"tier"`
	Profile    string `json:"profile"`
	BaseSeed   int64  `json:"base_seed"`
	Start      int    `json:"start"`
	Count      int    `json:"count"`
	Stride     int    `json:"stride"`
	DeadlineMs int64  `json:"deadline_ms"` // unix ms; 0 = none
	Out        string `json:"out"`
	Replay     string `json:"replay,omitempty"`
	MinReplays int    `json:"min_replays,omitempty"`
	MinSeconds int    `json:"min_seconds,omitempty"`
	Repeat     int    `json:"repeat,omitempty"` // batch: run every seed this many times (determinism self-test)
}

func Salt(engine, property, profile string) string {
	return engine + "/" + property + "/" + profile
}

// PanicSignature extracts the first goloop frame from a stack trace so that a
// panic can be matched against known findings independent of the seed.
func PanicSignature(stack string) string {
	lines := strings.Split(stack, "\n")
	for i, l := range lines {
		if strings.HasPrefix(l, "github.com/icon-project/goloop/") && !strings.Contains(l, "/verif/") {
			fn := l
			if p := strings.LastIndex(fn, "("); p > 0 {
				fn = fn[:p]
			}
			_ = i
			return strings.TrimPrefix(fn, "github.com/icon-project/goloop/")
		}
	}
	return "unknown"
}

// RunOnce executes one run, converting a panic on the calling goroutine into a
// violation of class "panic".
func RunOnce(eng Engine, rc *RunCtx) (res RunResult) {
	t0 := time.Now()
	// wall-clock watchdog per run: a run that neither finishes nor fails is a
	// harness problem (e.g. a goroutine blocked non-durably inside a bubble);
	// dump all stacks so that it can be diagnosed, and die (the runner reports exit 2).
	limit := 240 * time.Second
	if v := os.Getenv("VERIF_RUN_TIMEOUT_S"); v != "" {
		if n, err := strconv.Atoi(v); err == nil && n > 0 {
			limit = time.Duration(n) * time.Second
		}
	}
	wd := time.AfterFunc(limit, func() {
		buf := make([]byte, 1<<22)
		n := runtime.Stack(buf, true)
		fmt.Fprintf(os.Stderr, "RUN-TIMEOUT property=%s profile=%s run=%d seed=%d after %v\n%s\n", rc.Property, rc.Profile, rc.RunIndex, rc.Seed, limit, buf[:n])
		os.Exit(3)
	})
	defer wd.Stop()
	func() {
		defer func() {
			if p := recover(); p != nil {
				st := string(debug.Stack())
				res.Panic = fmt.Sprintf("%v\n%s", p, st)
				rc.Violate("panic", PanicSignature(st), "panic: %v", p)
			}
		}()
		eng.Run(rc)
	}()
	res.Property = rc.Property
	res.Profile = rc.Profile
	res.RunIndex = rc.RunIndex
	res.Seed = rc.Seed
	res.LogHash = rc.LogHash()
	res.Events = rc.EventSeq()
	res.Choices = rc.Tape.Choices
	res.SimNs = int64(rc.SimTime)
	res.Steps = rc.Steps
	res.WallUs = time.Since(t0).Microseconds()
	res.Nontrivial = rc.Nontrivial
	res.Faults = rc.Faults
	res.Probes = rc.Probes
	res.Metrics = rc.Metrics
	res.TapeMisses = rc.Tape.Misses
	if len(rc.Violations) > 0 {
		res.Violation = rc.Violations[0]
	}
	return
}

func scratchRoot() string {
	base := os.Getenv("VERIF_SCRATCH")
	if base == "" {
		base = "/dev/shm"
	}
	return filepath.Join(base, fmt.Sprintf("verif-%d", os.Getpid()))
}

func newCtx(job *Job, eng Engine, idx int, tape *Tape, seed uint64, n int) *RunCtx {
	rc := NewRunCtx(job.Property, job.Tier, job.Profile, seed, idx, tape)
	rc.Scratch = filepath.Join(scratchRoot(), fmt.Sprintf("r%d-%d", idx, n))
	_ = os.MkdirAll(rc.Scratch, 0700)
	return rc
}

// WorkerMain is called from each engine's TestWorker.
func WorkerMain(eng Engine) error {
	path := os.Getenv("VERIF_JOB")
	if path == "" {
		return nil // not invoked by the runner: nothing to do
	}
	bs, err := os.ReadFile(path)
	if err != nil {
		return err
	}
	var job Job
	if err := json.Unmarshal(bs, &job); err != nil {
		return err
	}
	defer os.RemoveAll(scratchRoot())
	out, err := os.OpenFile(job.Out, os.O_CREATE|os.O_WRONLY|os.O_APPEND, 0644)
	if err != nil {
		return err
	}
	defer out.Close()
	w := bufio.NewWriter(out)
	emit := func(v any) {
		b, _ := json.Marshal(v)
		w.Write(b)
		w.WriteByte('\n')
		w.Flush()
	}
	switch job.Mode {
	case "batch":
		if job.Stride <= 0 {
			job.Stride = 1
		}
		rep := job.Repeat
		if rep <= 0 {
			rep = 1
		}
		salt := Salt(eng.Name(), job.Property, job.Profile)
		for k := 0; k < job.Count; k++ {
			if job.DeadlineMs > 0 && time.Now().UnixMilli() > job.DeadlineMs {
				break
			}
			idx := job.Start + k*job.Stride
			seed := RunSeed(job.BaseSeed, salt, idx)
			for r := 0; r < rep; r++ {
				emit(map[string]any{"started": idx, "seed": seed})
				rc := newCtx(&job, eng, idx, NewTape(seed), seed, r)
				keepFull := os.Getenv("VERIF_KEEPFULL") != "" // tools/difflog.py: whole event log per run
				rc.KeepFull = keepFull
				res := RunOnce(eng, rc)
				res.Config = rc.Config
				res.Head = rc.Head()
				if keepFull {
					res.Head = rc.Full()
				}
				if res.Violation != nil {
					res.Tape = rc.Tape.Rec
				}
				emit(res)
				os.RemoveAll(rc.Scratch)
			}
		}
		emit(map[string]any{"done": true})
	case "replay":
		rf, err := LoadReplay(job.Replay)
		if err != nil {
			return err
		}
		var tape *Tape
		if len(rf.Tape) == 0 && !rf.Minimised {
			tape = NewTape(rf.Seed) // seed-only replay (e.g. worker died before it could report its tape)
		} else {
			tape = NewReplayTape(rf.Tape)
		}
		job.Property, job.Tier, job.Profile = rf.Property, rf.Tier, rf.Profile
		rc := newCtx(&job, eng, rf.RunIndex, tape, rf.Seed, 0)
		rc.KeepFull = true
		emit(map[string]any{"started": rf.RunIndex, "seed": rf.Seed})
		res := RunOnce(eng, rc)
		res.Config = rc.Config
		res.Head = rc.Full()
		res.Tape = rc.Tape.Rec
		emit(res)
		emit(map[string]any{"done": true})
	case "minimise":
		rf, err := LoadReplay(job.Replay)
		if err != nil {
			return err
		}
		job.Property, job.Tier, job.Profile = rf.Property, rf.Tier, rf.Profile
		min := Minimise(eng, &job, rf)
		b, _ := json.MarshalIndent(min, "", " ")
		if err := os.WriteFile(job.Replay, b, 0644); err != nil {
			return err
		}
		emit(map[string]any{"done": true, "minimise_replays": min.MinSteps, "tape_len": len(min.Tape)})
	default:
		return fmt.Errorf("unknown job mode %q", job.Mode)
	}
	return nil
}

func LoadReplay(path string) (*ReplayFile, error) {
	bs, err := os.ReadFile(path)
	if err != nil {
		return nil, err
	}
	var rf ReplayFile
	if err := json.Unmarshal(bs, &rf); err != nil {
		return nil, err
	}
	return &rf, nil
}

// Minimise shrinks the tape of a failing run while the same violation
// (class|signature) persists: (1) shortest failing prefix, (2) ddmin zeroing of
// non-zero decisions, (3) lowering single decisions. After every accepted
// candidate the tape actually consumed by that run becomes the new baseline, so
// the result always lines up with the execution it describes.
func Minimise(eng Engine, job *Job, rf *ReplayFile) *ReplayFile {
	budgetN := job.MinReplays
	if budgetN <= 0 {
		budgetN = 200
	}
	budgetT := time.Duration(job.MinSeconds) * time.Second
	if budgetT <= 0 {
		budgetT = 120 * time.Second
	}
	t0 := time.Now()
	want := rf.Violation.Key()
	n := 0
	var bestRes RunResult
	var bestEvents []string
	try := func(tape []TapeEntry) ([]TapeEntry, bool) {
		if n >= budgetN || time.Since(t0) > budgetT {
			return nil, false
		}
		n++
		rc := newCtx(job, eng, rf.RunIndex, NewReplayTape(tape), rf.Seed, n)
		rc.KeepFull = true
		res := RunOnce(eng, rc)
		os.RemoveAll(rc.Scratch)
		if res.Violation != nil && res.Violation.Key() == want {
			bestRes = res
			bestRes.Config = rc.Config
			bestEvents = rc.Full()
			// keep what has been achieved on disk: a later candidate may hang its run (a zeroed decision can
			// produce a pathological schedule), the watchdog then kills this process, and the runner must
			// still find the best tape so far
			if n > 1 && job.Replay != "" {
				snap := *rf
				snap.Tape = rc.Tape.Rec
				if snap.OrigTapeLen == 0 {
					snap.OrigTapeLen = len(rf.Tape)
				}
				snap.Minimised, snap.MinSteps = true, n
				snap.Violation, snap.LogHash, snap.Config = res.Violation, res.LogHash, rc.Config
				ev := rc.Full()
				if len(ev) > 400 {
					ev = ev[len(ev)-400:]
				}
				snap.Events = ev
				if b, err := json.MarshalIndent(&snap, "", " "); err == nil {
					if os.WriteFile(job.Replay+".tmp", b, 0644) == nil {
						_ = os.Rename(job.Replay+".tmp", job.Replay)
					}
				}
			}
			return rc.Tape.Rec, true
		}
		return nil, false
	}
	cur := rf.Tape
	if len(cur) == 0 && !rf.Minimised {
		// seed-only file: materialise the tape first
		rc := newCtx(job, eng, rf.RunIndex, NewTape(rf.Seed), rf.Seed, 0)
		rc.KeepFull = true
		res := RunOnce(eng, rc)
		os.RemoveAll(rc.Scratch)
		if res.Violation == nil || res.Violation.Key() != want {
			return rf
		}
		cur = rc.Tape.Rec
		bestRes, bestEvents = res, rc.Full()
		bestRes.Config = rc.Config
	} else if t, ok := try(cur); ok {
		cur = t
	} else {
		return rf // does not reproduce in-process; the runner will notice
	}
	origLen := rf.OrigTapeLen
	if origLen == 0 {
		origLen = len(cur)
	}
	// (1) prefix
	lo, hi := 0, len(cur)
	for lo < hi {
		mid := (lo + hi) / 2
		if t, ok := try(cur[:mid]); ok {
			cur = t
			if len(cur) < hi {
				hi = len(cur)
			}
			if mid < hi {
				hi = mid
			}
		} else {
			lo = mid + 1
		}
		if n >= budgetN {
			break
		}
	}
	// (1b) whole fault classes: all non-zero choices of one label at once (every "drop", every "dup",
	// every "crash.cut" ...), labels with the most non-zero choices first. Cheap - one replay per label -
	// and for the long cluster runs it removes most of the noise before the element-wise passes start.
	{
		cnt := map[string]int{}
		for _, e := range cur {
			if e.V != 0 {
				cnt[e.L]++
			}
		}
		labels := make([]string, 0, len(cnt))
		for l := range cnt {
			labels = append(labels, l)
		}
		sort.Slice(labels, func(i, j int) bool {
			if cnt[labels[i]] != cnt[labels[j]] {
				return cnt[labels[i]] > cnt[labels[j]]
			}
			return labels[i] < labels[j]
		})
		for _, l := range labels {
			if n >= budgetN || time.Since(t0) > budgetT {
				break
			}
			cand := append([]TapeEntry(nil), cur...)
			changed := false
			for i := range cand {
				if cand[i].L == l && cand[i].V != 0 {
					cand[i].V = 0
					changed = true
				}
			}
			if !changed {
				continue
			}
			if t, ok := try(cand); ok {
				cur = t
			}
		}
	}
	// (2) ddmin zeroing
	nz := func(t []TapeEntry) []int {
		var ix []int
		for i, e := range t {
			if e.V != 0 {
				ix = append(ix, i)
			}
		}
		return ix
	}
	for chunk := (len(nz(cur)) + 1) / 2; chunk >= 1; chunk /= 2 {
		progress := true
		for progress {
			progress = false
			ix := nz(cur)
			for s := 0; s < len(ix); s += chunk {
				e := s + chunk
				if e > len(ix) {
					e = len(ix)
				}
				cand := append([]TapeEntry(nil), cur...)
				for _, i := range ix[s:e] {
					cand[i].V = 0
				}
				if t, ok := try(cand); ok {
					cur = t
					progress = true
					break
				}
				if n >= budgetN || time.Since(t0) > budgetT {
					break
				}
			}
			if n >= budgetN || time.Since(t0) > budgetT {
				break
			}
		}
		if chunk == 1 {
			break
		}
	}
	// (3) lower single values
	for i := 0; i < len(cur) && n < budgetN && time.Since(t0) <= budgetT; i++ {
		if cur[i].V > 1 {
			cand := append([]TapeEntry(nil), cur...)
			cand[i].V = cur[i].V / 2
			if t, ok := try(cand); ok {
				cur = t
			}
		}
	}
	// strip trailing zeros (exhausted tape == zeros)
	for len(cur) > 0 && cur[len(cur)-1].V == 0 {
		cur = cur[:len(cur)-1]
	}
	out := *rf
	out.Tape = cur
	out.OrigTapeLen = origLen
	out.Minimised = true
	out.MinSteps = n
	out.Violation = bestRes.Violation
	out.LogHash = bestRes.LogHash
	out.Config = bestRes.Config
	if len(bestEvents) > 400 {
		bestEvents = bestEvents[len(bestEvents)-400:]
	}
	out.Events = bestEvents
	return &out
}
