package kit

import (
	"crypto/sha256"
	"encoding/hex"
	"fmt"
	"hash"
	"os"
	"sort"
	"time"
)

// Violation is an oracle failure. Class names the oracle that failed;
// Signature identifies the specific failing input / call site / history shape
// in a way that is stable across seeds (used to match known findings);
// Detail is free text for humans.
type Violation struct {
	Property  string `json:"property"`
	Class     string `json:"class"`
	Signature string `json:"signature"`
	Detail    string `json:"detail"`
	SimTimeNs int64  `json:"sim_time_ns"`
	EventSeq  int64  `json:"event_seq"`
}

func (v *Violation) Key() string { return v.Class + "|" + v.Signature }

// eventsToStderr mirrors the event log to stderr (diagnosing runs that kill their worker process).
var eventsToStderr = os.Getenv("VERIF_EVENTS_STDERR") != ""

// RunCtx is handed to an engine for one simulated run.
type RunCtx struct {
	Property string
	Tier     string
	Profile  string // sub-configuration selected by the runner (engine specific), may be ""
	Seed     uint64
	RunIndex int
	Tape     *Tape
	Scratch  string // private scratch dir on /dev/shm, removed by the worker after the run

	log      hash.Hash
	seq      int64
	head     []string
	headMax  int
	full     []string
	KeepFull bool

	Faults  map[string]int64 // fault kinds that actually fired
	Probes  map[string]int64 // rare-branch probes
	Metrics map[string]int64 // other counters (heights, ops, forks ...)
	SimTime time.Duration
	Steps   int64

	Nontrivial bool
	Config     map[string]any // per-run drawn configuration (for samples)
	Violations []*Violation
}

func NewRunCtx(property, tier, profile string, seed uint64, idx int, tape *Tape) *RunCtx {
	return &RunCtx{
		Property: property, Tier: tier, Profile: profile, Seed: seed, RunIndex: idx, Tape: tape,
		log: sha256.New(), headMax: 40,
		Faults: map[string]int64{}, Probes: map[string]int64{}, Metrics: map[string]int64{},
		Config: map[string]any{},
	}
}

// Event appends one line to the run's event log. Never draws, never reads a clock.
func (r *RunCtx) Event(format string, args ...any) {
	r.seq++
	s := fmt.Sprintf(format, args...)
	fmt.Fprintf(r.log, "%d %s\n", r.seq, s)
	if eventsToStderr {
		fmt.Fprintf(os.Stderr, "EVENT %d %s\n", r.seq, s)
	}
	if len(r.head) < r.headMax {
		r.head = append(r.head, s)
	}
	if r.KeepFull {
		r.full = append(r.full, s)
	}
}

func (r *RunCtx) EventSeq() int64 { return r.seq }

func (r *RunCtx) LogHash() string { return hex.EncodeToString(r.log.Sum(nil)) }

func (r *RunCtx) Fault(kind string)           { r.Faults[kind]++ }
func (r *RunCtx) Probe(name string)           { r.Probes[name]++ }
func (r *RunCtx) ProbeN(name string, n int64) { r.Probes[name] += n }
func (r *RunCtx) Metric(name string, n int64) { r.Metrics[name] += n }
func (r *RunCtx) Head() []string              { return r.head }
func (r *RunCtx) Full() []string              { return r.full }
func (r *RunCtx) Failed() bool                { return len(r.Violations) > 0 }

// Violate records an oracle failure (only the first one is reported; later
// ones are usually consequences).
func (r *RunCtx) Violate(class, signature, format string, args ...any) {
	v := &Violation{Property: r.Property, Class: class, Signature: signature,
		Detail: fmt.Sprintf(format, args...), SimTimeNs: int64(r.SimTime), EventSeq: r.seq}
	r.Event("VIOLATION %s %s", class, signature)
	r.Violations = append(r.Violations, v)
}

// RunResult is the JSON line a worker writes per run.
type RunResult struct {
	Property   string           `json:"property"`
	Profile    string           `json:"profile,omitempty"`
	RunIndex   int              `json:"run_index"`
	Seed       uint64           `json:"seed"`
	LogHash    string           `json:"log_hash"`
	Events     int64            `json:"events"`
	Choices    int              `json:"choices"`
	SimNs      int64            `json:"sim_ns"`
	Steps      int64            `json:"steps"`
	WallUs     int64            `json:"wall_us"`
	Nontrivial bool             `json:"nontrivial"`
	Faults     map[string]int64 `json:"faults,omitempty"`
	Probes     map[string]int64 `json:"probes,omitempty"`
	Metrics    map[string]int64 `json:"metrics,omitempty"`
	Config     map[string]any   `json:"config,omitempty"`
	Head       []string         `json:"head,omitempty"`
	Violation  *Violation       `json:"violation,omitempty"`
	Tape       []TapeEntry      `json:"tape,omitempty"`
	TapeMisses int              `json:"tape_misses,omitempty"`
	Panic      string           `json:"panic,omitempty"`
}

// ReplayFile is what is written under /verif/replays for a failure.
type ReplayFile struct {
	Property    string      `json:"property"`
	Engine      string      `json:"engine"`
	EngineBuild string      `json:"engine_build"`
	Tier        string      `json:"tier"`
	Profile     string      `json:"profile,omitempty"`
	BaseSeed    int64       `json:"base_seed"`
	Seed        uint64      `json:"seed"`
	RunIndex    int         `json:"run_index"`
	Config      any         `json:"config,omitempty"`
	Tape        []TapeEntry `json:"tape"`
	OrigTapeLen int         `json:"orig_tape_len"`
	Violation   *Violation  `json:"violation"`
	LogHash     string      `json:"event_log_sha256"`
	Minimised   bool        `json:"minimised"`
	MinSteps    int         `json:"minimise_replays,omitempty"`
	Events      []string    `json:"events,omitempty"`
}

func SortedKeys[V any](m map[string]V) []string {
	ks := make([]string, 0, len(m))
	for k := range m {
		ks = append(ks, k)
	}
	sort.Strings(ks)
	return ks
}
