package kit

// PropertySpec tells the runner how a property is served.
type PropertySpec struct {
	ID     string
	Engine string
	// Profiles are sub-configurations of the engine (e.g. "faultfree", "crash",
	// "byz"); the batch is split between them by weight. Empty = one profile "".
	Profiles []ProfileSpec
	// Runs / wall budget per tier. The batch stops at whichever comes first.
	QuickRuns, ThoroughRuns         int
	QuickBudgetS, ThoroughBudgetS   int
	Rule                            string   // how cases are generated and what makes one non-trivial/distinct
	EssentialProbes                 []string // must be > 0 in a thorough run, else exit 2 (toothless check)
	QuickProbes                     []string // must be > 0 even in a quick run
	CrashIsViolation                bool     // a reproducible panic/crash of the worker inside goloop code violates the property
	Assumptions                     []string
	Real, Stubbed                   []string
	DesignRef                       string
	LevelText, LevelNote, Technique string
}

type ProfileSpec struct {
	Name   string
	Weight int
}

var Registry = map[string]*PropertySpec{}

func Register(p *PropertySpec) { Registry[p.ID] = p }

// NotApplicable lists properties that are not claimed, with the reason.
var NotApplicable = [][2]string{}

// Pending: registered properties whose check is not claimed in MANIFEST.json yet.
var Pending = map[string]bool{}

// EngineInstrument lists, per engine, the /repo files whose mutex acquisitions and releases are turned
// into scheduling points at build time (kit/instrument; compile-time overlay, /repo is not modified).
var EngineInstrument = map[string][]string{}

// Hooks is the MANIFEST.hooks object.
var Hooks = map[string]any{
	"guard":            "verif",
	"enable":           "go build tag: engines are built with `go1.26.8 test -c -tags verif` against /repo (replace directive)",
	"baseline_off_cmd": "cd /repo && GOFLAGS=-mod=mod GOPROXY=off GOSUMDB=off go test -vet=off -count=1 -timeout 25m ./...",
	"source_commits":   []string{"42fbbfe", "4e19f92", "0a22d76", "5587c8f", "d938b0a", "1855161", "bd2bd85", "6cf8b72"},
	"add_only":         true,
}
