package specs

import "verif/sim/kit"

func init() {
	kit.Register(&kit.PropertySpec{
		ID: "C20", Engine: "syncsim",
		Profiles:  []kit.ProfileSpec{{Name: "deliver", Weight: 5}, {Name: "restart", Weight: 2}, {Name: "rawfaults", Weight: 2}, {Name: "sync2", Weight: 1}},
		QuickRuns: 8000, QuickBudgetS: 30, ThoroughRuns: 4000000, ThoroughBudgetS: 600,
		Rule: "one run = one tape-drawn source state built with the real world state in database A (2-4 accounts with storage tries, shared storage/code, contracts with current and next code and object graphs, " +
			"0-3 validators, a second generation of mutations so that A also holds stale nodes; layer 1 adds a plain bytes trie with short keys and an object trie whose leaves point at blobs) and an empty journaling database B. " +
			"Profiles deliver/restart (layer 1): real merkle.NewBuilder(B) + NewWorldSnapshotWithBuilder/Resolve from the trusted roots only; a delivery scheduler looks at Requests() and per step delivers, by tape: the correct value of any pending request, " +
			"a duplicate of a resolved value, a node of a foreign trie, random bytes, a genuine node nobody asked for yet, a forged value for a pending request (same length), a value under a hasher-less bucket; restart adds early Flush(true) and dirty restarts " +
			"(new builder over an empty store, or over what B holds = observation only). Profile rawfaults: the builder writes straight into B (merkle.NewBuilderWithRawDatabase, as sync2's no-buffer mode and the data syncers do) and a transient write error is injected into about one delivery in eight; relaxed oracle for a delivery hit by the fault: it must report an error, may have stored the value for only some of its buckets, and its request must stay outstanding; a transient READ error (the n-th Get/Has of the local store fails) is injected into about one delivery in eight as well and into 15% of the builder starts: what could not be read may be requested although present, a delivery or a start may fail loudly (the request stays outstanding / the start is repeated), nothing may be left out; everything else (store contents, 'nothing outstanding <=> complete', final equality) is judged as in the fault-free profiles. Oracles run after every delivery. Profile sync2 (layer 2): the real sync2 syncer/processor/reactors as client against 2-4 peers running the real sync2 reactors over A, " +
			"Byzantine peers' answers perverted on the wire (forged payload, wrong/foreign data, silence, duplicates, wrong request id), delivery order and clock advance by tape inside a synctest bubble. " +
			"Non-trivial = the sync completed and the final store/content comparison ran, after at least one adversarial delivery was refused (deliver), at least one flush or restart (restart), or at all (sync2); distinct = distinct event-log hash.",
		QuickProbes:     []string{"forged_rejected", "unrequested_rejected", "duplicate_delivery", "builder_restart", "complete_sync", "failed_delivery_kept_request"},
		EssentialProbes: []string{"forged_rejected", "unrequested_rejected", "duplicate_delivery", "builder_restart", "complete_sync", "early_flush", "sync2_complete", "resume_over_partial_store"},
		Assumptions: []string{
			"'starting from only a trusted root hash' = the local store is empty when a builder starts; a builder resumed over a partially written store is exercised but only observed (probes resume_over_partial_store / resume_over_partial_store_incomplete, see /verif/findings/C20-observation-resume-over-partial-store.md)",
			"the reference set of nodes of the trusted state comes from an independent raw walk of A (own RLP reader, own account-record decoder); it assumes the documented node layout (2-item leaf/extension, 17-item branch, embedded children as lists)",
			"both buckets in play (MerkleTrie, BytesByHash) use sha3-256; hash collisions are ignored",
			"layer 2 syncs what sync2's syncer takes: account trie and validator list (receipt and extension hashes empty); 'accepts iff requested' is observed directly only in layer 1, layer 2 checks what reaches B and that success implies completeness",
			"layer 2: every stimulus (delivery, join, tick) happens at its own instant of the fake clock so that no two sync2 timers share a deadline (same-deadline timer goroutines would be ordered by the Go scheduler); bounded liveness is not claimed: a run that does not finish within the step cap is counted (sync2_stalled) without a verdict",
		},
		Real: []string{"common/merkle builder (OnData, RequestData, Requests, UnresolvedCount, Flush)", "common/trie/ompt Resolve/nodeRequester for bytes and object tries", "service/state NewWorldSnapshotWithBuilder, accountSnapshot/contract/objectGraph/validator resolvers, world state construction",
			"common/db LayerDB and MapDB", "service/sync2 syncer.ForceSync/Finalize, syncProcessor, ReactorV1/ReactorV2 (client and serving side), peer, peerPool (profile sync2)"},
		Stubbed:   []string{"network overlay (engine-owned module.NetworkManager/ProtocolHandler: in-flight message list, tape-ordered delivery)", "wall clock (testing/synctest fake clock, profile sync2)", "Byzantine peers (honest reactors whose answers are rewritten on the wire)", "platform extension (none)"},
		DesignRef: "4.6",
		LevelText: "seeded exploration of delivery schedules (order, duplicates, premature/foreign/random/forged payloads, early flush, restart; for sync2 also peer joins, Byzantine answers, timeouts) against the real builder/trie/state resolvers and the real sync2 client; a clean batch is evidence over the sampled schedules, not a proof",
		LevelNote: "source states are small (10-80 nodes); the reference walk trusts the documented trie node layout; layer 2 relies on testing/synctest and on one-stimulus-at-a-time scheduling for exact replay (self-test: 300 seeds x 2-3 repetitions under load, 0 divergences)",
		Technique: "deterministic simulation: seeded source states and tape-driven adversarial delivery schedules, reference-model oracle after every delivery, Byzantine peers on a simulated network with a fake clock, tape minimisation and replay",
	})
}
