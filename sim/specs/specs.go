// Package specs registers, per property, which engine serves it and with what budget.
package specs

import "verif/sim/kit"

func init() {
	kit.Register(&kit.PropertySpec{
		ID: "C03", Engine: "walsim",
		QuickRuns: 1600, QuickBudgetS: 60, ThoroughRuns: 400000, ThoroughBudgetS: 600,
		Rule: "one run = one tape-drawn history of append/sync/tick/shift/close+reopen/crash operations on the real WAL (real files on tmpfs, fake clock); " +
			"at every crash ALL byte-level prefixes of the unsynced tail (plus 'new segment missing') are forked and each fork continues the remaining history " +
			"(sampled with frame-boundary bias only when a tail exceeds 700 unsynced bytes or in nested crashes; probe crash_prefixes_sampled_not_exhaustive counts those). " +
			"Non-trivial = at least one crash with at least one fork recovered and continued; distinct = distinct event-log hash (history + crash geometry).",
		QuickProbes:     []string{"wal_repair_executed", "crash"},
		EssentialProbes: []string{"wal_repair_executed", "segment_rotated", "unsynced_records_dropped", "crash_image:header-only", "crash_image:missing-new-segment"},
		Assumptions: []string{
			"crash model of the property statement: a crash keeps every synced byte and an arbitrary prefix of the bytes appended to the tail segment since the last sync; directory operations (create/truncate/remove) are durable",
			"TotalLimit is kept above anything a history writes, so head-segment deletion (not part of the statement) never fires",
			"tmpfs stands in for the disk: fsync is a no-op there, durability is modelled by the harness' floor bookkeeping",
			"recovery procedure is the one consensus.applyRoundWAL uses: read to EOF, CloseAndRepair on CorruptedWAL/UnexpectedEOF",
		},
		Real:      []string{"consensus/wal.go: OpenWALForWrite, WriteBytes, Sync, Shift, Close, housekeeping goroutine, OpenWALForRead, ReadBytes, CloseAndRepair", "os file system calls on /dev/shm"},
		Stubbed:   []string{"wall clock (testing/synctest fake clock)", "power loss (modelled by truncating copies of the segment files)"},
		DesignRef: "4.2",
		LevelText: "seeded exploration of WAL operation histories with every byte-level crash prefix of the unsynced tail enumerated per crash (forked and continued); a clean batch is evidence over the sampled histories, not a proof, though within each sampled history the crash-prefix dimension is exhaustive up to the stated caps",
		LevelNote: "trusts the harness' durability bookkeeping (floor = file size at the last acknowledged Sync/Shift/Close) and tmpfs as the file system; assumes ordered append-only persistence of the tail as in the property statement; head deletion (TotalLimit) excluded",
		Technique: "deterministic simulation: seeded histories + exhaustive crash-prefix fault injection on real WAL files, reference-model oracle, tape minimisation and replay",
	})
}
