package specs

import "verif/sim/kit"

// chainsim: replay protection (C11) and proposer-side block validity (C37).
func init() {
	// tracker and manager locks are scheduling points (kit/instrument): a list can be validated on one
	// goroutine while an ancestor is being finalised on another and waits for the flusher
	kit.EngineInstrument["chainsim"] = []string{"common/txlocator/manager.go"}
	kit.Register(&kit.PropertySpec{
		ID: "C11", Engine: "chainsim",
		Profiles: []kit.ProfileSpec{{Name: "faultfree", Weight: 5}, {Name: "crash", Weight: 3}, {Name: "faults", Weight: 2}, {Name: "transitions", Weight: 2}},
		// ~1 ms per history on one core; batches normally end on the run count, not the clock. Thorough run counts are capped
		// because the runner keeps every result (with its first 40 events) in memory: ~8 KB per run.
		QuickRuns: 24000, QuickBudgetS: 45, ThoroughRuns: 500000, ThoroughBudgetS: 600,
		Rule: "one run = one tape-drawn history over a TREE of blocks (height, timestamp, threshold): create a child logger under a chosen finalised-head or unfinalised block, " +
			"validate a transaction list on it (TXIDLogger.Add force=false, then the timestamp-range check of every transaction), commit a chosen unfinalised block (its ancestors are committed with it; " +
			"in a third of the commits with a pending descendant, that descendant's list is validated on a second goroutine started the moment the commit waits for the flusher: the locks of common/txlocator/manager.go are scheduling points), " +
			"let the background flusher perform 1..8 database writes (its every Set is a scheduled event, also inside another operation's database lookup), crash+restart the manager over the surviving database (profiles crash, faults), " +
			"inject a locator-bucket write error (profile faults). Lists mix fresh transactions with duplicates of the same list / an unfinalised ancestor at any depth / a finalised ancestor (cached, evicted-but-in-DB, being flushed) / a sibling branch; " +
			"timestamps are drawn on bts-th, bts-th+1, bts+th-1, bts+th, bts+th+1 of the block and of its ancestors; thresholds are constant, growing, shrinking or free along a chain; timestamps never decrease along a chain. " +
			"Profile transitions asks the same question of REAL service transitions: after a real genesis (chain SCORE installed, an externally owned governance account) a tree of service.NewTransition(alreadyValidated=false) objects on one TXIDManager; " +
			"every block is validated and executed by transition.Execute on its parent's state, before or after its ancestors are finalised (tape), finalised in block.Manager's order (FinalizeResult of the parent transition, then FinalizeNormalTransaction of the block); " +
			"the on-chain timestamp threshold is raised/lowered during the run by governance transactions (setTimestampThreshold), so the threshold of the state a block is validated on and the node-wide checker threshold (which follows finalised states) differ; " +
			"timestamps sit on the window edges of the block under its own, the previous and the checker's threshold and on ancestors' edges; duplicates (also of the governance transaction) are offered in descendants, preferably from the band between the two thresholds. " +
			"Non-trivial = the run validated at least one list containing a genuine replay attempt (an id already in the chain or earlier in the list whose timestamp is inside the validating block's window) and finalised at least one block; " +
			"distinct = distinct event-log hash (every operation with its block parameters, every list with ids/timestamps/placement kind/database lookups, every verdict, flusher progress).",
		QuickProbes: []string{
			"dup_rejected:unfinalised-ancestor", "dup_rejected:finalised-cached", "dup_rejected:finalised-evicted-in-db", "dup_rejected:finalised-being-flushed", "dup_rejected:same-list",
			"ts_edge:bts-th", "ts_edge:bts-th+1", "ts_edge:bts+th", "ts_edge:bts+th+1",
			"th_shrink_step", "th_grow_step", "dup_lookup_through_shrunk_threshold", "dup_lookup_after_grown_threshold",
			"manager_restart", "flush_error", "dup_at_holder_upper_edge", "add_overlaps_commit_of_ancestor",
			// profile transitions
			"threshold_changed_on_chain", "threshold_raised_on_chain", "threshold_lowered_on_chain",
			"block_validated_before_threshold_state_finalized", "block_validated_after_threshold_state_finalized",
			"block_validated_on_unfinalised_parent", "block_validated_on_finalised_parent",
			"tx_recorded_in_band_above_checker_threshold", "dup_in_band_above_checker_threshold",
		},
		EssentialProbes: []string{
			"dup_rejected:finalised-in-db-after-restart", "manager_restart_mid_flush", "commit_refused_after_flush_error",
			"parent_committed_before_child_logger", "parent_committed_between_child_logger_and_add", "parent_committed_after_child_add",
			"commit_finalised_ancestors_recursively", "sibling_branch_tx_accepted",
			"block_validated_before_lowered_threshold_state_finalized", "dup_of_governance_tx",
		},
		Assumptions: []string{
			"a block is accepted by the validation path iff TXIDLogger.Add(list, force=false) succeeds AND every transaction passes the timestamp-range check for (block time, threshold) — the two steps service/transition.go performs; the rest of transition validation (signature, balance) is outside this property and exercised under C37",
			"a node starts from a last finalised block recorded with force=true on a logger derived from the root logger and committed, as block.Manager does on start-up; the same procedure is the restart after a crash",
			"crash model: the process dies between two harness operations (the flusher may be in the middle of a list); every database write that returned survives, nothing else; unfinalised blocks are forgotten",
			"when a block is finalised, unfinalised blocks that do not descend from it are discarded (as a block manager does); the oracle is therefore never asked about dead branches",
			"after an injected write error the oracle tolerates refusals (failed Commit, refused valid list) but never an accepted duplicate; no restart is generated after a write error because the database is then known to be incomplete",
			"transaction ids are hashes of real signed v3 transfers, so a duplicate id always carries the original timestamp",
			"profile transitions: the window of a block is (bts-th, bts+th] with th = the timestamp threshold stored in the world state produced by its parent (read back from that state, never from the node-wide checker); fees are zero and balances ample so that only replay protection and the window decide validity; no crash/restart and no write errors in this profile",
		},
		Real: []string{
			"common/txlocator: manager (locator map, per-group list cache, maxTSInDB shortcut, eviction), trackers (Has/Add/New/Commit), the background flush goroutine and its job queue",
			"service/txidmanager.go: TXIDManager, TXIDLogger (NewLogger/Add/Commit/onCommit)", "service/tschecker.go: NewTimestampRange/CheckTxTimestamp, TxTimestampChecker",
			"service/transaction: v3 transactions parsed from signed JSON (secp256k1, RFC 6979), transaction lists", "common/db MapDB underneath the decorator",
			"profile transitions: service/transition.go (newInitTransition, NewTransition, Execute: ensureRecordTXIDs + validateTxs + execution, FinalizeTransition, onWorldFinalize -> TxTimestampChecker.SetThreshold), genesis transaction execution, basic platform chain SCORE (setTimestampThreshold via a signed governance call), transfer handler, world state over the trie",
		},
		Stubbed: []string{
			"database: simdb journaling decorator around db.NewMapDB (gates every locator-bucket Set of the flusher, can park a lookup's Get, injects Set errors, fences a crashed incarnation)",
			"goroutine scheduling of the flusher: it only advances when the driver grants a step (testing/synctest bubble for quiescence detection)",
			"block manager / consensus: the harness decides which blocks exist, when they are validated and when they are finalised",
			"profile transitions: module.Chain stub (Database/NID/CID/ConcurrencyLevel/Regulator/TransactionTimeout), no eeproxy, no network",
		},
		DesignRef: "4.4",
		LevelText: "seeded exploration of block-tree histories with duplicate placements, boundary timestamps, threshold changes, commit timings, flusher interleavings, manager restarts and write errors against a per-chain id-set reference; a clean batch is evidence over the sampled histories, not a proof",
		LevelNote: "profiles faultfree/crash/faults exercise the id-recording and timestamp-window steps of block validation directly on TXIDLogger/TimestampRange, profile transitions through full service transitions (without restarts or faults); crash points are between operations only; database faults are limited to write errors of the locator bucket",
		Technique: "deterministic simulation: tape-driven history generator, cooperative scheduling of the real flusher goroutine through a database decorator inside a synctest bubble, crash/restart and write-error injection, reference-model oracle, tape minimisation and replay",
	})

	kit.Register(&kit.PropertySpec{
		ID: "C37", Engine: "chainsim",
		QuickRuns: 6000, QuickBudgetS: 45, ThoroughRuns: 400000, ThoroughBudgetS: 600,
		Rule: "one run = one tape-drawn history on one node: clients hand fresh or re-submitted (pooled, dropped, already committed) signed transfers to TransactionManager.Add or straight to TransactionPool.Add, " +
			"with timestamps on the fake clock's now, now±th, now±th±1, now±th/2, now±2th, values up to the sender's whole balance and step limits around the minimum; the fake clock advances by 1us..2th+1; " +
			"transactions optionally carry 90/300/700 bytes of message data so that sizes differ; funding chains are submitted in which a rich account pays a (nearly) empty one (the funding transfer optionally carrying 200/600 bytes of data) and every recipient spends what it received; " +
			"a proposer builds the world context from the last finalised world snapshot and calls Candidate with an unlimited block byte budget or one drawn to end inside the pool (sizes of the first k pooled transactions -1/+0/+1/+half/+all-but-one byte of the next) and with count caps 1/2/4; the proposal is finalised, abandoned, or a foreign valid block is finalised instead " +
			"(RemoveTxs + RemoveOldTxByBlockTS as service.manager.Finalize does); the locator flusher advances only at scheduled points. Run parameters: threshold 1/2/5/50 ms, step price 0/1/10, default step cost 0/100/1000, pool size 4..64, 3-4 accounts with balances from 0 to ample. " +
			"Non-trivial = at least one proposal selected at least one transaction while the pool also held at least one transaction that must not be proposed (expired, future, committed, step limit too low, unaffordable at once or after the earlier selected ones); " +
			"distinct = distinct event-log hash.",
		QuickProbes: []string{
			"pool_had:expired", "pool_had:future", "pool_had:committed", "pool_had:unaffordable-after-earlier-selected", "pool_had:unaffordable-from-the-start", "pool_had:step-limit-too-low",
			"pool_had:ts==bts-th", "pool_had:ts==bts+th+1", "selected:ts==bts+th", "selected:ts==bts-th+1",
			"committed_tx_entered_pool", "proposal_with_several_txs", "block_finalised:own", "block_finalised:foreign",
			"byte_limit_hit_inside_pool", "tx_skipped_for_size", "count_limit_hit_inside_pool", "recipient_spends_received_funds", "funding_chain_submitted",
		},
		EssentialProbes: []string{"proposal_abandoned", "client_resubmits_committed_tx"},
		Assumptions: []string{
			"a proposal is always built on the last finalised block (consensus proposes height h+1 only after h is committed), so 'included before' means included in a finalised block",
			"the block's timestamp threshold is the one stored in the world state of the parent (constant within a run); threshold changes along a chain are exercised under C11",
			"base and double-sign-report transactions, patches and SCORE calls are not part of the proposals; transactions are plain value transfers between externally owned accounts",
			"the reference balance rule is the one of the statement: walking the list in order, the sender must hold value + stepLimit*stepPrice, which is then deducted, and the value is credited to the recipient",
		},
		Real: []string{
			"service/transactionpool.go (Add, Candidate, RemoveList, DropOldTXs, drop goroutine), service/transactionlist.go, service/transactionmanager.go (Add/VerifyTx, Candidate, RemoveTxs, RemoveOldTxByBlockTS)",
			"service/txidmanager.go with the real dropped-transaction cache (txidcache.go), service/tschecker.go, common/txlocator manager + flusher",
			"service/transaction/transaction_v3.go (Verify, PreValidate with update=true), real world state / world context / account states over the trie",
			"service/transition.go: NewTransition(alreadyValidated=false) validation (ensureRecordTXIDs, validateTxs), execution by the real transfer handler (basic platform), FinalizeTransition",
		},
		Stubbed: []string{
			"module.Chain (stub answering Database/NID/CID/ConcurrencyLevel/Regulator/TransactionTimeout), regulator, metrics monitor", "no eeproxy (no SCORE execution), no network, no block manager/consensus: the harness plays finaliser and proposer scheduler",
			"wall clock (testing/synctest fake clock)", "database: simdb decorator around MapDB (flusher gating)",
		},
		DesignRef: "4.4",
		LevelText: "seeded exploration of pool/finaliser/proposer histories; every Candidate output is re-validated as a block by an independent reference and by the real validation path of a service transition on the same parent; a clean batch is evidence over the sampled histories, not a proof",
		LevelNote: "single node, one operation at a time (the pool's own drop goroutine and the locator flusher are the only concurrency, both scheduled); proposals contain plain transfers only; needs service/export_verif.go (verif build tag) to share the TXIDManager between pool and transitions and to read a transition's world snapshot",
		Technique: "deterministic simulation: tape-driven client/finaliser/proposer generator on a fake clock, reference-model oracle plus differential oracle against the real block validation, tape minimisation and replay",
	})
}
