package specs

import "verif/sim/kit"

var netsimReal = []string{
	"consensus: engine (consensus.go), syncer, vote sets, commit vote lists, block part sets, WAL apply/repair, dsmLog",
	"consensus/wal.go on real files (tmpfs)", "block.Manager (import, propose, finalize, block encode/decode)",
	"service.Transition execution via the repo's test service manager (test/servicemanager.go) on basic.Platform",
	"consensus/fastsync manager, client and server (profiles fastsync and lag: a validator far behind catches up through it)", "common/txlocator manager",
}
var netsimStubbed = []string{
	"network overlay (simulated full-mesh transport: module.NetworkManager implemented by the harness)",
	"wall clock (testing/synctest fake clock)", "regulator (commit timeout drawn per run)", "database (in-memory map DB with clone-at-crash)",
	"SCORE execution engines (none; test transactions only)", "transaction gossip (harness hands transactions to a subset of nodes)",
}
var netsimAssume = []string{
	"process-crash model for the database: every completed DB write survives a crash; only the WAL has torn tails (an arbitrary prefix beyond the last acknowledged sync, or the full length with junk behind the header of an unsynced record)",
	"fewer than one third of the validators Byzantine in every validator set of the run; correct nodes keep their WAL and DB across restarts",
	"goroutine interleaving inside one node is explored at the granularity of the consensus and fast-sync mutexes (verif hook in common.Mutex); block-manager requests of the engine start at driver-chosen instants; engines run with GOMAXPROCS=1",
	"fast sync runs only in profiles fastsync and lag; elsewhere lag is kept below its threshold",
}

func init() {
	kit.Register(&kit.PropertySpec{
		ID: "C01", Engine: "netsim",
		Profiles:  []kit.ProfileSpec{{Name: "faultfree", Weight: 1}, {Name: "net", Weight: 2}, {Name: "crash", Weight: 3}, {Name: "byz", Weight: 3}, {Name: "lag", Weight: 2}},
		QuickRuns: 320, QuickBudgetS: 60, ThoroughRuns: 20000, ThoroughBudgetS: 900,
		Rule: "one run = one tape: cluster size, timeouts, latencies, fault rates, crash points, workload and every delivery/lock-grant order are drawn from it; profiles: faultfree, net (loss, duplication, reordering, corruption, partitions, late duplicates of whole old rounds, precommit starvation, split polkas), crash (1-5 crash-restarts at WAL/send/DB crash points with torn or junk WAL tails, double crashes), byz (equivocating votes, two VALID sibling proposals split between the validators, withholding, vote storms), lag (a running validator is cut off until it is 6-7 heights behind and catches up by fast sync); " +
			"non-trivial = every correct node finalized at least one height; distinct = distinct event-log hash (every send, delivery, drop, crash image, restart, lock-relevant delivery order and finalization).",
		QuickProbes:     []string{"target_reached"},
		EssentialProbes: []string{"target_reached", "crash", "torn_wal_tail", "restart", "partition", "drop", "duplicate", "validator_set_changed"},
		Assumptions:     netsimAssume, Real: netsimReal, Stubbed: netsimStubbed, DesignRef: "4.1",
		LevelText: "seeded exploration of cluster executions (network schedules, timeout orders, crash-restart with torn WAL tails, Byzantine validators below one third); agreement and quorum certificates are re-checked after every event from the harness' own record of the wire; evidence over sampled schedules, not proof",
		LevelNote: "trusts the simulated transport/clock/disk seams, the harness' signature recovery and wire registry; Byzantine behaviour is limited to the implemented menu",
		Technique: "deterministic simulation of a validator cluster with fault injection (loss, duplication, reordering, partitions, crash-restart with torn WAL, Byzantine validators), invariant oracles, tape minimisation and replay",
	})
	kit.Register(&kit.PropertySpec{
		ID: "C02", Engine: "netsim",
		Profiles:  []kit.ProfileSpec{{Name: "crash", Weight: 1}},
		QuickRuns: 240, QuickBudgetS: 60, ThoroughRuns: 20000, ThoroughBudgetS: 900,
		Rule: "crash-heavy cluster runs (1-5 crash-restarts per run, most at WAL write/sync crash points, torn round/lock/commit WAL tails or junk behind the header of an unsynced record, double crashes of one validator, restart into continued traffic); " +
			"oracle 1: at most one distinct signed content per (correct validator, height, round, kind) over everything that ever appeared on the wire from any node plus what a restarted validator finds in its own WAL image; " +
			"oracle 2: the validator's own vote/proposal is covered by an acknowledged sync of its round WAL at the moment it is handed to the network. " +
			"non-trivial = at least one crash-restart happened and every correct node finalized a height; distinct = distinct event-log hash.",
		QuickProbes:     []string{"crash", "restart", "own_vote_recovered_from_wal"},
		EssentialProbes: []string{"crash", "restart", "torn_wal_tail", "own_vote_recovered_from_wal", "crash@wal.sync.mid", "crash@wal.write.after", "crash@net.send.before", "crash@db.set.before"},
		Assumptions:     netsimAssume, Real: netsimReal, Stubbed: netsimStubbed, DesignRef: "4.1",
		LevelText: "seeded exploration of crash points (before/after WAL write, inside and after sync, before each send, before each DB write, between events) with torn WAL tails and restart into continued traffic; equivocation is decided from the harness' own registry of every signed message; evidence over sampled crash schedules, not proof",
		LevelNote: "trusts the WAL decorator's durability bookkeeping and the signature recovery of the registry; disk errors (failed write/sync) are not injected because the property quantifies over crash points",
		Technique: "deterministic simulation with crash-restart fault injection at WAL/send/DB crash points, torn-tail crash images, wire-registry oracle, tape minimisation and replay",
	})
	kit.Register(&kit.PropertySpec{
		ID: "C04", Engine: "netsim",
		Profiles:  []kit.ProfileSpec{{Name: "net", Weight: 2}, {Name: "storm", Weight: 3}},
		QuickRuns: 240, QuickBudgetS: 60, ThoroughRuns: 20000, ThoroughBudgetS: 900,
		Rule: "run-time monitor on the vote sets inside live validators: after every step in which a node ran, every (round, type) vote set is recounted slot by slot (exact 3k>2n arithmetic) and compared with what it reports " +
			"(+2/3-any, decision, at most one decision, decision persists while the set is not discarded); vote sequences come from the network schedule (loss, duplication, reordering, vote-list relays) and, in profile storm, from Byzantine validators that re-vote with conflicting decisions and fresh timestamps; " +
			"non-trivial = at least one vote set reached a decision and every correct node finalized a height; distinct = distinct event-log hash.",
		CrashIsViolation: true, // a vote set that panics while tallying reports nothing
		QuickProbes:      []string{"voteset_has_decision"},
		EssentialProbes:  []string{"voteset_has_decision", "byz_conflicting_vote_sent", "duplicate"},
		Assumptions:      netsimAssume, Real: netsimReal, Stubbed: netsimStubbed, DesignRef: "4.1",
		LevelText: "monitor-based exploration: the tally invariant is re-evaluated on the real vote sets of running validators under seeded network and Byzantine vote schedules; cluster sizes 1..7 cover every threshold residue; evidence over sampled vote histories, not proof",
		LevelNote: "reads the vote sets through a read-only verif accessor (consensus/export_verif.go); trusts the harness' recount",
		Technique: "deterministic simulation with Byzantine vote storms and network faults, invariant monitor on live vote sets, tape minimisation and replay",
	})
	forge := func(id, what, class string, probes []string) {
		kit.Register(&kit.PropertySpec{
			ID: id, Engine: "netsim",
			Profiles:  forgeProfiles(id),
			QuickRuns: 240, QuickBudgetS: 60, ThoroughRuns: 20000, ThoroughBudgetS: 900,
			Rule: "cluster runs with 1-2 Byzantine validators (f < n/3) that are real nodes behind an adversarial proxy: whenever a Byzantine validator is the legitimate proposer the proxy may swap its block for a forged one (" + what + "), re-signs proposal and block parts and votes for the forgery; network faults as in the net profile. " +
				"Oracle: a correct validator that signs a non-nil vote for a forged part set has accepted the block at import; that must never happen for a forgery the harness' own verifier judges invalid (class " + class + "). " +
				"non-trivial = at least one forged block was proposed and every correct node finalized a height; distinct = distinct event-log hash.",
			QuickProbes:      probes[:1],
			EssentialProbes:  probes,
			CrashIsViolation: id == "C08" || id == "C05", // a node that crashes on a forged block has not rejected it
			Assumptions:      netsimAssume, Real: netsimReal, Stubbed: netsimStubbed, DesignRef: "4.1",
			LevelText: "seeded exploration of chains of several heights in which Byzantine proposers inject forged candidate blocks into a running validator cluster (import happens inside the real consensus/ block-manager path, under message loss, duplication and reordering); acceptance is observed on the wire; evidence over the implemented forgery menu and sampled schedules, not proof",
			LevelNote: "forgery menu is finite (listed in DESIGN.md 4.1); the fast-sync entry path is driven by profile fastsync (a late-booting validator that can only reach a lying Byzantine fast-sync server: forged proofs, sibling blocks, block parts withheld so that it waits in the commit step); for proposed blocks acceptance is inferred from non-nil votes of correct validators (a vote for a block is only cast after its import succeeded)",
			Technique: "deterministic simulation with Byzantine proposers (forged blocks) and network fault injection, independent certificate/field verifier as oracle, tape minimisation and replay",
		})
	}
	forge("C05", "commit vote lists with removed, duplicated, foreign-key, other-round, bit-flipped, previous-height, empty or re-timed items; vote hash and timestamp recomputed so that the certificate is the only defect; sizes on both sides of the 2/3 threshold", "bad-certificate-accepted",
		[]string{"byz_forged_block:minus-to-2/3", "byz_forged_block:duplicate", "byz_forged_block:foreign-key", "byz_forged_block:bitflip", "byz_forged_block:empty", "byz_forged_block:time-shift", "byz_forged_block:minus-to-2/3+1", "forged_but_valid_block_accepted"})
	forge("C07", "single-field deviations: height+-1, previous id random or grandparent, version, timestamp +-1 microsecond around the median of the commit votes, timestamp equal to or below the parent's", "deviant-block-accepted",
		[]string{"byz_forged_block:timestamp+1", "byz_forged_block:timestamp-1", "byz_forged_block:height+1", "byz_forged_block:previd-random", "byz_forged_block:previd-extended", "byz_forged_block:version", "byz_forged_block:timestamp=parent"})
	forge("C08", "encodings whose body does not match the header hashes (votes, transactions, BTP digest, body of another block), random bytes, truncated encodings, single byte flips", "unbound-or-malformed-block-accepted",
		[]string{"byz_forged_block:byteflip", "byz_forged_block:votes-hash-mismatch", "byz_forged_block:tx-body-swap", "byz_forged_block:random-bytes", "byz_forged_block:truncated"})
	kit.Register(&kit.PropertySpec{
		ID: "C06", Engine: "netsim",
		Profiles:  []kit.ProfileSpec{{Name: "byz", Weight: 1}, {Name: "storm", Weight: 2}},
		QuickRuns: 240, QuickBudgetS: 60, ThoroughRuns: 20000, ThoroughBudgetS: 900,
		Rule: "cluster runs with equivocating Byzantine validators (conflicting prevotes/precommits/proposals to disjoint peers, re-votes with fresh timestamps, replays of old rounds and heights, duplicates); every double-sign report a correct node issues to its service manager is decoded by the harness and must be a genuine conflict (same signer, height, round, type, compatible network, different signed content); " +
			"non-trivial = at least one Byzantine conflicting message was sent and every correct node finalized a height; distinct = distinct event-log hash.",
		QuickProbes:     []string{"byz_conflicting_vote_sent"},
		EssentialProbes: []string{"byz_conflicting_vote_sent", "double_sign_report_checked"},
		Assumptions:     append(append([]string{}, netsimAssume...), "only the 'reported' half of the property is decided here (evidence produced by the consensus double-sign log); acceptance of double-sign-report transactions by the ICON platform's DSR handler is not driven because the simulated chain runs the basic platform (stated in DESIGN.md)"),
		Real:            netsimReal, Stubbed: netsimStubbed, DesignRef: "4.1",
		LevelText: "seeded exploration: evidence emitted by running validators under Byzantine equivocation and network duplication is re-judged by an independent decoder; evidence over sampled schedules, not proof",
		LevelNote: "covers the reporting side (dsmLog -> SendDoubleSignReport); the transaction-acceptance side (DSR transaction PreValidate / DSRHandler) is outside this engine",
		Technique: "deterministic simulation with Byzantine equivocation and duplication faults, independent evidence decoder as oracle, tape minimisation and replay",
	})
}

func forgeProfiles(id string) []kit.ProfileSpec {
	if id == "C05" {
		// the fast-sync entry: a laggard validator catching up through a lying fast-sync server
		return []kit.ProfileSpec{{Name: "forge", Weight: 3}, {Name: "fastsync", Weight: 2}}
	}
	return []kit.ProfileSpec{{Name: "forge", Weight: 1}}
}
