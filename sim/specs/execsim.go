package specs

import "verif/sim/kit"

func init() {
	// lock sites of the executor's shared error latch are scheduling points (kit/instrument): a worker can be
	// held between committing its transaction and reporting its error, the dispatcher between reading the
	// latch and acting on it
	kit.EngineInstrument["execsim"] = []string{"service/transition_pe.go", "service/state/worldvirtualstate.go"}
	real := []string{
		"service.NewInitTransition / NewTransition / Execute / FinalizeTransition (transition.go doExecute, receipt aggregation, treasury credit)",
		"service/transition_se.go executeTxsSequential (retry loop) and service/transition_pe.go executeTxsConcurrent (dispatcher, executionContext)",
		"service/state worldvirtualstate (GetFuture/applyLockRequests/getAccountStateInLock/Commit/Realize/Reset), worldcontext, worldstate, account, ompt tries on a MapDB",
		"service/transaction transaction_v3 + transactionHandler (fee logic), contract.TransferHandler, CallHandler/TransferAndCallHandler, callcontext/callframe",
		"service/platform/basic platform and chain SCORE (genesis installs revision, step price, step costs, step limits)",
		"genesis transaction (real), signed v3 transactions built from JSON and verified with the real Verify()",
	}
	_ = "profiles: plain = no injected handler error; faults = handler errors injected by the harness"
	stubbed := []string{
		"module.Chain: harness chain object (ConcurrencyLevel drawn from {1,2,3,4,8}; transaction timeout 24h so that no timer ever decides)",
		"Go scheduler: which parked transaction goroutine proceeds at each yield point is a tape choice; quiescence by runtime.Stack introspection at GOMAXPROCS=1",
		"SCORE execution engines (none): contract behaviour comes from a harness-registered native system SCORE (contract.RegisterSystemScore)",
		"scripted transactions: own transaction type registered through transaction.RegisterFactory, own handler (declares locks - also on cells it never touches -, reads/writes cells, may be empty, may fail before any access, may return handler errors)",
		"harness asynchronous contract (contract-manager decorator returns a harness AsyncContractHandler for one address): mutates state in its own frame, then has the call context run a REAL CallHandler of a read-only or writable method of the harness system SCORE through cc.OnCall, whose answer is ok / revert / the timeout status an execution engine reports; handleResult, popFrame, cleanUpFrames, fee charge and receipt are goloop's",
		"schedule shaping: optionally one transaction is starved after a drawn number of its turns (released only when nothing else can run), so that later transactions run and commit while an earlier one is still parked",
		"validation phase skipped (transitions are created alreadyValidated=true, as for locally proposed blocks)",
	}
	assume := []string{
		"yield granularity: scripted handlers yield before and right after every world-state call and before returning; real v3 handlers yield at start, after touching each declared account, after the real Execute, and between the operations of the harness SCORE; the dispatcher of executeTxsConcurrent yields each time it asks the block's transaction list for the next transaction (so it is a scheduled task too); interleavings below that granularity (inside one real handler call, inside worldvirtualstate's own critical sections) are not chosen by the tape",
		"every transaction's stepLimit is at least default + input cost (what PreValidate enforces); insufficient balance is NOT excluded (blocks are executed alreadyValidated=true so that the out-of-balance branches are reachable)",
		"no fee sharing / deposits (statement of C15), no open BTP network (BTP messages are only emitted by harness SCORE programs that end in failure)",
		"handler errors (system failures) are injected by the harness wrapper/handler; retry-then-success uses at most 2 failing attempts (goloop retries twice)",
	}
	technique := "deterministic simulation: tape-drawn blocks and tape-chosen goroutine schedules over the real executors, injected handler errors, reference = sequential executor + independent interpreter, tape minimisation and replay"
	note := "schedules are explored at yield-point granularity only (see assumptions); a clean batch is evidence over the sampled blocks x schedules, not a proof; relies on runtime.Stack goroutine-state introspection at GOMAXPROCS=1 for quiescence (self-tested for exact replay on the unchanged tree, on the proposed-fix tree, on three lock-discipline-breaking mutants and under -race); " +
		"the race-detector pass of DESIGN 3.6(c) is available as `./check.sh C09 thorough -race` but is not part of the registered thorough command (the runner has no per-property switch for it)"

	kit.Register(&kit.PropertySpec{
		ID: "C09", Engine: "execsim",
		// "plain": no handler error is ever injected (every block must succeed); "faults": handler errors injected
		// (finite retryable ones relax "the block must succeed" to "same outcome as the sequential executor")
		Profiles:  []kit.ProfileSpec{{Name: "plain", Weight: 2}, {Name: "faults", Weight: 3}},
		QuickRuns: 6000, QuickBudgetS: 45, ThoroughRuns: 400000, ThoroughBudgetS: 660,
		// "identical to executing one by one ... for every goroutine schedule": a schedule under which the
		// executing process dies is not identical to the sequential execution (which the same run performs afterwards)
		CrashIsViolation: true,
		Rule: "one run = one tape-drawn world (3-6 funded accounts, 2-5 script cells, step price/costs) and block (1-12 transactions: scripted read/write programs with account/world lock declarations, v3 transfers/messages, harness SCORE calls; retry-then-success handler errors) executed on a fresh base at a drawn ConcurrencyLevel under a tape-chosen goroutine schedule, and again on an identical fresh base by the sequential executor. " +
			"Scripted programs include empty ones, ones that fail before any access and ones declaring write locks on cells they never touch; real transfers may run without the wrapper touching their accounts first (a transfer failing its balance check never accesses the recipient it locked). Non-trivial = level > 1, both executions succeeded and at least one scheduling decision had >= 2 parked candidates; distinct = distinct event-log hash (world, block, every scheduling decision and every read/write observed).",
		QuickProbes:     []string{"schedule_choice", "world_lock_tx", "waited_on_predecessor", "retry_then_success_concurrent", "commit_waited_for_untouched_account", "untouched_write_lock_script", "untouched_write_lock_transfer", "empty_or_aborted_script", "starved_transaction"},
		EssentialProbes: []string{"schedule_choice", "world_lock_tx", "waited_on_predecessor", "retry_then_success_concurrent", "insufficient_balance", "out_of_step", "revert_after_mutation", "commit_waited_for_untouched_account", "untouched_write_lock_script", "untouched_write_lock_transfer", "starved_transaction"},
		Assumptions:     assume,
		Real:            real,
		Stubbed:         stubbed,
		DesignRef:       "4.3",
		LevelText:       "seeded exploration of blocks x goroutine schedules (tape-chosen at harness yield points) of the real concurrent executor, compared with the real sequential executor on an identical base and with an independent interpreter (every scripted read must see the latest earlier write in block order); deadlock = violation",
		LevelNote:       note,
		Technique:       technique,
	})
	kit.Register(&kit.PropertySpec{
		ID: "C10", Engine: "execsim",
		// "plain": no handler error is ever injected (every block must succeed); "faults": handler errors injected
		// (finite retryable ones relax "the block must succeed" to "same outcome as the sequential executor")
		Profiles:  []kit.ProfileSpec{{Name: "plain", Weight: 1}, {Name: "faults", Weight: 5}},
		QuickRuns: 2400, QuickBudgetS: 45, ThoroughRuns: 400000, ThoroughBudgetS: 660,
		CrashIsViolation: true,
		Rule: "same generator as C09 with handler errors injected into ~30% of the transactions at a drawn position: retryable (ExecutionFailError / CriticalRerunError) for the first 1-2 attempts, retryable on every attempt (retry-exhausted) or non-retryable; both executor modes (level 1 and level > 1 each scheduled by the tape, plus the unscheduled sequential reference). " +
			"Non-trivial = at least one injected handler error actually fired; distinct = distinct event-log hash.",
		QuickProbes:     []string{"handler_error_fatal", "handler_error_retry_exhausted", "handler_error_retryable", "retry_then_success", "block_failed", "concurrent_executor", "sequential_executor"},
		EssentialProbes: []string{"handler_error_fatal", "handler_error_retry_exhausted", "handler_error_retryable", "handler_error_rerun", "retry_then_success", "block_failed", "block_failed_concurrent", "concurrent_executor", "sequential_executor"},
		Assumptions:     assume,
		Real:            real,
		Stubbed:         stubbed,
		DesignRef:       "4.3",
		LevelText:       "seeded exploration of failing-transaction positions x failure kinds x executor modes x schedules: OnExecute(nil) must come with exactly one non-nil receipt per transaction in block order, a retry-exhausted or non-retryable handler error must fail the block in both modes, and a crash of the executing process is a violation",
		LevelNote:       note,
		Technique:       technique,
	})
	kit.Register(&kit.PropertySpec{
		ID: "C15", Engine: "execsim",
		// "plain": no handler error is ever injected (every block must succeed); "faults": handler errors injected
		// (finite retryable ones relax "the block must succeed" to "same outcome as the sequential executor")
		Profiles:  []kit.ProfileSpec{{Name: "plain", Weight: 3}, {Name: "faults", Weight: 2}},
		QuickRuns: 2400, QuickBudgetS: 45, ThoroughRuns: 400000, ThoroughBudgetS: 660,
		Rule: "same generator biased to v3 transfers/messages and value-carrying SCORE calls with drawn balances (rich, about-a-fee, tiny, zero), values (small, zero, none, about the balance, above it), step limits (comfortable, minimum, just above, just beyond what the balance pays) and step price (0, 1, 7, 10, 12.5e9); retried transactions included. Checked on the scheduled execution and on the sequential one. " +
			"Non-trivial = at least one fee-paying transaction executed at a non-zero step price; distinct = distinct event-log hash.",
		QuickProbes:     []string{"insufficient_balance", "out_of_step", "success_receipt", "retry_then_success"},
		EssentialProbes: []string{"insufficient_balance", "out_of_step", "success_receipt", "retry_then_success", "concurrent_executor", "sequential_executor"},
		Assumptions:     assume,
		Real:            real,
		Stubbed:         stubbed,
		DesignRef:       "4.3",
		LevelText:       "seeded exploration of blocks checked against an accounting model: per attempt (observed through the transaction's own context before and after the real handler) and over the block (payer charged stepUsed*stepPrice with minimum <= stepUsed <= stepLimit plus value iff success, recipient credited iff success, treasury delta = sum of fees, sum of balances unchanged, no negative balance, a retried transaction not charged twice)",
		LevelNote:       note,
		Technique:       technique,
	})
	kit.Register(&kit.PropertySpec{
		ID: "C16", Engine: "execsim",
		// "plain": no handler error is ever injected (every block must succeed); "faults": handler errors injected
		// (finite retryable ones relax "the block must succeed" to "same outcome as the sequential executor")
		Profiles:  []kit.ProfileSpec{{Name: "plain", Weight: 3}, {Name: "faults", Weight: 2}},
		QuickRuns: 2400, QuickBudgetS: 45, ThoroughRuns: 400000, ThoroughBudgetS: 660,
		Rule: "same generator biased to calls into the harness SCORE whose program writes storage, read-modify-writes storage, emits event logs, sends BTP messages, transfers value out by inter-call and then succeeds / reverts / exhausts the steps / makes an invalid inter-call / panics, with drawn (sometimes tight) step limits, plus calls to the harness asynchronous contract (mutate, then inter-call a read-only or writable method whose answer makes the call context unwind with cleanUpFrames or popFrame), plus failing transfers; retried transactions included. " +
			"Non-trivial = at least one failed receipt; distinct = distinct event-log hash.",
		QuickProbes:     []string{"failed_receipt", "failed_after_partial_mutation", "revert_after_mutation", "out_of_step", "success_with_event_logs", "cleanup_under_readonly_callee_after_mutation", "cleanup_under_writable_callee_after_mutation", "async_writer_success"},
		EssentialProbes: []string{"failed_receipt", "failed_after_partial_mutation", "revert_after_mutation", "out_of_step", "insufficient_balance", "success_with_event_logs", "retry_then_success", "cleanup_under_readonly_callee_after_mutation", "cleanup_under_writable_callee_after_mutation", "async_writer_success"},
		Assumptions:     assume,
		Real:            real,
		Stubbed:         stubbed,
		DesignRef:       "4.3",
		LevelText:       "seeded exploration of partially-mutating-then-failing transactions: for every failed receipt the accounts observed through the transaction's own context differ from before only in the payer's balance (by the fee), the receipt has no event logs and no BTP messages, and the final state equals the independent interpreter's (which applies nothing but the fee for a failed transaction)",
		LevelNote:       note,
		Technique:       technique,
	})
}
