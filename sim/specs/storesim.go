package specs

import "verif/sim/kit"

// storesim: C14 (world state), C17 (ompt trie), C19 (layered DB), C27 (merkle accumulator).
func init() {
	const technique = "deterministic simulation: tape-drawn operation histories against the real store and an in-memory reference model (S3-ShardStore style), with flush / clear-cache / reload-from-DB / dirty-restart as generated operations and injected DB errors through a journaling DB decorator (simdb); tape minimisation and replay"
	simdbReal := "common/db/map_db.go (MapDB is the store behind simdb)"
	simdbStub := "database backend: simdb = journaling/error-injecting decorator around goloop's MapDB (no LevelDB/RocksDB on-disk format); a dirty restart keeps exactly the completed Set/Delete calls (process-crash model, no power-loss reordering)"

	kit.Register(&kit.PropertySpec{
		ID: "C17", Engine: "storesim",
		Profiles:  []kit.ProfileSpec{{Name: "faultfree", Weight: 3}, {Name: "faults", Weight: 1}},
		QuickRuns: 24000, QuickBudgetS: 40, ThoroughRuns: 1500000, ThoroughBudgetS: 540,
		Rule: "one run = one tape-drawn history (15-70 operations quick, 30-160 thorough) of set/delete/get/snapshot/check-snapshot/flush/clear-cache/reload/reset/dirty-restart/fresh-view on one ompt trie for bytes over a journaling DB, keys of 0-6 bytes drawn from a per-run pool built over a 6-byte alphabet with extension/truncation/sibling derivation (shared prefixes down to the nibble), values of 1-100 bytes (embedded and hashed nodes). " +
			"Every Set/Delete/Get result is compared with a Go map; full comparisons (every pool key, full iteration, 1-3 prefix filters, Empty, root hash against a from-scratch sorted rebuild, stability of earlier snapshot hashes) run at tape-chosen points, after flush/restart through a fresh view on the DB, and on the mutable and every live snapshot at the end. " +
			"Non-trivial = at least 3 effective mutations and at least one full comparison; distinct = distinct event-log hash (operations, keys, values, results, per-operation DB access counts).",
		QuickProbes:     []string{"delete_collapses_branch", "collapse_into_extension", "collapse_with_db_load", "split_extension", "split_leaf", "branch_value_set", "dirty_restart_with_flushed_root", "reload_mutable_from_db", "reload_fresh_view", "snapshot_compared_after_later_mutation", "mutation_on_reloaded_trie", "clear_cache_mutable", "flush_error_then_retry_ok", "reset_after_mutation", "filter_proper_subset", "trie_emptied"},
		EssentialProbes: []string{"mutation_aborted_by_injected_error", "error_surfaced_after_injection", "clear_cache_flushed", "mutable_from_immutable", "set_same_value", "delete_absent_key"},
		Assumptions: []string{
			"values are non-empty byte strings (goloop callers turn an empty value into a delete; an empty value stored in a branch does not survive serialisation)",
			"the DB is a process-crash durable store: a completed Set survives a dirty restart, nothing is reordered or torn",
			"faults profile only: a Set/Delete that returns an injected read error leaves the mutable trie undefined (the run continues from the newest snapshot); reads and Flush under injected errors may fail but never return wrong data, and an acknowledged Flush must be complete",
			"the optional trie node cache (common/trie/cache) is not attached",
		},
		Real:      []string{"common/trie/ompt: mpt.go, branch.go, extension.go, leaf.go, hash.go, node.go, mptforbytes.go, rlp.go (NewMutable/NewImmutable/NewMutableFromImmutable, Set/Delete/Get, GetSnapshot, Reset, Flush, ClearCache, Iterator, Filter, Hash, Empty)", simdbReal},
		Stubbed:   []string{simdbStub, "trie node cache (not attached)"},
		DesignRef: "4.5",
		LevelText: "seeded exploration of operation histories on the real trie against a map model, with canonical-form root comparison, dirty restarts and injected DB errors; a clean batch is evidence over the sampled histories, not a proof",
		LevelNote: "canonical form is established by rebuilding with the same trie code in sorted insertion order (order/flush/reload independence is what the property states; a hash function that is wrong but self-consistent would not be noticed); keys up to 6 bytes, at most 20 distinct keys per run; single client",
		Technique: technique,
	})

	kit.Register(&kit.PropertySpec{
		ID: "C14", Engine: "storesim",
		Profiles:  []kit.ProfileSpec{{Name: "faultfree", Weight: 3}, {Name: "faults", Weight: 1}},
		QuickRuns: 12000, QuickBudgetS: 40, ThoroughRuns: 1300000, ThoroughBudgetS: 540,
		Rule: "one run = one tape-drawn history (15-60 operations quick, 30-140 thorough) over state.NewWorldState with 4 accounts whose trie keys share prefixes: balance / storage set+delete / contract init+owner / block+disable flags / contract life cycle (deploy a next code version, activate it as the deploy handler does before the on-install call, accept or reject it by its deploy transaction, wrong-transaction and wrong-state audits that must be refused without effect, object graph of the current code) / Clear, account reads through AccountState and AccountSnapshot (handles reused or re-fetched by tape), GetSnapshot, check-snapshot, Reset, ClearCache, Flush, reload (NewWorldState, NewWorldSnapshot+WorldStateFromSnapshot, WorldStateFromSnapshot of a live snapshot), dirty restart, held AccountSnapshots re-read later. " +
			"Reference = array of account records copied at every snapshot; every live world snapshot is re-read in a tape-chosen account order (optionally through NewReadOnlyWorldState) and its StateHash compared with its first value and with a world state rebuilt from scratch from the logical contents (non-empty accounts only). " +
			"Non-trivial = at least 3 effective mutations and at least one full snapshot comparison; distinct = distinct event-log hash (operations, arguments, results; no DB access counts because worldstate.go walks its cache in Go map order).",
		QuickProbes:     []string{"snapshot_compared_after_later_mutation", "account_snapshot_compared_after_later_mutation", "reset_after_mutation", "account_emptied_again", "dirty_restart_with_flushed_root", "reload_world_from_db", "reload_fresh_view", "clear_cache", "flush_error_then_retry_ok", "touch_empty_account", "storage_emptied", "read_through_readonly_worldstate", "world_from_snapshot_object", "account_handle_reused", "contract_deployed", "contract_accepted", "contract_next_activated", "contract_rejected", "object_graph_set"},
		EssentialProbes: []string{"error_surfaced_after_injection", "set_empty_value"},
		Assumptions: []string{
			"account universe of 4 ids, 6 storage keys; validators, extension and BTP parts of the world state stay empty",
			"an account is empty when balance is 0, storage is empty, it is not a contract and no flag is set; AccountState handles are re-fetched after ClearCache/reload (handles obtained before are orphaned by design)",
			"faults profile: write errors only during WorldSnapshot.Flush (all writes fail, or only the root node of the account trie) and read errors only inside AccountSnapshot.GetValue; read errors while an account is being loaded are not injected because worldstate.go logs and swallows them (the statement does not quantify over I/O errors)",
			"process-crash durable DB (see C17)",
		},
		Real:      []string{"service/state/worldstate.go, account.go, readonlyworldstate.go (NewWorldState, GetAccountState/Snapshot, GetSnapshot, Reset, ClearCache, Flush, NewWorldSnapshot, WorldStateFromSnapshot, NewReadOnlyWorldState)", "common/trie/ompt (account trie for objects and per-account storage tries), common/trie/trie_manager", simdbReal},
		Stubbed:   []string{simdbStub, "validator/extension/BTP state: empty", "contract code deployment, deposits, object graph: not exercised"},
		DesignRef: "4.5",
		LevelText: "seeded exploration of world-state operation histories against a value-copied reference model, with snapshot re-reads after later mutations, canonical state-hash rebuild, dirty restarts and injected flush/read errors; evidence over sampled histories, not a proof",
		LevelNote: "canonical hash is established by rebuilding with goloop's own world state from the logical contents in a fixed order; 4 accounts; single client",
		Technique: technique,
	})

	kit.Register(&kit.PropertySpec{
		ID: "C19", Engine: "storesim",
		Profiles:  []kit.ProfileSpec{{Name: "faultfree", Weight: 2}, {Name: "faults", Weight: 1}, {Name: "concurrent", Weight: 2}},
		QuickRuns: 40000, QuickBudgetS: 40, ThoroughRuns: 2000000, ThoroughBudgetS: 540,
		Rule: "single-client profiles: one run = a prefilled underlying store, then 10-50 (thorough 20-120) tape-drawn operations set/delete/get/has over 3 buckets x 6 keys through db.NewLayerDB, direct writes to the underlying store below the layer, full comparisons (layer view and underlying store against the overlay model, journal replay), Flush(true)/Flush(false), new layers after a commit, and a final commit or discard; 'faults' adds write errors during Flush(true) (commit must report them, the underlying store may then hold old or pending values until a retried commit succeeds) and read errors. " +
			"concurrent profile: 2-3 client tasks with scripted set/delete/get/has/commit/discard on 2 buckets x 1-3 keys, scheduled one at a time by the tape (token scheduler; tasks park before each invoke, inside every underlying DB access and while a bucket of the underlying store is being opened; a task blocked on a layer lock held by a parked task is detected by goroutine-state introspection), invoke/return stamped with the event sequence number, per-key histories checked by porcupine against a register (discard = write of the base value), plus 'no underlying write before a commit is invoked' and 'underlying = view after a successful commit'. " +
			"Non-trivial = (single) at least 3 layer operations and one commit/discard; (concurrent) at least 6 operations with at least one overlapping pair of operations of different tasks. Distinct = distinct event-log hash.",
		QuickProbes:     []string{"commit_nonempty_layer", "discard_nonempty_layer", "delete_after_set_in_layer", "set_after_delete_in_layer", "delete_absent_key", "delete_shadows_underlying", "underlying_changed_below_layer_write", "commit_error_then_retry_ok", "commit_error_returned", "overlapping_operations", "task_blocked_on_lock_of_parked_task", "concurrent_commit", "concurrent_discard"},
		EssentialProbes: []string{"discard_refused_after_commit", "empty_value", "commit_again", "error_surfaced_after_injection"},
		Assumptions: []string{
			"the caller does not modify slices returned by Get (the layer returns its internal buffer)",
			"after a failed commit the statement's 'all-or-nothing' is relaxed as in DESIGN 4.5: the underlying store may hold, per key, the old value or a value the layer had pending at a failed attempt, until a retried commit succeeds; the layered view must stay intact meanwhile",
			"concurrent profile: no injected errors; porcupine timeouts (Unknown) are counted as a metric and never reported",
		},
		Real:      []string{"common/db/layer_db.go (NewLayerDB, layerBucket Get/Has/Set/Delete, Flush(true|false), GetBucket)", simdbReal},
		Stubbed:   []string{simdbStub, "goroutine scheduling of the client tasks: cooperative token scheduler driven by the tape (GOMAXPROCS=1)"},
		DesignRef: "4.5",
		LevelText: "seeded exploration of layered-DB histories against an overlay model, with commit write-error injection and tape-scheduled concurrent clients checked for per-key linearizability (porcupine); evidence over sampled histories and schedules, not a proof",
		LevelNote: "interleavings are explored at the granularity of operation invocations and underlying DB accesses (a task woken by an unlock runs unchosen until its next parking point); 2-3 clients, at most 12 operations each",
		Technique: technique + "; porcupine v1.3.0 linearizability checker for the concurrent profile",
	})

	kit.Register(&kit.PropertySpec{
		ID: "C27", Engine: "storesim",
		Profiles:  []kit.ProfileSpec{{Name: "faultfree", Weight: 3}, {Name: "faults", Weight: 1}},
		QuickRuns: 6000, QuickBudgetS: 40, ThoroughRuns: 400000, ThoroughBudgetS: 540,
		CrashIsViolation: true,
		Rule: "one run = one tape-drawn history (8-40 operations quick, 15-80 thorough) on mta.Accumulator over a journaling DB: AddData/AddHash in bursts of 1-64 items (lengths 0-320, so every carry pattern of the binary counter up to 2^8 occurs), WitnessFor+Verify for sampled or all indices, Flush, Flush+Recover into a fresh accumulator (same witnesses), dirty restart (Recover must yield the state of the last Flush), with a final verify-all / Flush / Recover / verify-all. " +
			"Every witness is checked independently (fold to the root of the item's mountain computed from the item list; length = mountain height), by goloop's Verify, and Verify must reject it for another item hash; any panic is a violation. " +
			"Non-trivial = length >= 2 reached and >= 2 witnesses checked; distinct = distinct event-log hash.",
		QuickProbes:     []string{"carry_1", "carry_2", "carry_3", "carry_4", "verified_all"},
		EssentialProbes: []string{"carry_5", "carry_6", "length_ge_128", "verified_all_with_empty_slot", "flush_with_empty_slot", "recover_with_empty_slot", "witness_resolved_from_db", "dirty_restart_with_flushed_state", "dirty_restart_lost_unflushed", "flush_error_then_retry_ok", "add_hash"},
		Assumptions: []string{
			"items appended with AddHash are leaves whose data the accumulator never stores (only AddData leaves are written by Flush)",
			"faults profile: an injected write error makes Flush fail (state of the last successful Flush stays recoverable), injected read errors make WitnessFor/Recover fail; neither may corrupt the accumulator",
			"process-crash durable DB (see C17)",
		},
		Real:      []string{"common/trie/mta/accumulator.go (AddData, AddHash, WitnessFor, Verify, Flush, Recover, Len)", simdbReal},
		Stubbed:   []string{simdbStub},
		DesignRef: "4.5",
		LevelText: "seeded exploration of accumulator histories over all lengths 0-320 against an independent merkle-mountain-range computation, with persist/recover cycles, dirty restarts and injected DB errors; evidence over sampled histories, not a proof",
		LevelNote: "the hash function (SHA3-256 of left||right) is taken from goloop; everything else (mountain layout, witness folding, lengths) is recomputed independently",
		Technique: technique,
	})
}
