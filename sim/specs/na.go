package specs

import "verif/sim/kit"

const pure = "pure function of its input: no schedule, clock, stream, crash point, fault or second party in the statement or the anchored code, so deterministic simulation with fault injection has nothing to decide (DESIGN.md section 5)"

func init() {
	kit.NotApplicable = [][2]string{
		{"C12", "transaction identity across JSON/binary forms — " + pure},
		{"C13", "only the sender's key authorises — signature/recovery functions; " + pure},
		{"C18", "trie proofs sound and complete — function of (trie, key, proof bytes); " + pure},
		{"C21", "container storage keys do not collide — key-encoding functions and sequential array/dict wrappers; " + pure},
		{"C22", "transaction/receipt lists preserve order and index — function of the item list; " + pure},
		{"C23", "RLP codec round-trip/rejection — encoder/decoder; " + pure},
		{"C24", "integer/hex encodings minimal and invertible — " + pure},
		{"C25", "header compression lossless and format-stable — " + pure},
		{"C26", "log blooms have no false negatives — " + pure},
		{"C28", "hexary accumulator deterministic/provable/rewindable — function of the hash sequence; the statement involves no crash or concurrent access; " + pure},
		{"C29", "BTP proofs need > 2/3 distinct signatures — verification function; no BTP network is active in any simulated chain; " + pure},
		{"C35", "rewards never exceed the term budget — arithmetic over a vote history given as data; " + pure},
		{"C36", "addresses have one canonical form — " + pure},
	}
	kit.Pending = stillPending
	for _, id := range pending {
		kit.NotApplicable = append(kit.NotApplicable, [2]string{id, "planned (DESIGN.md section 4) but its engine is not built yet; not claimed until its check exists and passes on the unchanged tree"})
	}
}

// pending: properties planned in DESIGN.md whose engine does not exist yet.
var pending = func() []string {
	var out []string
	for _, id := range []string{"C01", "C02", "C04", "C05", "C06", "C07", "C08", "C09", "C10", "C11", "C14", "C15", "C16", "C17", "C19", "C20", "C27", "C30", "C31", "C32", "C33", "C34", "C37"} {
		if stillPending[id] {
			out = append(out, id)
		}
	}
	return out
}()

// stillPending lists the planned properties whose check is not claimed yet.
var stillPending = map[string]bool{}
