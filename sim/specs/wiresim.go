package specs

import "verif/sim/kit"

// wiresim: C30 (packet framing), C31 (encrypted channel), C32 (peer identity), C33 (flooding filter).
func init() {
	// every mutex acquisition in this file is a scheduling point of the wiresim runs (C33: arrivals of one
	// flooded packet through several peers interleave inside PacketPool.Put / Contains). p2p.go and set.go
	// are deliberately not instrumented: PeerToPeer walks its peer sets in Go map order, and a yield inside
	// such a walk would let the (unseedable) map order leak into the schedule - replays diverged.
	kit.EngineInstrument["wiresim"] = []string{"network/pool.go"}
	const technique = "deterministic simulation: real goloop network code over simulated duplex byte streams (net.Conn) whose chunking, short writes, byte flips, " +
		"frame reorder/replay (man in the middle) and close-at-arbitrary-byte are tape decisions; writer/reader/adversary tasks under a cooperative token scheduler " +
		"(one task runs at a time, the tape picks which) inside a testing/synctest bubble; reference-model oracles; tape minimisation and replay"
	const level = "seeded exploration of inputs, stream chunkings, task interleavings and adversary actions; a clean batch is evidence over the sampled runs, not a proof"

	kit.Register(&kit.PropertySpec{
		ID: "C30", Engine: "wiresim",
		Profiles:  []kit.ProfileSpec{{Name: "clean", Weight: 3}, {Name: "corrupt", Weight: 2}},
		QuickRuns: 9000, QuickBudgetS: 30, ThoroughRuns: 1500000, ThoroughBudgetS: 600,
		Rule: "one run = 1..6 (thorough 1..14) packets with tape-drawn protocol, sub-protocol, source, destination, TTL, payload size (0..64, sizes around the 4096-byte buffer and its multiples, 65..20000, 64 KiB..256 KiB, the 1 MiB maximum and maximum-1) and extension (hint 0..63, 0..1023 bytes) " +
			"written by the real PacketWriter into a simulated stream and read by the real PacketReader; per Read the stream delivers all/1/uniform/1..16 bytes (mode per run). Profile clean: content never altered; 2/9 of runs have short writes (n<len, io.ErrShortWrite), 2/9 die at an arbitrary byte. " +
			"Profile corrupt: exactly one byte of one packet altered (1 bit or arbitrary mask) in a chosen field: each header field, payload, packet hash, extension info, extension. " +
			"Oracle: packets read == packets whose WritePacket succeeded, in order, all seven fields; a packet with an altered header or payload byte is never returned and all packets before it are; alterations of hash/extension bytes are outside the statement and only counted. " +
			"Non-trivial = at least one packet read back (or the first packet was the corrupted one and was rejected); distinct = distinct event-log hash (packet shapes, chunk sizes, schedule, fault).",
		QuickProbes:     []string{"corruption_rejected", "corrupt:header.length", "corrupt:payload", "short_write_retry_path", "close_mid_stream", "ext_present", "payload_64k_or_more"},
		EssentialProbes: []string{"payload_max", "corrupt:header.protocol", "corrupt:header.sub-protocol", "corrupt:header.source", "corrupt:header.destination", "corrupt:header.ttl", "corrupt:footer.hash"},
		Assumptions: []string{
			"a reader stops at the first error (Peer.receiveRoutine closes the peer on a non-temporary read error); no resynchronisation is attempted",
			"a writer whose WritePacket failed closes the connection (Peer.sendRoutine does)",
			"corruption of the packet hash, of the extension-info field or of extension bytes is outside the statement ('header or payload'); such runs only judge the packets before the altered one",
			"detection of an altered payload-length field relies on the 64-bit packet hash over a re-framed packet (miss probability 2^-64)",
		},
		Real:      []string{"network/packet.go: Packet.WriteTo/ReadFrom/_hash/setHeader/setFooter, PacketWriter (bufio 4096, retry loop with time.Sleep), PacketReader.ReadPacket"},
		Stubbed:   []string{"TCP connection (simconn: in-memory duplex stream implementing net.Conn, no flow control, no deadlines)", "wall clock (testing/synctest)"},
		DesignRef: "4.7", LevelText: level,
		LevelNote: "trusts the wire layout derived from the property's field list to aim and classify corruptions (verified in every fault-free run by byte count)",
		Technique: technique,
	})

	kit.Register(&kit.PropertySpec{
		ID: "C31", Engine: "wiresim",
		Profiles:  []kit.ProfileSpec{{Name: "stream", Weight: 3}, {Name: "stream-bigbuf", Weight: 2}, {Name: "mitm", Weight: 4}},
		QuickRuns: 8000, QuickBudgetS: 30, ThoroughRuns: 1200000, ThoroughBudgetS: 600,
		Rule: "one run = two real ephemeral keys (newSecureKey, seeded crypto/rand), secureKey.setup on both sides with 2 secrets for a drawn AEAD suite (chacha20-poly1305, aes128-gcm, aes256-gcm), two SecureConn over one simulated link; " +
			"writer tasks send 1..10 (thorough 1..24) writes of 1..16 / frame-size multiples +-1 / 1..5000 / 5000..20000 bytes in one or both directions, reader tasks call Read with a fresh buffer per call: profile stream 1..4096 bytes (1, 2..64, 512/1023/1024/1025/2048, uniform, 4096), profile stream-bigbuf 1024..4096 (isolates everything that does not depend on small buffers); ciphertext is delivered in tape-chosen chunks; 1/7 of stream runs kill the link at an arbitrary ciphertext byte; 4% of all runs send a LONG stream A>B instead (257..700 or 3000..4200 writes of 1..3 bytes, one frame each: per-frame cipher state has carried over many times), and the man in the middle then acts on one of its last 40 frames. " +
			"Profile mitm: exactly one manipulation of a ciphertext frame of direction A>B: flip a bit of body / tag / length prefix / unused prefix bytes, swap with the next frame, replay immediately, replay after the next frame, drop, truncate and close, reflect into the opposite direction (30% of mitm runs use read buffers 1..4096, the others 1024..4096). " +
			"Oracle: keys A.out==B.in, A.in==B.out, in!=out; every Read returns 0<=n<=len(buf); bytes returned are exactly the next bytes of the written stream; after a clean close everything written was read and the reader sees EOF; after a manipulation no plaintext at or beyond the manipulated frame is delivered (flips of the two unused prefix bytes only must not change the plaintext). " +
			"Non-trivial = at least one plaintext byte delivered and (mitm) the manipulation took place; distinct = distinct event-log hash.",
		QuickProbes:     []string{"suite:chacha", "suite:aes128", "suite:aes256", "small_read_buffers", "tamper_rejected:flip-body", "tamper_rejected:swap", "tamper_rejected:replay", "tamper_rejected:reflect", "close_mid_stream"},
		EssentialProbes: []string{"tamper_rejected:flip-tag", "tamper_rejected:flip-length", "tamper_rejected:drop", "tamper_rejected:truncate", "tamper_rejected:replay-later", "mitm_effective"},
		Assumptions: []string{
			"the reader stops at the first error (the peer is closed on a read error)",
			"dropping all remaining frames at a frame boundary is indistinguishable from the sender closing the connection and is not counted as tampering",
			"the two unused bytes of the 4-byte frame prefix are not ciphertext; altering them need not be detected but must not alter the plaintext",
		},
		Real: []string{"network/secure.go: newSecureKey, secureKey.setup/setPeerPublicKey/hkdf, NewSecureConn (key-to-direction assignment), SecureConn.Read/Write, SecureAead.Read/Write/increaseNonce",
			"crypto/ecdsa, golang.org/x/crypto hkdf/chacha20poly1305, crypto/aes+cipher GCM"},
		Stubbed:   []string{"TCP connection (simconn)", "crypto/rand (testing/cryptotest.SetGlobalRandom seeded from the tape)", "the 4096-byte bufio.Reader that production puts in front of SecureConn is deliberately absent: the statement quantifies over all read buffer sizes"},
		DesignRef: "4.7", LevelText: level,
		LevelNote: "key oracle reads the secrets through the verif accessor; frame boundaries and plaintext length per frame are taken from the wire as an on-path adversary would",
		Technique: technique,
	})

	kit.Register(&kit.PropertySpec{
		ID: "C32", Engine: "wiresim",
		Profiles:  []kit.ProfileSpec{{Name: "honest", Weight: 1}, {Name: "adversary", Weight: 4}},
		QuickRuns: 5000, QuickBudgetS: 30, ThoroughRuns: 600000, ThoroughBudgetS: 600,
		Rule: "three parties with tape-derived secp256k1 keys: honest A and B (real network.Authenticator objects and handlers on real Peer objects over simulated links; the harness plays Peer.receiveRoutine as a scheduler task) and adversary M (scripted speaker of the wire protocol with its own key). " +
			"Profile honest: one or two concurrent sessions between A and B with secure suite none/ecdhe/tls and a drawn AEAD; both ends must authenticate the other with the right identity. " +
			"Profile adversary: M attacks B as dialer or as acceptor (suite none or ecdhe) with one of: honest proof (must be accepted as M), same with uncompressed key, relay of A's proof harvested in a session A<->M, A's key with M's signature, M's signature over another secret (other session's / this session's traffic key / random), one mutated/truncated/extended/empty public key or signature, signature message before the secure exchange, B's own proof harvested in an earlier session, identity switch after authentication, byte-for-byte replay of everything A wrote in an earlier honest A->B session that M recorded on the wire (must never be authenticated); optionally a concurrent honest A<->B session. " +
			"Oracle (independent of Authenticator.VerifySignature): whenever an authenticator hands a peer on as authenticated with identity X, the public key presented in that session is the key of the wallet with address X and the presented signature verifies (decred secp256k1 + SHA3-256) under it over the session secret of the verifying peer object; a peer is handed on at most once and its identity does not change afterwards; honest proofs are accepted; no two different connections of the honest parties ever hold the same session secret (otherwise a proof for one session is a proof for the other). " +
			"Non-trivial = at least one session reached a verdict (authenticated or rejected); distinct = distinct event-log hash.",
		QuickProbes: []string{"authenticated_with_valid_proof", "false_proof_rejected", "proof_harvested", "attack:relay-other-session", "attack:pubA-sigM", "attack:sigM-other-secret",
			"attack:mutate-public-key", "attack:mutate-signature", "attack:signature-before-secure-exchange", "attack:replay-victims-own-proof", "attack:replay-recorded-transcript", "transcript_recorded", "pair_suite:ecdhe", "pair_suite:none"},
		EssentialProbes: []string{"pair_suite:tls", "attack:post-auth-identity-switch", "attack:honest-uncompressed-key", "victim_answered_with_error"},
		Assumptions: []string{
			"'assigned an identity' = handed to the next peer handler by nextOnPeer with Peer.ID() set (a rejected, closed peer whose id field was written before the check is only counted: probe id_field_set_on_rejected_peer)",
			"M never negotiates the TLS suite (M does not speak TLS); TLS is exercised between the honest parties only",
		},
		Real: []string{"network/authenticator.go: Authenticator.onPeer/onPacket, handleSecureRequest/Response, handleSignatureRequest/Response, Signature, VerifySignature, applySecureConn, suite negotiation; network/peerhandler.go wait-info sequencing, sendMessage/decode; network/peer.go Peer (sendDirect, ResetConn, CloseByError), PacketReader/Writer; network/secure.go; network/peerid.go; crypto/tls for suite tls"},
		Stubbed: []string{"Peer.receiveRoutine/sendRoutine goroutines (replaced by a scheduler task doing ReadPacket + current packet callback, panics recovered and peer closed as receiveRoutine does)",
			"PeerDispatcher and the handlers after the authenticator (a recording handler)", "listener/dialer/TCP (simconn)", "crypto/rand (seeded)"},
		DesignRef: "4.7", LevelText: level,
		LevelNote: "the session secret used by the oracle is read from the verifying peer object through the verif accessor; signature validity is recomputed with decred primitives, identities come from the wallets",
		Technique: technique,
	})

	kit.Register(&kit.PropertySpec{
		ID: "C33", Engine: "wiresim",
		Profiles:  []kit.ProfileSpec{{Name: "mixed", Weight: 12}, {Name: "bulk", Weight: 1}},
		QuickRuns: 6000, QuickBudgetS: 30, ThoroughRuns: 800000, ThoroughBudgetS: 600,
		Rule: "one node's real PeerToPeer (role validator/seed/citizen, non-empty allowed-validator set) with 3..6 peers attached through the real handlers (onPeer, handleQuery/handleQueryResult with a claimed role, handleP2PConnectionRequest with a requested connection type; 70% shapes that join, 30% arbitrary) over simulated links; the harness plays the remote peers and Peer.receiveRoutine. " +
			"Profile mixed: 1..6 flooded messages (Broadcast-all or Multicast; source: a remote validator, an attached peer, the node itself, a stranger) each arriving 1..5 times through drawn peers with differing relay extensions, 0..5 one-hop messages (Unicast, Broadcast-neighbor, Broadcast-children and odd ttl/destination combinations; source = sending peer, another peer, a stranger or the node) possibly repeated, per-peer order permuted, all streams interleaved by the scheduler, optionally a change of the validator set in mid-run. " +
			"Profile bulk: 520..1300 distinct flooded messages followed by 10..40 late duplicates of early ones (pool bucket rotation). " +
			"Oracle per arrival, observed at the registered packet callback: a flooded message (ttl 0, destination not 'peer') is delivered at most once in the run; a one-hop message whose source is not the delivering peer is never delivered; a Broadcast-all arriving from its own source peer is never delivered unless that peer is in the current validator set; a message arriving through a joined peer that is none of these cases, not sourced by the node itself and not yet delivered must be delivered (for direct originator broadcasts only when the peer is in the validator set and announced the role). " +
			"Non-trivial = something delivered and a duplicate suppressed or an illegitimate arrival dropped; distinct = distinct event-log hash.",
		QuickProbes:     []string{"peer_joined", "flood_duplicate_suppressed", "spoofed_onehop_dropped", "unauthorized_originator_dropped", "flood_first_of_many_delivered", "duplicate_suppressed_after_pool_rotation", "validator_set_changed"},
		EssentialProbes: []string{"self_sourced_dropped"},
		Assumptions: []string{
			"fewer distinct flooded messages per run than the duplicate pool remembers (20 buckets x 500)",
			"the allowed-validator set is known and non-empty (with an empty set goloop trusts the announced role)",
			"'holds the validator role' = member of the node's current validator set; a member that did not announce the role is a don't-care for the must-deliver direction",
			"message identity = all header fields + payload (relays may rewrite only the extension)",
		},
		Real: []string{"network/p2p.go: PeerToPeer.onPeer/addPeer, onPacket (protocol, connection-type, self-source, one-hop source, originator role checks, callback dispatch), handleQuery, handleQueryResult, handleP2PConnectionRequest, resolveRole, resolveConnectionRequest, updatePeerConnectionType, onAllowedPeerIDSetUpdate, setRole; network/pool.go PacketPool; network/packet.go reader/writer; network/set.go"},
		Stubbed: []string{"Peer.receiveRoutine/sendRoutine goroutines (scheduler task; packets the node queues for sending are never transmitted)", "authenticator and channel negotiator (peer id, protocol list and SupportDefaultProtocols attribute set directly)",
			"p2p discovery/send routines (not started)", "protocolHandler/Reactor (the observation point is the callback registered with PeerToPeer, as the property's observe_at says)", "TCP (simconn)"},
		DesignRef: "4.7", LevelText: level,
		LevelNote: "arrivals are processed one packet at a time (interleaving granularity = packet, chunk-level interleaving of the byte streams); concurrent onPacket calls inside one packet's processing are not explored",
		Technique: technique,
	})
}
