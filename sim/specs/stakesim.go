package specs

import "verif/sim/kit"

func init() {
	kit.Register(&kit.PropertySpec{
		ID: "C34", Engine: "stakesim",
		QuickRuns: 200, QuickBudgetS: 30, ThoroughRuns: 400000, ThoroughBudgetS: 600,
		Rule: "one run = one tape-drawn configuration (term period 10-30 blocks, 4-8 P-Reps, 6-10 users, unstake lock 1-3 terms, 2-4 unstake slots, " +
			"validation-penalty conditions 2-4 / 1-2, slashing rates drawn) of the real icsim simulator, walked through revisions 13..latest as icsim's own Env does, " +
			"followed by 3-6 terms of history with 0-4 tape-drawn operations per block (setStake up/down/zero/too much/below use, setDelegation and setBond valid/over-committing/" +
			"to inactive or unlisted P-Reps/clear, bonder lists, transfers incl. more than the balance, P-Rep register/unregister, claimIScore, commission rates, requestUnjail, " +
			"governance disqualification, double-sign reports) while up to two validators stop voting for drawn stretches. After EVERY block all accounts, P-Reps and network totals " +
			"are read back through the public query API and recounted. Non-trivial = the history covered at least 3 term changes without an oracle failure; distinct = distinct event-log hash.",
		QuickProbes:     []string{"unstake_expired", "slash_applied", "over_delegation_rejected", "prep_unregistered", "iscore_claimed", "term_changed"},
		EssentialProbes: []string{"unstake_expired", "slash_applied", "over_delegation_rejected", "prep_unregistered", "iscore_claimed", "term_changed", "penalty_imposed", "prep_disqualified", "unbond_expired", "two_unstake_slots_same_expiry"},
		Assumptions: []string{
			"the set of accounts that can hold ICX is closed: users, P-Rep owners, treasury, system address, governance and the initial validators (nothing else is ever a transfer target, bonder or reward receiver in a run)",
			"icsim charges no transaction fees and issues no ICX (its base transaction only carries consensus info): 'failed operations change nothing but the fee' is checked as 'change nothing', and issuance is outside this check; I-Score claims are paid from a pre-funded treasury",
			"P-Rep registration burns 2000 ICX (protocol constant, stated in the reference model); slashed amounts are taken from the Slashed events and cross-checked against the drop of TotalSupply and of the bonders' stake",
			"delegation/bond lists pass through icstate.NewDelegations/NewBonds (the API's parameter validation) before they reach the simulator, which would otherwise skip it",
			"all staking starts in the simulator's second term: its reward calculator skips the very first term, so votes cast there cannot be reduced later without failing the calculation (reproduces with icsim.NewEnv alone)",
			"a block the simulator cannot execute ends the run without a verdict (C34 does not speak about failing blocks); counted as block_failed_* probes and described in /verif/findings/C34-observation-*.md",
			"a quarter of the stake decreases are followed by a second decrease in the same block (two unstake slots with one expiry height) and UnstakeSlotMax is 2-4: this steers histories towards the known finding unstake-overdue|shared-expiry-slot-timer-removed (/verif/findings/C34-unstake-shared-expiry.md); any other overdue unstake has signature unstake-overdue|other",
			"the time at which an unbond expires is not part of C34 (only unstakes are); late unbonds are counted (unbond_overdue_observed), not reported",
		},
		Real: []string{"icon/icsim simulator (GoByBlock, query API)", "icon/iiss ExtensionStateImpl: SetStake, SetDelegation, SetBond, SetBonderList, RegisterPRep, UnregisterPRep, DisqualifyPRep, ClaimIScore, commission rates, HandleConsensusInfo penalties, HandleDoubleSignReport, slash, timer handling, term change",
			"icon/iiss/icstate accounts, unstakes, unbonds, timers, P-Rep status, network values", "icon/iiss/calculator reward calculation (background goroutine, awaited by the simulator)", "service/state world state over MapDB"},
		Stubbed:   []string{"consensus (ConsensusInfo with tape-chosen non-voters)", "transaction fees and ICX issuance (absent in icsim)", "governance SCORE (direct calls as the governance address)", "network proposals"},
		DesignRef: "4.8",
		LevelText: "seeded exploration of staking histories (operations, validator downtime, double-sign reports, disqualifications) on the real IISS extension inside icsim, with a full recount of supply, stakes, delegations, bonds and unstake queues after every block; a clean batch is evidence over the sampled histories, not a proof",
		LevelNote: "no concurrency and no I/O faults are injected here: simulation contributes the block-height clock with expiring unstake/unbond timers, downtime and double-sign events and long seeded histories checked after every step; trusts icsim's world context (balances, burns) and the completeness of the account list; fees and issuance are not exercised",
		Technique: "deterministic simulation: seeded operation histories with fault-like consensus events on the real staking code, per-block reference recount, tape minimisation and replay",
	})
}
