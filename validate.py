#!/opt/veriftools/pyvenv/bin/python
import json, jsonschema, glob, sys
m=json.load(open('/verif/MANIFEST.json')); jsonschema.validate(m, json.load(open('/root/.vp/MANIFEST.schema.json')))
props=[json.loads(l)['id'] for l in open('/verif/properties.jsonl')]
claimed=[c['property_id'] for c in m['checks']]; na=[x['property_id'] for x in m.get('not_applicable',[])]
assert sorted(claimed+na)==sorted(props), (set(props)-set(claimed+na), set(claimed)&set(na))
es=json.load(open('/root/.vp/EVIDENCE.schema.json'))
for f in sorted(glob.glob('/verif/evidence/*.json')):
    e=json.load(open(f)); jsonschema.validate(e, es)
    print(f.split('/')[-1], e['tier'], e['coverage']['evaluations'], e['coverage']['distinct_nontrivial'], 'wall', round(e['wall_s'],1))
print('manifest valid: claimed', len(claimed), 'n/a', len(na))
